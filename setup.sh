#!/bin/bash
# Builds the framework offline and warms the Go build cache (std with and without -race, the harness, the rewriter).
set -e
cd "$(dirname "${BASH_SOURCE[0]}")/sim"
export GOFLAGS=-mod=mod GOPROXY=off GOSUMDB=off GOTOOLCHAIN=local
GO=go1.26.8; command -v $GO >/dev/null 2>&1 || GO=/opt/veriftools/go1.26.8/bin/go
mkdir -p ../.build
$GO build -o ../.build/driver.setup ./cmd/driver && rm -f ../.build/driver.setup
$GO build -o /dev/null ./cmd/instr
$GO test -c -o /dev/null ./worker/
$GO test -race -c -o /dev/null ./worker/
echo "setup ok"
