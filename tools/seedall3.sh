#!/bin/bash
# dev tool: seedall3.sh <stream> <streams> <donefile> [budget] - like seedall2.sh, skipping the ids listed in donefile
cd /verif
i=0
for d in seeded/*/; do
  id=$(basename $d)
  grep -qx "$id" $3 2>/dev/null && continue
  i=$((i+1)); [ $((i % $2)) = $1 ] || continue
  P=${id%%-*}; M=${id#*-}
  out=$(FAST=1 tools/seedeval.sh $P $M --budget ${4:-15} 2>&1)
  c=$(echo "$out" | grep -o "caught=[a-z]*" | tail -1)
  o=$(echo "$out" | grep -o "oracle [A-Z0-9]* ([^)]*)" | sort -u | head -3 | paste -sd';')
  echo "$id $c $o"
done
