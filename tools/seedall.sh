#!/bin/bash
# dev tool: re-run every stored seeded change against its check; prints one line per change
cd /verif
for d in seeded/*/; do
  id=$(basename $d); P=${id%%-*}; M=${id#*-}
  out=$(tools/seedeval.sh $P $M --budget ${1:-12} 2>&1)
  c=$(echo "$out" | grep -o "caught=[a-z]*" | tail -1)
  o=$(echo "$out" | grep -o "oracle [A-Z0-9]* ([^)]*)" | sort -u | head -3 | paste -sd';')
  echo "$id $c $o"
done
