#!/usr/bin/env python3
# Regenerates MANIFEST.json from the table below (kept in one place so it stays valid).
import json, os
ROOT = os.path.dirname(os.path.dirname(os.path.abspath(__file__)))
NA = {
 "C01": "pure function of the message (Pack/Unpack): no schedule, clock, fault or peer for a simulation to vary; not dressed up as one",
 "C02": "quantified over byte strings handed to a decoder, a pure function of the input; the system-level clause (a server fed such octets does not panic, answers or stays silent) is decided under C14 with a corrupting link",
 "C03": "pure function of a domain name",
 "C04": "pure function of a message (compression on/off)",
 "C05": "pure function of a record (String then parse)",
 "C06": "the denotation of zone text is a pure function of text, options and include contents; bufio absorbs segmentation; I/O faults on the parser are C07",
 "C08": "pure function of a message",
 "C09": "pure function of (message, size)",
 "C10": "RRSIG Sign/Verify read no clock and keep no state: pure functions of (RRset, key, RRSIG)",
 "C16": "object-graph disjointness and read-only-ness are properties of values; the one clause with a running system (decoded request must not alias a recycled receive buffer) is exercised as oracle B1 of C12",
 "C17": "closed-form functions of keys, names and times; ValidityPeriod takes the time as an argument",
 "C19": "pure functions of strings",
 "C20": "pure functions of records",
}
PENDING = {}
CHECKS = {}
def check(pid, text, note, technique, ref):
    CHECKS[pid] = {
        "property_id": pid,
        "quick_cmd": f"./check {pid} --tier quick",
        "thorough_cmd": f"./check {pid} --tier thorough",
        "evidence_file": f"/verif/evidence/{pid}.json",
        "replay_cmd_template": f"./check {pid} --replay {{path}}",
        "engine": "verifsim",
        "level_claimed": {"category": "exploration", "text": text, "design_ref": ref},
        "level_note": note,
        "technique": technique,
    }
STUBS = "Stubbed: kernel sockets; the operating system's listen and dial calls (in the instrumented builds listenTCP/listenUDP and the client's three dial sites ask a socket seam of the simulator, so ListenAndServe and the dialling entry points run real code up to that call; in the unmodified-tree builds every listening / dialling entry point is a stub); the setsockopt calls of the UDP branch (the rest of the *net.UDPConn/SessionUDP/control-message path runs in the instrumented builds through an interface substituted for *net.UDPConn; in the unmodified-tree builds it is a stub). Trusted: testing/synctest (fake clock, quiescence), the Go race detector, the go/ast rewriter that adds scheduling points to a scratch copy (the unmodified tree runs alongside as a cross-check), the small independent oracle code under sim/oracle."
exec(open(os.path.join(ROOT, "tools", "manifest_checks.py")).read())
for pid in ["C07","C11","C12","C13","C14","C15","C18"]:
    if pid not in CHECKS:
        PENDING[pid] = "decided by simulation per DESIGN.md section 4; its check is still under construction in this tree and is therefore not claimed yet"
man = {
 "version": 1,
 "setup_cmd": "./setup.sh",
 "hooks": {
   "guard": "verifsim",
   "enable": "no hook is committed to /repo: each check copies /repo's working tree to a mktemp scratch directory, rewrites the copy with sim/cmd/instr (go/ast: yields at goroutine spawn, lock, WaitGroup, channel and select sites; cooperative TryLock loops; an interface for *net.UDPConn; a deterministic free list for sync.Pool; listenTCP/listenUDP and the dial sites of client.go routed through hook variables) and builds that copy with -tags verifsim; the unmodified tree is built and simulated alongside through the seams it already has (Server.Listener/PacketConn, dns.Conn{Conn}, Decorate*, MsgAcceptFunc, fs.FS)",
   "baseline_off_cmd": "cd /repo && go test -vet=off -count=1 -timeout 25m ./...",
   "source_commits": [],
   "add_only": True,
 },
 "engines": [{"name": "verifsim", "path": "/verif/sim", "serves_properties": sorted(CHECKS), "kind_free_text": "deterministic simulation with fault injection: seeded scheduler + fake clock (testing/synctest) + simulated stream/datagram transport and file system, real library code, oracles over recorded histories, out-of-process minimiser and replay"}],
 "checks": [CHECKS[k] for k in sorted(CHECKS)],
 "not_applicable": [{"property_id": k, "reason": v} for k, v in sorted({**NA, **PENDING}.items())],
 "notes": "See DESIGN.md. Exit codes of every command: 0 held on everything explored, 1 VIOLATION line printed, 2 harness/build/watchdog trouble (never a property verdict). known_findings.json lists recorded and fixed defects.",
}
json.dump(man, open(os.path.join(ROOT, "MANIFEST.json"), "w"), indent=1)
print("claimed", sorted(CHECKS), "pending", sorted(PENDING))
