#!/bin/bash
# dev tool: oneseed.sh <PROP> <seed> [tier] : builds the instrumented worker from /repo, runs one generated seed verbosely in
# three fresh processes (GOMAXPROCS 1, 4, 16) and says whether their digests and logs agree
P=$1; S=$2; TIER=${3:-quick}
B=/tmp/oneseed.instr.test
[ -x $B ] && [ -z "$REBUILD" ] || /verif/tools/instrworker.sh /repo $B || exit 2
for gm in 1 4 16; do
  echo "{\"op\":\"seeds\",\"prop\":\"$P\",\"tier\":\"$TIER\",\"seeds\":[$S],\"verbose\":true}" | GOMAXPROCS=$gm VERIF_OUT=/tmp/oneseed.$gm.out $B -test.run TestWorker -test.timeout 10m >/dev/null 2>&1
  python3 - /tmp/oneseed.$gm.out <<'PY'
import json,sys
for l in open(sys.argv[1]):
    r=json.loads(l)
    if r.get('kind')=='result':
        res=r['result']; print('digest %x verdict %s steps %s' % (res.get('digest',0), res.get('verdict'), res.get('steps')))
        open(sys.argv[1]+'.log','w').write('\n'.join(res.get('log') or []))
        open(sys.argv[1]+'.sc','w').write(json.dumps(res.get('scenario')))
PY
done
cmp -s /tmp/oneseed.1.out.log /tmp/oneseed.4.out.log && cmp -s /tmp/oneseed.1.out.log /tmp/oneseed.16.out.log && echo "logs agree" || echo "LOGS DIFFER"
