#!/bin/bash
# dev tool: mutrun.sh <patch.diff|-e 'sed expr' file> PROP N [tier]  -- run a property against a mutated scratch copy of /repo
set -e
export GOFLAGS=-mod=mod GOPROXY=off GOSUMDB=off GOTOOLCHAIN=local
D=$(mktemp -d /tmp/mut.XXXXXX)
trap 'rm -rf $D' EXIT
rsync -a --exclude .git /repo/ $D/repo/
if [ "$1" = "-e" ]; then sed -i "$2" $D/repo/$3; (cd /repo && diff -u $3 $D/repo/$3 | head -20 || true); shift 3; else (cd $D/repo && patch -p1 -s < $1); shift; fi
(cd $D/repo && go1.26.8 build ./... ) || { echo "mutant does not compile"; exit 2; }
cd /verif/sim
sed "s#=> /repo#=> $D/repo#" go.mod > $D/go.mod; cp go.sum $D/go.sum
go1.26.8 test -modfile=$D/go.mod -c -o $D/worker ./worker/
cd $D && echo "{\"op\":\"range\",\"prop\":\"$1\",\"tier\":\"${3:-quick}\",\"base\":1,\"from\":0,\"stride\":1,\"max\":$2,\"samples\":0}" | VERIF_OUT=$D/w.out ./worker -test.run='^TestWorker$' -test.timeout=0 2>&1 | grep -v "^\s" | head -20
grep '"violation"' w.out | python3 -c "
import sys,json,collections
n=0; c=collections.Counter()
for l in sys.stdin:
    d=json.loads(l)['result']; n+=1; c[d['oracle']+':'+d['sig']]+=1
    if n<=3: print(d['oracle'], d['msg'][:500])
print('violations', n, dict(c))
"
grep aggregate w.out | python3 -c "
import sys,json
for l in sys.stdin:
    d=json.loads(l); print('runs',d['runs'],'harness',d['harness'],d.get('harness_msg',''))
"
