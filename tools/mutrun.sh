#!/bin/bash
# dev tool: run a check against a mutated scratch copy of /repo (never touches /repo or /verif/evidence)
#   mutrun.sh -e 'sed expr' file PROP [check args...]
#   mutrun.sh patch.diff PROP [check args...]
export GOFLAGS=-mod=mod GOPROXY=off GOSUMDB=off GOTOOLCHAIN=local
D=$(mktemp -d /tmp/mut.XXXXXX)
trap 'rm -rf $D' EXIT
rsync -a --exclude .git /repo/ $D/repo/
if [ "$1" = "-e" ]; then sed -i "$2" $D/repo/$3; (cd /repo && diff -u $3 $D/repo/$3 | head -30); shift 3; else (cd $D/repo && patch -p1 -s < $1) || exit 2; shift; fi
(cd $D/repo && go1.26.8 build ./... ) || { echo "mutant does not compile"; exit 2; }
PROP=$1; shift
VERIF_REPO=$D/repo VERIF_OUTDIR=$D/out ${CHECK:-/verif/check} $PROP "$@"
rc=$?
for f in $D/out/replays/$PROP/*.json; do [ -f "$f" ] && python3 - "$f" <<'P'
import json,sys
d=json.load(open(sys.argv[1]))
print('--- replay', d['build'], d['oracle'], d['sig'], 'shrunk', d['shrink_steps']); print(d['message'][:800]); print(json.dumps(d['scenario'])[:600]); print('schedule:', d.get('schedule_note'), (d.get('schedule') or {}).get('picks'))
P
done
echo "exit $rc"
