#!/usr/bin/env python3
# dev tool: mkreach.py - from the evidence of a full quick run of every check (on the unchanged tree), write
# expected_reach.json: per property the fault / oracle / probe / coverage counters that fired often enough to be
# expected in every quick run. The driver compares each run against it and names the ones that stayed at zero
# (coverage.reach_gaps + a note on stdout; never an exit code).
import json, os
out = {}
for p in ["C07", "C11", "C12", "C13", "C14", "C15", "C18"]:
    e = json.load(open(f"/verif/evidence/{p}.json"))
    if e["tier"] != "quick":
        raise SystemExit(f"{p}: evidence is not from a quick run")
    c = e["coverage"]
    runs = max(c["evaluations"], 1)
    names = []
    for grp, pre in (("faults_fired", "fault."), ("oracle_checks", "oracle."), ("probes", "probe."), ("coverage_counters", "cover.")):
        for k, v in c.get(grp, {}).items():
            # often enough that a batch a fifth the size would still see it a few dozen times
            if v >= 400 and v * 2000 >= runs and "not_judged" not in k:
                names.append(pre + k)
    out[p] = sorted(names)
    print(p, len(names))
json.dump(out, open("/verif/expected_reach.json", "w"), indent=1)
