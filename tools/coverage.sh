#!/bin/bash
# dev tool: coverage.sh [runs-per-property] [tier]
# Builds the instrumented worker with coverage of package dns, runs every claimed property for a range of
# seeds in one process and prints, per anchor file, the functions of the library the simulations never entered.
N=${1:-3000}; TIER=${2:-quick}
export GOFLAGS=-mod=mod GOPROXY=off GOSUMDB=off GOTOOLCHAIN=local
T=$(mktemp -d /tmp/cov.XXXXXX); trap 'rm -rf $T' EXIT
rsync -a --exclude .git /repo/ $T/dns/
cd /verif/sim && go1.26.8 run ./cmd/instr -dir $T/dns >/dev/null || exit 2
sed "s#=> /repo#=> $T/dns#" go.mod > $T/go.instr.mod; cp go.sum $T/go.instr.sum
go1.26.8 test -c -cover -coverpkg=github.com/miekg/dns -o $T/worker -tags verifsim,verifsimudp -modfile=$T/go.instr.mod ./worker/ || exit 2
mkdir -p $T/w && cd $T/w
for p in C07 C11 C12 C13 C14 C15 C18; do echo "{\"op\":\"range\",\"prop\":\"$p\",\"tier\":\"$TIER\",\"base\":1,\"from\":0,\"stride\":1,\"max\":$N}"; done |
  VERIF_OUT=$T/w/out VERIF_JOURNAL=$T/w/journal GOMAXPROCS=2 $T/worker -test.run='^TestWorker$' -test.timeout=0 -test.coverprofile=$T/cover.out >/dev/null 2>$T/stderr || { tail -5 $T/stderr; }
cd $T/dns && go1.26.8 tool cover -func=$T/cover.out | sed "s#github.com/miekg/dns/##" > $T/func.txt
for f in server.go client.go udp.go xfr.go tsig.go sig0.go serve_mux.go acceptfunc.go scan.go generate.go dnssec_keyscan.go; do
  echo "== $f: functions never entered"; grep "^$f:" $T/func.txt | awk '$NF=="0.0%"{print "   "$2}' | tr '\n' ' '; echo
  echo "   partly covered (<60%):"; grep "^$f:" $T/func.txt | awk '{v=$NF; sub("%","",v); if (v+0>0 && v+0<60) print "   "$2" "$NF}' | tr '\n' ' '; echo
done
grep "^total" $T/func.txt
cp $T/cover.out /tmp/verif-cover.out 2>/dev/null; cp $T/func.txt /tmp/verif-cover-func.txt
