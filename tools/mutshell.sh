#!/bin/bash
# dev tool: mutshell.sh patch.diff  -> prints scratch dir with mutated repo (caller removes)
D=$(mktemp -d /tmp/mut.XXXXXX)
rsync -a --exclude .git /repo/ $D/repo/
(cd $D/repo && patch -p1 -s < $1) || exit 2
echo $D
