#!/bin/bash
# dev tool: seedall2.sh <stream> <streams> [budget] - re-run the stored seeded changes number stream, stream+streams, ...
# against the frozen check in $VCHECK; prints one line per change (FAST mode: the check only)
cd /verif
i=0
for d in seeded/*/; do
  i=$((i+1)); [ $((i % $2)) = $1 ] || continue
  id=$(basename $d); P=${id%%-*}; M=${id#*-}
  out=$(FAST=1 tools/seedeval.sh $P $M --budget ${3:-15} 2>&1)
  c=$(echo "$out" | grep -o "caught=[a-z]*" | tail -1)
  o=$(echo "$out" | grep -o "oracle [A-Z0-9]* ([^)]*)" | sort -u | head -3 | paste -sd';')
  echo "$id $c $o"
done
