#!/bin/bash
# dev tool: instrworker.sh <repo tree> <output binary> : builds the instrumented worker for that tree
export GOFLAGS=-mod=mod GOPROXY=off GOSUMDB=off GOTOOLCHAIN=local
T=$(mktemp -d /tmp/iw.XXXXXX); trap 'rm -rf $T' EXIT
rsync -a --exclude .git $1/ $T/dns/
cd /verif/sim && go1.26.8 run ./cmd/instr -dir $T/dns >/dev/null || exit 2
sed "s#=> /repo#=> $T/dns#" go.mod > $T/go.instr.mod; cp go.sum $T/go.instr.sum
go1.26.8 test -c -o $2 -tags verifsim,verifsimudp -modfile=$T/go.instr.mod ./worker/ || exit 2
