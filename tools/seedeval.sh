#!/bin/bash
# dev tool: seedeval.sh <PROP> <mN> [check args]  -- confirm a sub-agent's seeded change and run the check against it
# Confirms in a scratch worktree of /repo: suite passes with the patch, demo fails with it and passes without it.
# env: WT=<worktree root holding out/mN> (default /tmp/wt-$P), TAG=<prefix for the stored id, e.g. w2>
P=$1; M=$2; shift 2
# a new change comes from the sub-agent's worktree (TAG names its wave); a stored one from /verif/seeded
SRC=/verif/seeded/$P-$M
[ -n "${TAG:-}" ] && SRC=${WT:-/tmp/wt-$P}/out/$M
[ -f $SRC/patch.diff ] || SRC=/verif/seeded/$P-${TAG:-}$M
[ -f $SRC/patch.diff ] || { echo "no patch for $P $M"; exit 2; }
W=$(mktemp -d /tmp/ev.XXXXXX); rmdir $W
git -C /repo worktree add -q --detach $W HEAD || exit 2
trap 'git -C /repo worktree remove --force $W >/dev/null 2>&1; rm -rf $W' EXIT
cd $W
git apply $SRC/patch.diff || { echo "PATCH DOES NOT APPLY"; exit 2; }
go build ./... || { echo "DOES NOT COMPILE"; exit 2; }
if [ -n "$FAST" ] && [ -f /verif/seeded/$P-${TAG:-}$M/meta.json ]; then
  # already confirmed and stored: only run the check again and refresh check_run
  mkdir -p /tmp/ev.out.$$
  VERIF_REPO=$W VERIF_OUTDIR=/tmp/ev.out.$$ ${VCHECK:-/verif/check} $P "$@" > /tmp/ev.check.$$ 2>&1; RC=$?
  grep -E "VIOLATION|oracle|OK:|HARNESS|note:" /tmp/ev.check.$$ | cut -c1-260 | head -6
  CAUGHT=false; [ $RC = 1 ] && CAUGHT=true
  ORACLES=$(grep -o "oracle [A-Z0-9]* ([^)]*)" /tmp/ev.check.$$ | sort -u | paste -sd';')
  python3 - /verif/seeded/$P-${TAG:-}$M/meta.json "$CAUGHT" "$ORACLES" "$P" "$*" <<'PY'
import json,sys
f,caught,oracles,p,args=sys.argv[1:6]
m=json.load(open(f)); m["check_run"]={"command":f"VERIF_REPO=<patched worktree> ./check {p} {args}".strip(),"caught":caught=="true","oracles":oracles}
json.dump(m,open(f,'w'),indent=1)
PY
  echo "check-exit=$RC"; echo "re-run of /verif/seeded/$P-${TAG:-}$M (caught=$CAUGHT)"
  rm -rf /tmp/ev.*.$$; exit 0
fi
SUITE=pass; go test -vet=off -count=1 ./... >/tmp/ev.suite.$$ 2>&1 || SUITE=FAIL
cp $SRC/demo_test.go zz_demo_test.go
DEMO=$(grep -o "^func Test[A-Za-z0-9_]*" zz_demo_test.go | sed 's/func //' | paste -sd'|')
WITH=pass; go test -vet=off -count=1 -run "^($DEMO)\$" . >/tmp/ev.with.$$ 2>&1 || WITH=FAIL
git checkout -q -- . 
WITHOUT=pass; go test -vet=off -count=1 -run "^($DEMO)\$" . >/tmp/ev.without.$$ 2>&1 || WITHOUT=FAIL
rm -f zz_demo_test.go
echo "suite-with-patch=$SUITE demo-with-patch=$WITH demo-without-patch=$WITHOUT (demo tests: $DEMO)"
[ $SUITE = pass ] || tail -15 /tmp/ev.suite.$$
git apply $SRC/patch.diff
mkdir -p /tmp/ev.out.$$
VERIF_REPO=$W VERIF_OUTDIR=/tmp/ev.out.$$ ${VCHECK:-/verif/check} $P "$@" > /tmp/ev.check.$$ 2>&1; RC=$?
grep -E "VIOLATION|oracle|OK:|HARNESS|note:" /tmp/ev.check.$$ | cut -c1-260 | head -12
echo "check-exit=$RC"
if [ "$SUITE" = pass ] && [ "$WITH" = FAIL ] && [ "$WITHOUT" = pass ]; then
  D=/verif/seeded/$P-${TAG:-}$M; mkdir -p $D
  cp $SRC/patch.diff $SRC/demo_test.go $D/ 2>/dev/null; cp $SRC/notes.md $D/ 2>/dev/null
  CAUGHT=false; [ $RC = 1 ] && CAUGHT=true
  ORACLES=$(grep -o "oracle [A-Z0-9]* ([^)]*)" /tmp/ev.check.$$ | sort -u | paste -sd';')
  python3 - "$D" "$P" "${TAG:-}$M" "$CAUGHT" "$ORACLES" "$DEMO" "$*" <<'PY'
import json,sys,os
d,p,m,caught,oracles,demo,args=sys.argv[1:8]
notes=open(os.path.join(d,'notes.md')).read() if os.path.exists(os.path.join(d,'notes.md')) else ''
meta={"property":p,"id":f"{p}-{m}","source":"independent sub-agent given only the property text and a scratch worktree",
 "needs_to_manifest":notes[:1500],
 "confirmed":{"suite_with_patch":"pass","demo_with_patch":"FAIL","demo_without_patch":"pass","demo_tests":demo,
   "how":"tools/seedeval.sh: scratch worktree of /repo HEAD; git apply patch.diff; go build ./...; go test -vet=off -count=1 ./...; demo copied to zz_demo_test.go and run with and without the patch"},
 "check_run":{"command":f"VERIF_REPO=<patched worktree> ./check {p} {args}".strip(),"caught":caught=="true","oracles":oracles}}
json.dump(meta,open(os.path.join(d,'meta.json'),'w'),indent=1)
PY
  echo "stored in $D (caught=$CAUGHT)"
else
  echo "NOT CONFIRMED - not stored"
fi
rm -rf /tmp/ev.*.$$ 
