// Package core holds what every property harness shares: the result record a
// run produces, the registry of properties, and small helpers.
package core

import (
	"cmp"
	"encoding/json"
	"fmt"
	"math/rand/v2"
	"slices"
	"sort"
	"testing"
)

const (
	OK        = "ok"
	Violation = "violation"
	Harness   = "harness" // simulator trouble (step cap, instrumentation), never a property verdict
)

// Result is what one simulated run reports.
type Result struct {
	Seed       uint64          `json:"seed"`
	Verdict    string          `json:"verdict"`
	Oracle     string          `json:"oracle,omitempty"` // e.g. "S2"
	Msg        string          `json:"msg,omitempty"`
	Sig        string          `json:"sig,omitempty"` // stable signature used to match known findings
	Digest     uint64          `json:"digest"`
	Steps      int             `json:"steps"`
	SimNS      int64           `json:"sim_ns"`
	Class      string          `json:"class,omitempty"`   // coarse behaviour class of the run
	Classes    []string        `json:"classes,omitempty"` // further behaviour classes covered by the run
	Nontrivial bool            `json:"nontrivial"`
	Stats      map[string]int  `json:"stats,omitempty"`
	Log        []string        `json:"log,omitempty"`
	Scenario   json.RawMessage `json:"scenario,omitempty"`
	Races      []string        `json:"races,omitempty"`
	Picks      []uint16        `json:"picks,omitempty"`   // the schedule that was taken, in kernel.Schedule form (verbose single runs only)
	Kernels    int             `json:"kernels,omitempty"` // schedulers the run created
	Diverged   bool            `json:"diverged,omitempty"`
}

func (r *Result) Fail(oracle, sig, format string, a ...any) {
	if r.Verdict == Violation {
		return // keep the first
	}
	r.Verdict = Violation
	r.Oracle = oracle
	r.Sig = sig
	r.Msg = fmt.Sprintf(format, a...)
}

func (r *Result) Bump(name string) {
	if r.Stats == nil {
		r.Stats = map[string]int{}
	}
	r.Stats[name]++
}

func (r *Result) Add(name string, n int) {
	if r.Stats == nil {
		r.Stats = map[string]int{}
	}
	r.Stats[name] += n
}

// SortedKeys returns the keys of m in ascending order: verdicts must not depend
// on Go's map iteration order (one seed = one outcome, message included).
func SortedKeys[K cmp.Ordered, V any](m map[K]V) []K {
	keys := make([]K, 0, len(m))
	for k := range m {
		keys = append(keys, k)
	}
	slices.Sort(keys)
	return keys
}

// Prop is one property's simulation harness.
type Prop struct {
	ID string
	// Gen expands a run seed into an explicit scenario (JSON-marshalable).
	Gen func(seed uint64, tier string) any
	// Decode parses a scenario produced by Gen (for replay and shrinking).
	Decode func(raw json.RawMessage) (any, error)
	// Run executes one scenario. t is only used to open a synctest bubble.
	Run func(t *testing.T, sc any, verbose bool) *Result
	// Shrink proposes smaller scenarios (may be nil).
	Shrink func(sc any) []any
	// NeedsKernel is false for harnesses that have no scheduler (C07).
	Modes []string // which builds are useful: "pristine", "instr"
	Race  bool     // run a share on the race build
}

var Registry = map[string]*Prop{}

func Register(p *Prop) { Registry[p.ID] = p }

func IDs() []string {
	var ids []string
	for id := range Registry {
		ids = append(ids, id)
	}
	sort.Strings(ids)
	return ids
}

// Mix derives the i-th run seed from a driver seed (splitmix64).
func Mix(seed uint64, i uint64) uint64 {
	z := seed + (i+1)*0x9e3779b97f4a7c15
	z = (z ^ (z >> 30)) * 0xbf58476d1ce4e5b9
	z = (z ^ (z >> 27)) * 0x94d049bb133111eb
	return z ^ (z >> 31)
}

// Rng returns the scenario-generation PRNG of a run seed.
func Rng(seed uint64) *rand.Rand { return rand.New(rand.NewPCG(seed, 0x6e5)) }

// Pick returns a random element.
func Pick[T any](r *rand.Rand, xs ...T) T { return xs[r.IntN(len(xs))] }

// Chance is true with probability pct/100.
func Chance(r *rand.Rand, pct int) bool { return r.IntN(100) < pct }

// Mode is set by the worker binary's build: "pristine" or "instr".
var Mode = "pristine"

// Abandon is set by a harness when a run left a goroutine behind that cannot
// be stopped (library code that does not terminate): the worker reports the
// run and exits, the driver starts a fresh process.
var Abandon bool
