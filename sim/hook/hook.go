// Package hook: see hook_instr.go (build tag verifsim). Without the tag the
// library is the unmodified tree and there is nothing to connect.
package hook
