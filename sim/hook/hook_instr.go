//go:build verifsim

// Package hook connects the scheduling points of the instrumented scratch
// copy of package dns to the kernel of the run in progress.
package hook

import (
	"github.com/miekg/dns"
	"verifsim/core"
	"verifsim/kernel"
)

//go:norace
func yield(site string) {
	if k := kernel.Current(); k != nil {
		k.Yield(site, 0)
	}
}

//go:norace
func lockWait(site string) {
	if k := kernel.Current(); k != nil {
		k.LockWait(site)
	}
}

// ResetRun is called by the worker before every run.
func ResetRun() { dns.VerifsimResetPools() }

func init() {
	dns.VerifsimYield = yield
	dns.VerifsimLockWait = lockWait
	core.Mode = "instr"
}
