//go:build !verifsim

package hook

// ResetRun is called by the worker before every run; the unmodified tree has
// nothing to reset.
func ResetRun() {}
