// instr rewrites a scratch copy of package dns so that every goroutine spawn,
// lock operation, WaitGroup operation, channel operation and select becomes a
// scheduling point of the simulator (DESIGN 2.2, A.4). Nothing it produces is
// ever written to /repo.
//
//	R1  go f(a, b)      ->  { f', a', b' := f, a, b; go func() { yield("spawn"); f'(a', b') }() }
//	R2  x.Lock()        ->  yield("lock"); for !x.TryLock() { lockWait() }      (sync.Mutex / sync.RWMutex only)
//	    x.Unlock()      ->  x.Unlock(); yield("unlock")
//	R3  yield before every simple statement that contains a WaitGroup call,
//	    close(), a channel send or receive, or a select; and after it when it
//	    can block (so a woken goroutine parks again at once); at the top of the
//	    body of a "for x := range ch".
package main

import (
	"bytes"
	"flag"
	"fmt"
	"go/ast"
	"go/build"
	"go/importer"
	"go/parser"
	"go/printer"
	"go/token"
	"go/types"
	"os"
	"path/filepath"
	"strings"
)

const hookFile = `//go:build verifsim

package dns

import (
	"context"
	"crypto/tls"
	"net"
	"runtime"
	"sort"
	"sync"
	"time"
	"unsafe"
)

var _ time.Duration

// VerifsimUDPConn stands where the library says *net.UDPConn (which satisfies
// it): the simulator's datagram socket can then take the library's UDP branch
// (SessionUDP, control messages) instead of the generic PacketConn one.
type VerifsimUDPConn interface {
	net.PacketConn
	ReadMsgUDP(b, oob []byte) (n, oobn, flags int, addr *net.UDPAddr, err error)
	WriteMsgUDP(b, oob []byte, addr *net.UDPAddr) (n, oobn int, err error)
	ReadFromUDP(b []byte) (int, *net.UDPAddr, error)
	WriteToUDP(b []byte, addr *net.UDPAddr) (int, error)
	SetReadBuffer(bytes int) error
	SetWriteBuffer(bytes int) error
}

// VerifsimTCPConn stands where a tree says *net.TCPConn (the pinned tree does
// not; a changed one may, to reach a TCP-only socket option).
type VerifsimTCPConn interface {
	net.Conn
	SetLinger(sec int) error
	SetNoDelay(noDelay bool) error
	SetKeepAlive(keepalive bool) error
	SetKeepAlivePeriod(d time.Duration) error
	SetReadBuffer(bytes int) error
	SetWriteBuffer(bytes int) error
}

// VerifsimYield and VerifsimLockWait are set by the simulator; nil means
// every helper is a straight pass-through.
var (
	VerifsimYield    func(site string)
	VerifsimLockWait func(site string)
)

// verifsimPool stands where the library says sync.Pool (R6): which buffer a
// sync.Pool hands out depends on the processor the goroutine runs on and on the
// garbage collector, neither of which the simulator decides. This one hands
// out the most recently returned object (the strongest aliasing pressure), is
// emptied between runs, and tells the race detector what sync.Pool tells it:
// a Put happens before the Get that returns the same object, nothing more.
type verifsimPool struct {
	New   func() any
	mu    sync.Mutex
	items [64]any // a fixed array and plain stores: nothing here goes through the runtime's instrumented helpers
	n     int
	reg   bool
}

var (
	verifsimPoolMu  sync.Mutex
	verifsimPools   [4096]*verifsimPool
	verifsimPoolN   int
	verifsimPoolTag [128]uint64
)

//go:norace
func verifsimPoolAddr(x any) unsafe.Pointer {
	ptr := uintptr((*[2]unsafe.Pointer)(unsafe.Pointer(&x))[1])
	h := uint32((uint64(uint32(ptr)) * 0x85ebca6b) >> 16)
	return unsafe.Pointer(&verifsimPoolTag[h%uint32(len(verifsimPoolTag))])
}

//go:norace
func (p *verifsimPool) Put(x any) {
	if x == nil {
		return
	}
	verifsimRaceReleaseMerge(verifsimPoolAddr(x))
	verifsimRaceDisable()
	p.mu.Lock()
	if !p.reg {
		verifsimPoolMu.Lock()
		if verifsimPoolN < len(verifsimPools) {
			verifsimPools[verifsimPoolN] = p
			verifsimPoolN++
			p.reg = true
		}
		verifsimPoolMu.Unlock()
	}
	if p.reg && p.n < len(p.items) { // otherwise the object is dropped, as a pool may
		p.items[p.n] = x
		p.n++
	}
	p.mu.Unlock()
	verifsimRaceEnable()
}

//go:norace
func (p *verifsimPool) Get() any {
	verifsimRaceDisable()
	p.mu.Lock()
	var x any
	if p.n > 0 {
		p.n--
		x = p.items[p.n]
		p.items[p.n] = nil
	}
	p.mu.Unlock()
	verifsimRaceEnable()
	if x != nil {
		verifsimRaceAcquire(verifsimPoolAddr(x))
		return x
	}
	if p.New != nil {
		return p.New()
	}
	return nil
}

// Writers waiting for a sync.RWMutex (R9). A fixed table and plain loads and
// stores under a lock the race detector does not see: the bookkeeping must not
// order the tasks it is about.
var (
	verifsimWWMu sync.Mutex
	verifsimWW   [64]struct {
		p *sync.RWMutex
		n int
	}
)

//go:norace
func verifsimWriterWaits(p *sync.RWMutex, d int) {
	verifsimRaceDisable()
	verifsimWWMu.Lock()
	free := -1
	for i := range verifsimWW {
		if verifsimWW[i].p == p {
			free = i
			break
		}
		if verifsimWW[i].p == nil && free < 0 {
			free = i
		}
	}
	if free >= 0 { // (a full table only loses the preference, never a lock)
		verifsimWW[free].p = p
		verifsimWW[free].n += d
		if verifsimWW[free].n <= 0 {
			verifsimWW[free].p, verifsimWW[free].n = nil, 0
		}
	}
	verifsimWWMu.Unlock()
	verifsimRaceEnable()
}

//go:norace
func verifsimWriterPending(p *sync.RWMutex) bool {
	verifsimRaceDisable()
	verifsimWWMu.Lock()
	pending := false
	for i := range verifsimWW {
		if verifsimWW[i].p == p && verifsimWW[i].n > 0 {
			pending = true
			break
		}
	}
	verifsimWWMu.Unlock()
	verifsimRaceEnable()
	return pending
}

// VerifsimResetPools empties every pool that holds something: one run must not
// see what an earlier run of the same process left behind.
//
//go:norace
func VerifsimResetPools() {
	verifsimRaceDisable()
	verifsimWWMu.Lock()
	for i := range verifsimWW {
		verifsimWW[i].p, verifsimWW[i].n = nil, 0
	}
	verifsimWWMu.Unlock()
	verifsimPoolMu.Lock()
	for i := 0; i < verifsimPoolN; i++ {
		p := verifsimPools[i]
		p.mu.Lock()
		for j := 0; j < p.n; j++ {
			p.items[j] = nil
		}
		p.n, p.reg = 0, false
		p.mu.Unlock()
		verifsimPools[i] = nil
	}
	verifsimPoolN = 0
	verifsimPoolMu.Unlock()
	verifsimRaceEnable()
}

// verifsimSortedKeys returns the keys of m in an order that does not change from
// run to run for the key types that matter to a schedule: strings, integers,
// and connections of the simulator (which know their number, also through a
// TLS wrapper). Other keys keep the order Go happened to produce.
func verifsimSortedKeys[K comparable, V any](m map[K]V) []K {
	keys := make([]K, 0, len(m))
	for k := range m {
		keys = append(keys, k)
	}
	sort.SliceStable(keys, func(i, j int) bool {
		ci, si, oki := verifsimKeyRank(any(keys[i]))
		cj, sj, okj := verifsimKeyRank(any(keys[j]))
		if !oki || !okj {
			return false
		}
		if ci != cj {
			return ci < cj
		}
		return si < sj
	})
	return keys
}

func verifsimKeyRank(k any) (int64, string, bool) {
	switch v := k.(type) {
	case string:
		return 0, v, true
	case int:
		return int64(v), "", true
	case uint16:
		return int64(v), "", true
	case uint8:
		return int64(v), "", true
	case uint32:
		return int64(v), "", true
	case interface{ VerifsimOrder() int }:
		return int64(v.VerifsimOrder()), "", true
	case interface{ NetConn() net.Conn }:
		return verifsimKeyRank(v.NetConn())
	}
	return 0, "", false
}

// Socket seam (R5): where the library asks the operating system for a
// listening socket or an outgoing connection, the simulator answers when these
// are set. VerifsimListenSeam / VerifsimDialSeam say whether the rewriter found
// every such place in this tree (a harness must not use ListenAndServe or the
// dialling entry points otherwise: a real socket hangs the bubble).
var (
	VerifsimListenTCP func(network, addr string, reuseport, reuseaddr bool) (net.Listener, error)
	VerifsimListenUDP func(network, addr string, reuseport, reuseaddr bool) (net.PacketConn, error)
	VerifsimDial      func(d *net.Dialer, ctx context.Context, network, address string) (net.Conn, error)
)

const (
	VerifsimListenSeam = @LISTEN@
	VerifsimDialSeam   = @DIAL@
)

func verifsimDial(d *net.Dialer, ctx context.Context, network, address string) (net.Conn, error) {
	if h := VerifsimDial; h != nil {
		return h(d, ctx, network, address)
	}
	return d.DialContext(ctx, network, address)
}

// verifsimDialTLS does what tls.Dialer.DialContext does (connect, then
// handshake under the context) over a connection obtained from the seam.
func verifsimDialTLS(td *tls.Dialer, ctx context.Context, network, address string) (net.Conn, error) {
	h := VerifsimDial
	if h == nil {
		return td.DialContext(ctx, network, address)
	}
	nd := td.NetDialer
	if nd == nil {
		nd = new(net.Dialer)
	}
	raw, err := h(nd, ctx, network, address)
	if err != nil {
		return nil, err
	}
	cfg := td.Config
	if cfg == nil {
		cfg = &tls.Config{}
	}
	if cfg.ServerName == "" {
		host, _, _ := net.SplitHostPort(address)
		cfg = cfg.Clone()
		cfg.ServerName = host
	}
	conn := tls.Client(raw, cfg)
	if err := conn.HandshakeContext(ctx); err != nil {
		raw.Close()
		return nil, err
	}
	return conn, nil
}

func verifsimYield(site string) {
	if h := VerifsimYield; h != nil {
		h(site)
	}
}

func verifsimLockWait(site string) {
	if h := VerifsimLockWait; h != nil {
		h(site)
		return
	}
	runtime.Gosched()
}
`

const raceOnFile = `//go:build verifsim && race

package dns

import (
	"runtime"
	"unsafe"
)

func verifsimRaceDisable()                       { runtime.RaceDisable() }
func verifsimRaceEnable()                        { runtime.RaceEnable() }
func verifsimRaceAcquire(p unsafe.Pointer)       { runtime.RaceAcquire(p) }
func verifsimRaceReleaseMerge(p unsafe.Pointer)  { runtime.RaceReleaseMerge(p) }
`

const raceOffFile = `//go:build verifsim && !race

package dns

import "unsafe"

func verifsimRaceDisable()                      {}
func verifsimRaceEnable()                       {}
func verifsimRaceAcquire(p unsafe.Pointer)      {}
func verifsimRaceReleaseMerge(p unsafe.Pointer) {}
`

func main() {
	dir := flag.String("dir", "", "scratch copy of the repository to rewrite in place")
	flag.BoolVar(&udpSeam, "udp", true, "substitute the interface VerifsimUDPConn for *net.UDPConn")
	flag.BoolVar(&mapOrder, "maporder", true, "iterate maps in a fixed key order (R7)")
	flag.BoolVar(&poolSeam, "pool", true, "substitute a deterministic free list for sync.Pool")
	flag.BoolVar(&sockSeam, "sock", true, "route listenTCP / listenUDP and the client's dial calls through the simulator's hooks")
	flag.Parse()
	if *dir == "" || strings.HasPrefix(filepath.Clean(*dir), "/repo") {
		fmt.Fprintln(os.Stderr, "instr: -dir must name a scratch copy outside /repo")
		os.Exit(2)
	}
	if err := run(*dir); err != nil {
		fmt.Fprintln(os.Stderr, "instr:", err)
		os.Exit(2)
	}
}

var udpSeam, sockSeam, poolSeam, mapOrder bool

// R5 (textual, after printing): listenTCP / listenUDP ask the simulator first,
// and the three places where client.go dials go through verifsimDial[TLS].
var sockFound = map[string]int{}

// fixSyncImport: a file whose only use of package sync was sync.Pool would no
// longer compile ("imported and not used"); a blank use keeps the import.
func fixSyncImport(src []byte) []byte {
	rest := bytes.ReplaceAll(src, []byte("\"sync\""), nil)
	if bytes.Contains(rest, []byte("sync.")) {
		return src
	}
	return append(src, []byte("\nvar _ sync.Mutex\n")...)
}

func sockRewrite(src []byte) []byte {
	for _, r := range []struct{ key, old, new string }{
		{"listenTCP", "func listenTCP(network, addr string, reuseport, reuseaddr bool) (net.Listener, error) {\n",
			"func listenTCP(network, addr string, reuseport, reuseaddr bool) (net.Listener, error) {\n\tif h := VerifsimListenTCP; h != nil {\n\t\treturn h(network, addr, reuseport, reuseaddr)\n\t}\n"},
		{"listenUDP", "func listenUDP(network, addr string, reuseport, reuseaddr bool) (net.PacketConn, error) {\n",
			"func listenUDP(network, addr string, reuseport, reuseaddr bool) (net.PacketConn, error) {\n\tif h := VerifsimListenUDP; h != nil {\n\t\treturn h(network, addr, reuseport, reuseaddr)\n\t}\n"},
		{"dialTLS", "conn.Conn, err = tlsDialer.DialContext(ctx, network, address)", "conn.Conn, err = verifsimDialTLS(&tlsDialer, ctx, network, address)"},
		{"dial", "conn.Conn, err = d.DialContext(ctx, network, address)", "conn.Conn, err = verifsimDial(&d, ctx, network, address)"},
		{"dialPlain", "conn.Conn, err = net.Dial(network, address)", "conn.Conn, err = verifsimDial(new(net.Dialer), context.Background(), network, address)"},
	} {
		if n := bytes.Count(src, []byte(r.old)); n > 0 {
			sockFound[r.key] += n
			src = bytes.ReplaceAll(src, []byte(r.old), []byte(r.new))
		}
	}
	return src
}

// sockCalls counts, by "package.Name", the calls into net and crypto/tls
// whose name starts with Dial or Listen (from type information): the seam is
// complete only if these are exactly the ones it replaces.
var sockCalls = map[string]int{}

func (rw *rewriter) countSockCalls(f *ast.File) {
	ast.Inspect(f, func(n ast.Node) bool {
		call, ok := n.(*ast.CallExpr)
		if !ok {
			return true
		}
		sel, ok := call.Fun.(*ast.SelectorExpr)
		if !ok {
			return true
		}
		obj := rw.info.Uses[sel.Sel]
		if obj == nil || obj.Pkg() == nil {
			return true
		}
		if p := obj.Pkg().Path(); (p == "net" || p == "crypto/tls") && (strings.HasPrefix(obj.Name(), "Dial") || strings.HasPrefix(obj.Name(), "Listen")) {
			if _, isFunc := obj.(*types.Func); isFunc {
				sockCalls[p+"."+obj.Name()]++
			}
		}
		return true
	})
}

// R4 (textual, after printing): the type *net.UDPConn becomes the interface
// VerifsimUDPConn wherever the library names it, and setUDPSocketOptions asks
// the socket itself when it is the simulator's (the setsockopt calls need a
// real descriptor).
func udpRewrite(src []byte) ([]byte, int) {
	n := bytes.Count(src, []byte("*net.UDPConn")) + bytes.Count(src, []byte("*net.TCPConn"))
	if n == 0 {
		return src, 0
	}
	src = bytes.ReplaceAll(src, []byte("*net.UDPConn"), []byte("VerifsimUDPConn"))
	src = bytes.ReplaceAll(src, []byte("*net.TCPConn"), []byte("VerifsimTCPConn"))
	sig := []byte("func setUDPSocketOptions(conn VerifsimUDPConn) error {\n")
	if i := bytes.Index(src, sig); i >= 0 {
		stub := "\tif s, ok := conn.(interface{ VerifsimSocketOptions() error }); ok {\n\t\treturn s.VerifsimSocketOptions()\n\t}\n"
		src = append(src[:i+len(sig):i+len(sig)], append([]byte(stub), src[i+len(sig):]...)...)
	}
	return src, n
}

type rewriter struct {
	fset  *token.FileSet
	info  *types.Info
	file  string
	sites int
	mapN  int
	stats map[string]int
	done  map[ast.Node]bool
}

func run(dir string) error {
	ctx := build.Default
	ctx.GOOS, ctx.GOARCH = "linux", "amd64"
	ents, err := os.ReadDir(dir)
	if err != nil {
		return err
	}
	fset := token.NewFileSet()
	var files []*ast.File
	var names []string
	for _, e := range ents {
		n := e.Name()
		if e.IsDir() || !strings.HasSuffix(n, ".go") || strings.HasSuffix(n, "_test.go") {
			continue
		}
		ok, err := ctx.MatchFile(dir, n)
		if err != nil || !ok {
			continue
		}
		f, err := parser.ParseFile(fset, filepath.Join(dir, n), nil, parser.ParseComments)
		if err != nil {
			return err
		}
		if f.Name.Name != "dns" {
			continue
		}
		files = append(files, f)
		names = append(names, n)
	}
	info := &types.Info{Types: map[ast.Expr]types.TypeAndValue{}, Uses: map[*ast.Ident]types.Object{}, Selections: map[*ast.SelectorExpr]*types.Selection{}}
	conf := types.Config{Importer: importer.ForCompiler(fset, "source", nil), Error: func(error) {}}
	// type errors are tolerated: untyped receivers are simply left alone
	conf.Check("github.com/miekg/dns", fset, files, info)

	total := map[string]int{}
	for i, f := range files {
		rw := &rewriter{fset: fset, info: info, file: names[i], stats: map[string]int{}, done: map[ast.Node]bool{}}
		rw.countSockCalls(f)
		rw.walkFile(f)
		var out []byte
		if rw.sites == 0 {
			out, err = os.ReadFile(filepath.Join(dir, names[i]))
			if err != nil {
				return err
			}
		} else {
			var buf bytes.Buffer
			cfg := printer.Config{Mode: printer.SourcePos | printer.TabIndent, Tabwidth: 8}
			if err := cfg.Fprint(&buf, fset, f); err != nil {
				return fmt.Errorf("%s: %v", names[i], err)
			}
			out = buf.Bytes()
		}
		nudp := 0
		if udpSeam {
			out, nudp = udpRewrite(out)
			rw.stats["udpconn"] += nudp
		}
		if poolSeam {
			if n := bytes.Count(out, []byte("sync.Pool")); n > 0 {
				out = bytes.ReplaceAll(out, []byte("sync.Pool"), []byte("verifsimPool"))
				out = fixSyncImport(out)
				rw.stats["pool"] += n
				nudp++
			}
		}
		if sockSeam {
			before := len(out)
			o2 := sockRewrite(out)
			if len(o2) != before {
				nudp++ // the file changed
			}
			out = o2
		}
		if rw.sites == 0 && nudp == 0 {
			continue
		}
		if err := os.WriteFile(filepath.Join(dir, names[i]), out, 0o644); err != nil {
			return err
		}
		for k, v := range rw.stats {
			total[k] += v
		}
	}
	// every call the package makes into net / crypto/tls to dial or listen must be one the seam replaced or guards
	want := map[string]int{"net.Dial": 1, "net.DialContext": 1, "crypto/tls.DialContext": 1, "net.Listen": 1, "net.ListenPacket": 1}
	strayDials, strayListens := 0, 0
	for name, n := range sockCalls {
		d := n - want[name]
		if d < 0 {
			d = -d
		}
		if strings.Contains(name, ".Listen") || strings.Contains(name, "NewListener") {
			strayListens += d
		} else {
			strayDials += d
		}
	}
	listenOK := sockSeam && sockFound["listenTCP"] == 1 && sockFound["listenUDP"] == 1 && strayListens == 0
	dialOK := sockSeam && sockFound["dialTLS"] == 1 && sockFound["dial"] == 1 && sockFound["dialPlain"] == 1 && strayDials == 0
	total["sock.stray"] = strayDials + strayListens
	hookFile := strings.NewReplacer("@LISTEN@", fmt.Sprint(listenOK), "@DIAL@", fmt.Sprint(dialOK)).Replace(hookFile)
	total["sock.listen"], total["sock.dial"] = b2i(listenOK), b2i(dialOK)
	if err := os.WriteFile(filepath.Join(dir, "zz_verifsim.go"), []byte(hookFile), 0o644); err != nil {
		return err
	}
	os.WriteFile(filepath.Join(dir, "zz_verifsim_race.go"), []byte(raceOnFile), 0o644)
	os.WriteFile(filepath.Join(dir, "zz_verifsim_norace.go"), []byte(raceOffFile), 0o644)
	fmt.Printf("instr: %v\n", total)
	if total["spawn"] == 0 || total["lock"] == 0 {
		return fmt.Errorf("no spawn or lock site found: the tree does not look like package dns")
	}
	return nil
}

func b2i(b bool) int {
	if b {
		return 1
	}
	return 0
}

func (rw *rewriter) site(kind string, pos token.Pos) *ast.BasicLit {
	p := rw.fset.Position(pos)
	rw.sites++
	rw.stats[kind]++
	return &ast.BasicLit{Kind: token.STRING, Value: fmt.Sprintf("%q", fmt.Sprintf("%s@%s:%d", kind, rw.file, p.Line))}
}

func (rw *rewriter) yield(kind string, pos token.Pos) ast.Stmt {
	return &ast.ExprStmt{X: &ast.CallExpr{Fun: ast.NewIdent("verifsimYield"), Args: []ast.Expr{rw.site(kind, pos)}}}
}

// rangeFiles: where the order of a map iteration can reach the schedule.
var rangeFiles = map[string]bool{"server.go": true, "client.go": true, "serve_mux.go": true, "xfr.go": true, "udp.go": true, "tsig.go": true, "sig0.go": true, "acceptfunc.go": true}

// R7: for k, v := range m  ->  for _, K := range verifsimSortedKeys(m) { V, ok := m[K]; if !ok { continue }; k, v := K, V; ... }
// Go picks a new starting point for every map iteration; with side effects in
// the body (deadlines set, connections closed - scheduling points) that choice
// would reach the schedule. Only maps named by an identifier or a selector
// chain are rewritten (the expression is evaluated twice).
func (rw *rewriter) rewriteRange(r *ast.RangeStmt) {
	if !mapOrder || !rangeFiles[rw.file] || r.Tok == token.ILLEGAL && r.Key != nil {
		return
	}
	tv, ok := rw.info.Types[r.X]
	if !ok || tv.Type == nil {
		return
	}
	if _, isMap := tv.Type.Underlying().(*types.Map); !isMap {
		return
	}
	for e := r.X; ; {
		switch v := e.(type) {
		case *ast.Ident:
		case *ast.SelectorExpr:
			e = v.X
			continue
		default:
			return
		}
		break
	}
	rw.mapN++
	kn, vn, okn := ast.NewIdent(fmt.Sprintf("verifsimK%d", rw.mapN)), ast.NewIdent(fmt.Sprintf("verifsimV%d", rw.mapN)), ast.NewIdent(fmt.Sprintf("verifsimOk%d", rw.mapN))
	pre := []ast.Stmt{
		&ast.AssignStmt{Lhs: []ast.Expr{vn, okn}, Tok: token.DEFINE, Rhs: []ast.Expr{&ast.IndexExpr{X: r.X, Index: ast.NewIdent(kn.Name)}}},
		&ast.IfStmt{Cond: &ast.UnaryExpr{Op: token.NOT, X: ast.NewIdent(okn.Name)}, Body: &ast.BlockStmt{List: []ast.Stmt{&ast.BranchStmt{Tok: token.CONTINUE}}}},
		&ast.AssignStmt{Lhs: []ast.Expr{ast.NewIdent("_")}, Tok: token.ASSIGN, Rhs: []ast.Expr{ast.NewIdent(vn.Name)}},
	}
	tok := r.Tok
	if tok == token.ILLEGAL {
		tok = token.DEFINE
	}
	bind := func(lhs ast.Expr, rhs *ast.Ident) {
		if lhs == nil {
			return
		}
		if id, ok := lhs.(*ast.Ident); ok && id.Name == "_" {
			return
		}
		pre = append(pre, &ast.AssignStmt{Lhs: []ast.Expr{lhs}, Tok: tok, Rhs: []ast.Expr{ast.NewIdent(rhs.Name)}})
		if tok == token.DEFINE {
			if id, ok := lhs.(*ast.Ident); ok {
				pre = append(pre, &ast.AssignStmt{Lhs: []ast.Expr{ast.NewIdent("_")}, Tok: token.ASSIGN, Rhs: []ast.Expr{ast.NewIdent(id.Name)}})
			}
		}
	}
	bind(r.Key, kn)
	bind(r.Value, vn)
	r.Body.List = append(pre, r.Body.List...)
	r.X = &ast.CallExpr{Fun: ast.NewIdent("verifsimSortedKeys"), Args: []ast.Expr{r.X}}
	r.Key, r.Value, r.Tok = ast.NewIdent("_"), kn, token.DEFINE
	rw.sites++
	rw.stats["maprange"]++
}

func (rw *rewriter) walkFile(f *ast.File) {
	ast.Inspect(f, func(n ast.Node) bool {
		if r, ok := n.(*ast.RangeStmt); ok {
			// R3 for "for x := range ch": every value received is a scheduling point (the top of the body)
			if tv, ok := rw.info.Types[r.X]; ok && tv.Type != nil && r.Body != nil {
				if _, isChan := tv.Type.Underlying().(*types.Chan); isChan {
					r.Body.List = append([]ast.Stmt{rw.yield("woken", r.Body.Lbrace)}, r.Body.List...)
					rw.stats["chanrange"]++
				}
			}
			rw.rewriteRange(r)
		}
		switch b := n.(type) {
		case *ast.BlockStmt:
			b.List = rw.rewriteList(b.List)
		case *ast.CaseClause:
			b.Body = rw.rewriteList(b.Body)
		case *ast.CommClause:
			b.Body = rw.rewriteList(b.Body)
		}
		return true
	})
}

// syncKind classifies the receiver of a method call on a sync type.
func (rw *rewriter) syncKind(call *ast.CallExpr) (recv ast.Expr, typ, method string) {
	sel, ok := call.Fun.(*ast.SelectorExpr)
	if !ok {
		return nil, "", ""
	}
	tv, ok := rw.info.Types[sel.X]
	if !ok || tv.Type == nil {
		return nil, "", ""
	}
	t := tv.Type
	if p, ok := t.(*types.Pointer); ok {
		t = p.Elem()
	}
	named, ok := t.(*types.Named)
	if !ok || named.Obj().Pkg() == nil || named.Obj().Pkg().Path() != "sync" {
		return nil, "", ""
	}
	return sel.X, named.Obj().Name(), sel.Sel.Name
}

// isAtomic reports whether call is a method of a sync/atomic type or a function of that package.
func (rw *rewriter) isAtomic(call *ast.CallExpr) bool {
	sel, ok := call.Fun.(*ast.SelectorExpr)
	if !ok {
		return false
	}
	if obj := rw.info.Uses[sel.Sel]; obj != nil && obj.Pkg() != nil && obj.Pkg().Path() == "sync/atomic" {
		if _, isFunc := obj.(*types.Func); isFunc {
			return true
		}
	}
	if s := rw.info.Selections[sel]; s != nil {
		if f, ok := s.Obj().(*types.Func); ok && f.Pkg() != nil && f.Pkg().Path() == "sync/atomic" {
			return true
		}
	}
	return false
}

type opInfo struct {
	sync   bool // WaitGroup op, close, send, receive, select
	blocks bool // can block: receive, select, Wait
	atomic bool // an operation of sync/atomic
}

// scan looks for channel / WaitGroup operations in a statement without
// descending into function literals.
func (rw *rewriter) scan(n ast.Node) (oi opInfo) {
	ast.Inspect(n, func(x ast.Node) bool {
		switch v := x.(type) {
		case *ast.FuncLit:
			return false
		case *ast.SendStmt:
			oi.sync = true
		case *ast.UnaryExpr:
			if v.Op == token.ARROW {
				oi.sync, oi.blocks = true, true
			}
		case *ast.SelectStmt:
			oi.sync, oi.blocks = true, true
			return false
		case *ast.CallExpr:
			if id, ok := v.Fun.(*ast.Ident); ok && id.Name == "close" && len(v.Args) == 1 {
				if obj, ok := rw.info.Uses[id]; !ok || obj.Pkg() == nil {
					oi.sync = true
				}
			}
			if _, typ, m := rw.syncKind(v); typ == "WaitGroup" {
				oi.sync = true
				if m == "Wait" {
					oi.blocks = true
				}
			}
			// R8: an operation of sync/atomic (a method of atomic.Value, atomic.Bool, atomic.Int64 ... or one of the
			// package's functions) is a scheduling point too: lock-free code is interleaved where it synchronises
			if rw.isAtomic(v) {
				oi.sync, oi.atomic = true, true
			}
		}
		return true
	})
	return
}

func (rw *rewriter) rewriteList(list []ast.Stmt) []ast.Stmt {
	var out []ast.Stmt
	for _, st := range list {
		switch s := st.(type) {
		case *ast.GoStmt:
			if rw.done[s] {
				break
			}
			out = append(out, rw.rewriteGo(s))
			continue
		case *ast.ExprStmt:
			if call, ok := s.X.(*ast.CallExpr); ok && len(call.Args) == 0 {
				if recv, typ, m := rw.syncKind(call); typ == "Mutex" || typ == "RWMutex" {
					switch m {
					case "Lock", "RLock":
						out = append(out, rw.yield("lock", s.Pos()))
						try := &ast.CallExpr{Fun: &ast.SelectorExpr{X: recv, Sel: ast.NewIdent("Try" + m)}}
						wait := &ast.ExprStmt{X: &ast.CallExpr{Fun: ast.NewIdent("verifsimLockWait"), Args: []ast.Expr{rw.site("lockwait", s.Pos())}}}
						var cond ast.Expr = &ast.UnaryExpr{Op: token.NOT, X: try}
						if typ == "RWMutex" {
							// R9: a sync.RWMutex prefers writers - from the moment a Lock call is waiting, new RLock
							// calls wait behind it (which is what makes a read lock taken twice by one goroutine a
							// deadlock as soon as a writer arrives in between). TryLock / TryRLock alone do not
							// say that: the waiting writer is announced, and a reader asks before it tries.
							var ptr ast.Expr = recv
							if tv, ok := rw.info.Types[recv]; ok {
								if _, isPtr := tv.Type.(*types.Pointer); !isPtr {
									ptr = &ast.UnaryExpr{Op: token.AND, X: recv}
								}
							}
							if m == "Lock" {
								ann := func(d string) ast.Stmt {
									return &ast.ExprStmt{X: &ast.CallExpr{Fun: ast.NewIdent("verifsimWriterWaits"), Args: []ast.Expr{ptr, &ast.BasicLit{Kind: token.INT, Value: d}}}}
								}
								out = append(out, ann("1"), &ast.ForStmt{Cond: cond, Body: &ast.BlockStmt{List: []ast.Stmt{wait}}}, ann("-1"))
								rw.stats["rwlock"]++
								continue
							}
							cond = &ast.BinaryExpr{Op: token.LOR, X: &ast.CallExpr{Fun: ast.NewIdent("verifsimWriterPending"), Args: []ast.Expr{ptr}}, Y: cond}
							rw.stats["rwlock"]++
						}
						out = append(out, &ast.ForStmt{Cond: cond, Body: &ast.BlockStmt{List: []ast.Stmt{wait}}})
						continue
					case "Unlock", "RUnlock":
						out = append(out, s, rw.yield("unlock", s.End()))
						continue
					}
				}
			}
		}
		// atomics in the header of an if, or in a return: a point in front of the statement
		switch v := st.(type) {
		case *ast.IfStmt:
			hdr := opInfo{}
			if v.Init != nil {
				hdr = rw.scan(v.Init)
			}
			if c := rw.scan(v.Cond); c.atomic {
				hdr.atomic = true
			}
			if hdr.atomic {
				rw.stats["atomic"]++
				out = append(out, rw.yield("sync", st.Pos()), st)
				continue
			}
		case *ast.ReturnStmt:
			if oi := rw.scan(v); oi.atomic {
				rw.stats["atomic"]++
				out = append(out, rw.yield("sync", st.Pos()), st)
				continue
			}
		}
		switch st.(type) {
		case *ast.ExprStmt, *ast.SendStmt, *ast.AssignStmt, *ast.SelectStmt, *ast.IncDecStmt, *ast.DeclStmt:
			if oi := rw.scan(st); oi.sync {
				if oi.atomic {
					rw.stats["atomic"]++
				}
				out = append(out, rw.yield("sync", st.Pos()), st)
				if oi.blocks {
					out = append(out, rw.yield("woken", st.End()))
				}
				continue
			}
		}
		out = append(out, st)
	}
	return out
}

// rewriteGo keeps the evaluation of callee and arguments at the go statement
// and delays only the start of the new goroutine's body.
func (rw *rewriter) rewriteGo(g *ast.GoStmt) ast.Stmt {
	call := g.Call
	var pre []ast.Stmt
	tmpN := 0
	tmp := func(e ast.Expr) ast.Expr {
		tmpN++
		id := ast.NewIdent(fmt.Sprintf("verifsimT%d", tmpN))
		pre = append(pre, &ast.AssignStmt{Lhs: []ast.Expr{id}, Tok: token.DEFINE, Rhs: []ast.Expr{e}})
		return ast.NewIdent(id.Name)
	}
	newCall := &ast.CallExpr{Ellipsis: call.Ellipsis}
	if lit, ok := call.Fun.(*ast.FuncLit); ok {
		newCall.Fun = lit // a literal has nothing to evaluate early
	} else {
		newCall.Fun = tmp(call.Fun)
	}
	for _, a := range call.Args {
		if id, ok := a.(*ast.Ident); ok && id.Name == "nil" {
			newCall.Args = append(newCall.Args, a)
			continue
		}
		if _, ok := a.(*ast.BasicLit); ok {
			newCall.Args = append(newCall.Args, a)
			continue
		}
		newCall.Args = append(newCall.Args, tmp(a))
	}
	if call.Ellipsis != token.NoPos {
		newCall.Ellipsis = 1
	}
	body := &ast.BlockStmt{List: []ast.Stmt{rw.yield("spawn", g.Pos()), &ast.ExprStmt{X: newCall}}}
	spawn := &ast.GoStmt{Call: &ast.CallExpr{Fun: &ast.FuncLit{Type: &ast.FuncType{Params: &ast.FieldList{}}, Body: body}}}
	rw.done[spawn] = true
	return &ast.BlockStmt{List: append(pre, spawn)}
}
