// instr rewrites a scratch copy of package dns so that every goroutine spawn,
// lock operation, WaitGroup operation, channel operation and select becomes a
// scheduling point of the simulator (DESIGN 2.2, A.4). Nothing it produces is
// ever written to /repo.
//
//	R1  go f(a, b)      ->  { f', a', b' := f, a, b; go func() { yield("spawn"); f'(a', b') }() }
//	R2  x.Lock()        ->  yield("lock"); for !x.TryLock() { lockWait() }      (sync.Mutex / sync.RWMutex only)
//	    x.Unlock()      ->  x.Unlock(); yield("unlock")
//	R3  yield before every simple statement that contains a WaitGroup call,
//	    close(), a channel send or receive, or a select; and after it when it
//	    can block (so a woken goroutine parks again at once).
package main

import (
	"bytes"
	"flag"
	"fmt"
	"go/ast"
	"go/build"
	"go/importer"
	"go/parser"
	"go/printer"
	"go/token"
	"go/types"
	"os"
	"path/filepath"
	"strings"
)

const hookFile = `//go:build verifsim

package dns

import (
	"net"
	"runtime"
)

// VerifsimUDPConn stands where the library says *net.UDPConn (which satisfies
// it): the simulator's datagram socket can then take the library's UDP branch
// (SessionUDP, control messages) instead of the generic PacketConn one.
type VerifsimUDPConn interface {
	net.PacketConn
	ReadMsgUDP(b, oob []byte) (n, oobn, flags int, addr *net.UDPAddr, err error)
	WriteMsgUDP(b, oob []byte, addr *net.UDPAddr) (n, oobn int, err error)
	ReadFromUDP(b []byte) (int, *net.UDPAddr, error)
	WriteToUDP(b []byte, addr *net.UDPAddr) (int, error)
	SetReadBuffer(bytes int) error
	SetWriteBuffer(bytes int) error
}

// VerifsimYield and VerifsimLockWait are set by the simulator; nil means
// every helper is a straight pass-through.
var (
	VerifsimYield    func(site string)
	VerifsimLockWait func(site string)
)

func verifsimYield(site string) {
	if h := VerifsimYield; h != nil {
		h(site)
	}
}

func verifsimLockWait(site string) {
	if h := VerifsimLockWait; h != nil {
		h(site)
		return
	}
	runtime.Gosched()
}
`

func main() {
	dir := flag.String("dir", "", "scratch copy of the repository to rewrite in place")
	flag.BoolVar(&udpSeam, "udp", true, "substitute the interface VerifsimUDPConn for *net.UDPConn")
	flag.Parse()
	if *dir == "" || strings.HasPrefix(filepath.Clean(*dir), "/repo") {
		fmt.Fprintln(os.Stderr, "instr: -dir must name a scratch copy outside /repo")
		os.Exit(2)
	}
	if err := run(*dir); err != nil {
		fmt.Fprintln(os.Stderr, "instr:", err)
		os.Exit(2)
	}
}

var udpSeam bool

// R4 (textual, after printing): the type *net.UDPConn becomes the interface
// VerifsimUDPConn wherever the library names it, and setUDPSocketOptions asks
// the socket itself when it is the simulator's (the setsockopt calls need a
// real descriptor).
func udpRewrite(src []byte) ([]byte, int) {
	n := bytes.Count(src, []byte("*net.UDPConn"))
	if n == 0 {
		return src, 0
	}
	src = bytes.ReplaceAll(src, []byte("*net.UDPConn"), []byte("VerifsimUDPConn"))
	sig := []byte("func setUDPSocketOptions(conn VerifsimUDPConn) error {\n")
	if i := bytes.Index(src, sig); i >= 0 {
		stub := "\tif s, ok := conn.(interface{ VerifsimSocketOptions() error }); ok {\n\t\treturn s.VerifsimSocketOptions()\n\t}\n"
		src = append(src[:i+len(sig):i+len(sig)], append([]byte(stub), src[i+len(sig):]...)...)
	}
	return src, n
}

type rewriter struct {
	fset  *token.FileSet
	info  *types.Info
	file  string
	sites int
	stats map[string]int
	done  map[ast.Node]bool
}

func run(dir string) error {
	ctx := build.Default
	ctx.GOOS, ctx.GOARCH = "linux", "amd64"
	ents, err := os.ReadDir(dir)
	if err != nil {
		return err
	}
	fset := token.NewFileSet()
	var files []*ast.File
	var names []string
	for _, e := range ents {
		n := e.Name()
		if e.IsDir() || !strings.HasSuffix(n, ".go") || strings.HasSuffix(n, "_test.go") {
			continue
		}
		ok, err := ctx.MatchFile(dir, n)
		if err != nil || !ok {
			continue
		}
		f, err := parser.ParseFile(fset, filepath.Join(dir, n), nil, parser.ParseComments)
		if err != nil {
			return err
		}
		if f.Name.Name != "dns" {
			continue
		}
		files = append(files, f)
		names = append(names, n)
	}
	info := &types.Info{Types: map[ast.Expr]types.TypeAndValue{}, Uses: map[*ast.Ident]types.Object{}, Selections: map[*ast.SelectorExpr]*types.Selection{}}
	conf := types.Config{Importer: importer.ForCompiler(fset, "source", nil), Error: func(error) {}}
	// type errors are tolerated: untyped receivers are simply left alone
	conf.Check("github.com/miekg/dns", fset, files, info)

	total := map[string]int{}
	for i, f := range files {
		rw := &rewriter{fset: fset, info: info, file: names[i], stats: map[string]int{}, done: map[ast.Node]bool{}}
		rw.walkFile(f)
		var out []byte
		if rw.sites == 0 {
			out, err = os.ReadFile(filepath.Join(dir, names[i]))
			if err != nil {
				return err
			}
		} else {
			var buf bytes.Buffer
			cfg := printer.Config{Mode: printer.SourcePos | printer.TabIndent, Tabwidth: 8}
			if err := cfg.Fprint(&buf, fset, f); err != nil {
				return fmt.Errorf("%s: %v", names[i], err)
			}
			out = buf.Bytes()
		}
		nudp := 0
		if udpSeam {
			out, nudp = udpRewrite(out)
			rw.stats["udpconn"] += nudp
		}
		if rw.sites == 0 && nudp == 0 {
			continue
		}
		if err := os.WriteFile(filepath.Join(dir, names[i]), out, 0o644); err != nil {
			return err
		}
		for k, v := range rw.stats {
			total[k] += v
		}
	}
	if err := os.WriteFile(filepath.Join(dir, "zz_verifsim.go"), []byte(hookFile), 0o644); err != nil {
		return err
	}
	fmt.Printf("instr: %v\n", total)
	if total["spawn"] == 0 || total["lock"] == 0 {
		return fmt.Errorf("no spawn or lock site found: the tree does not look like package dns")
	}
	return nil
}

func (rw *rewriter) site(kind string, pos token.Pos) *ast.BasicLit {
	p := rw.fset.Position(pos)
	rw.sites++
	rw.stats[kind]++
	return &ast.BasicLit{Kind: token.STRING, Value: fmt.Sprintf("%q", fmt.Sprintf("%s@%s:%d", kind, rw.file, p.Line))}
}

func (rw *rewriter) yield(kind string, pos token.Pos) ast.Stmt {
	return &ast.ExprStmt{X: &ast.CallExpr{Fun: ast.NewIdent("verifsimYield"), Args: []ast.Expr{rw.site(kind, pos)}}}
}

func (rw *rewriter) walkFile(f *ast.File) {
	ast.Inspect(f, func(n ast.Node) bool {
		switch b := n.(type) {
		case *ast.BlockStmt:
			b.List = rw.rewriteList(b.List)
		case *ast.CaseClause:
			b.Body = rw.rewriteList(b.Body)
		case *ast.CommClause:
			b.Body = rw.rewriteList(b.Body)
		}
		return true
	})
}

// syncKind classifies the receiver of a method call on a sync type.
func (rw *rewriter) syncKind(call *ast.CallExpr) (recv ast.Expr, typ, method string) {
	sel, ok := call.Fun.(*ast.SelectorExpr)
	if !ok {
		return nil, "", ""
	}
	tv, ok := rw.info.Types[sel.X]
	if !ok || tv.Type == nil {
		return nil, "", ""
	}
	t := tv.Type
	if p, ok := t.(*types.Pointer); ok {
		t = p.Elem()
	}
	named, ok := t.(*types.Named)
	if !ok || named.Obj().Pkg() == nil || named.Obj().Pkg().Path() != "sync" {
		return nil, "", ""
	}
	return sel.X, named.Obj().Name(), sel.Sel.Name
}

type opInfo struct {
	sync   bool // WaitGroup op, close, send, receive, select
	blocks bool // can block: receive, select, Wait
}

// scan looks for channel / WaitGroup operations in a statement without
// descending into function literals.
func (rw *rewriter) scan(n ast.Node) (oi opInfo) {
	ast.Inspect(n, func(x ast.Node) bool {
		switch v := x.(type) {
		case *ast.FuncLit:
			return false
		case *ast.SendStmt:
			oi.sync = true
		case *ast.UnaryExpr:
			if v.Op == token.ARROW {
				oi.sync, oi.blocks = true, true
			}
		case *ast.SelectStmt:
			oi.sync, oi.blocks = true, true
			return false
		case *ast.CallExpr:
			if id, ok := v.Fun.(*ast.Ident); ok && id.Name == "close" && len(v.Args) == 1 {
				if obj, ok := rw.info.Uses[id]; !ok || obj.Pkg() == nil {
					oi.sync = true
				}
			}
			if _, typ, m := rw.syncKind(v); typ == "WaitGroup" {
				oi.sync = true
				if m == "Wait" {
					oi.blocks = true
				}
			}
		}
		return true
	})
	return
}

func (rw *rewriter) rewriteList(list []ast.Stmt) []ast.Stmt {
	var out []ast.Stmt
	for _, st := range list {
		switch s := st.(type) {
		case *ast.GoStmt:
			if rw.done[s] {
				break
			}
			out = append(out, rw.rewriteGo(s))
			continue
		case *ast.ExprStmt:
			if call, ok := s.X.(*ast.CallExpr); ok && len(call.Args) == 0 {
				if recv, typ, m := rw.syncKind(call); typ == "Mutex" || typ == "RWMutex" {
					switch m {
					case "Lock", "RLock":
						out = append(out, rw.yield("lock", s.Pos()))
						try := &ast.CallExpr{Fun: &ast.SelectorExpr{X: recv, Sel: ast.NewIdent("Try" + m)}}
						wait := &ast.ExprStmt{X: &ast.CallExpr{Fun: ast.NewIdent("verifsimLockWait"), Args: []ast.Expr{rw.site("lockwait", s.Pos())}}}
						out = append(out, &ast.ForStmt{Cond: &ast.UnaryExpr{Op: token.NOT, X: try}, Body: &ast.BlockStmt{List: []ast.Stmt{wait}}})
						continue
					case "Unlock", "RUnlock":
						out = append(out, s, rw.yield("unlock", s.End()))
						continue
					}
				}
			}
		}
		switch st.(type) {
		case *ast.ExprStmt, *ast.SendStmt, *ast.AssignStmt, *ast.SelectStmt, *ast.IncDecStmt, *ast.DeclStmt:
			if oi := rw.scan(st); oi.sync {
				out = append(out, rw.yield("sync", st.Pos()), st)
				if oi.blocks {
					out = append(out, rw.yield("woken", st.End()))
				}
				continue
			}
		}
		out = append(out, st)
	}
	return out
}

// rewriteGo keeps the evaluation of callee and arguments at the go statement
// and delays only the start of the new goroutine's body.
func (rw *rewriter) rewriteGo(g *ast.GoStmt) ast.Stmt {
	call := g.Call
	var pre []ast.Stmt
	tmpN := 0
	tmp := func(e ast.Expr) ast.Expr {
		tmpN++
		id := ast.NewIdent(fmt.Sprintf("verifsimT%d", tmpN))
		pre = append(pre, &ast.AssignStmt{Lhs: []ast.Expr{id}, Tok: token.DEFINE, Rhs: []ast.Expr{e}})
		return ast.NewIdent(id.Name)
	}
	newCall := &ast.CallExpr{Ellipsis: call.Ellipsis}
	if lit, ok := call.Fun.(*ast.FuncLit); ok {
		newCall.Fun = lit // a literal has nothing to evaluate early
	} else {
		newCall.Fun = tmp(call.Fun)
	}
	for _, a := range call.Args {
		if id, ok := a.(*ast.Ident); ok && id.Name == "nil" {
			newCall.Args = append(newCall.Args, a)
			continue
		}
		if _, ok := a.(*ast.BasicLit); ok {
			newCall.Args = append(newCall.Args, a)
			continue
		}
		newCall.Args = append(newCall.Args, tmp(a))
	}
	if call.Ellipsis != token.NoPos {
		newCall.Ellipsis = 1
	}
	body := &ast.BlockStmt{List: []ast.Stmt{rw.yield("spawn", g.Pos()), &ast.ExprStmt{X: newCall}}}
	spawn := &ast.GoStmt{Call: &ast.CallExpr{Fun: &ast.FuncLit{Type: &ast.FuncType{Params: &ast.FieldList{}}, Body: body}}}
	rw.done[spawn] = true
	return &ast.BlockStmt{List: append(pre, spawn)}
}
