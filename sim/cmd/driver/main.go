// The driver: builds the worker binaries from /repo's current working tree,
// proves the simulator deterministic on a sample, farms seeds out to worker
// processes, confirms, minimises and reports violations, writes the evidence
// file. Exit 0 = held on everything explored, 1 = VIOLATION, 2 = harness,
// build or watchdog trouble (never a property verdict).
package main

import (
	"bufio"
	"bytes"
	"encoding/binary"
	"encoding/json"
	"flag"
	"fmt"
	"hash/fnv"
	"io"
	"os"
	"os/exec"
	"path/filepath"
	"sort"
	"strconv"
	"strings"
	"sync"
	"time"

	"verifsim/core"
	"verifsim/kernel"
	_ "verifsim/props/all"
)

type propCfg struct {
	Workers map[string]int // build name -> worker processes (quick and thorough alike; 16 cores)
	QuickS  int
	ThorS   int
	Real    []string
	Stub    []string
	Rule    string
	Assume  []string
}

var builds = []string{"pristine", "instr", "pristine-race", "instr-race"}

var cfgs = map[string]*propCfg{}

func main() {
	var (
		prop   = flag.String("prop", "", "property id")
		tier   = flag.String("tier", os.Getenv("VERIF_TIER"), "quick | thorough")
		replay = flag.String("replay", "", "replay file")
		budget = flag.Int("budget", 0, "override run budget in seconds")
		only   = flag.String("builds", "", "comma list of builds to use (default: all configured)")
	)
	flag.Parse()
	if *tier == "" {
		*tier = "quick"
	}
	d := &driver{prop: *prop, tier: *tier, root: envOr("VERIF_ROOT", "/verif"), repo: envOr("VERIF_REPO", "/repo")}
	d.seed = 1
	if s := os.Getenv("VERIF_SEED"); s != "" {
		if v, err := strconv.ParseUint(s, 10, 64); err == nil {
			d.seed = v
		} else if v, err := strconv.ParseInt(s, 10, 64); err == nil {
			d.seed = uint64(v)
		} else {
			// not a number: any string is a seed
			h := fnv.New64a()
			h.Write([]byte(s))
			d.seed = h.Sum64()
		}
	}
	if *replay != "" {
		code := d.replayFile(*replay)
		if d.bdir != "" {
			os.RemoveAll(d.bdir)
		}
		os.Exit(code)
	}
	d.p = core.Registry[d.prop]
	d.cfg = cfgs[d.prop]
	if d.p == nil || d.cfg == nil {
		fmt.Fprintf(os.Stderr, "unknown property %q (have %v)\n", d.prop, core.IDs())
		os.Exit(2)
	}
	d.only = map[string]bool{}
	for _, b := range strings.Split(*only, ",") {
		if b != "" {
			d.only[b] = true
		}
	}
	d.budget = time.Duration(d.cfg.QuickS) * time.Second
	if d.tier == "thorough" {
		d.budget = time.Duration(d.cfg.ThorS) * time.Second
	}
	if *budget > 0 {
		d.budget = time.Duration(*budget) * time.Second
	}
	code := d.check()
	if d.bdir != "" {
		os.RemoveAll(d.bdir)
	}
	os.Exit(code)
}

func envOr(k, def string) string {
	if v := os.Getenv(k); v != "" {
		return v
	}
	return def
}

type driver struct {
	prop, tier string
	root, repo string
	seed       uint64
	p          *core.Prop
	cfg        *propCfg
	budget     time.Duration
	only       map[string]bool
	flaky      bool
	noShrink   bool
	noUDPSeam  bool
	bdir       string
	work       string
	bins       map[string]string
	t0         time.Time
}

// outdir is where evidence and replay files go (the verification root, unless
// a development run against a scratch tree redirects it).
func (d *driver) outdir() string { return envOr("VERIF_OUTDIR", d.root) }

func (d *driver) fatal(format string, a ...any) int {
	fmt.Fprintf(os.Stderr, "HARNESS-ERROR property=%s: %s\n", d.prop, fmt.Sprintf(format, a...))
	return 2
}

// ---------------------------------------------------------------- building

func goEnv() []string {
	env := os.Environ()
	env = append(env, "GOFLAGS=-mod=mod", "GOPROXY=off", "GOSUMDB=off", "GOTOOLCHAIN=local", "CGO_ENABLED=1")
	return env
}

func goBin() string {
	if p, err := exec.LookPath("go1.26.8"); err == nil {
		return p
	}
	return "/opt/veriftools/go1.26.8/bin/go"
}

// build produces the worker binaries this property uses, from the current
// working tree of the repository.
func (d *driver) build() error {
	// one build directory per driver process: two checks of the same property may run at once
	d.bdir = filepath.Join(d.root, ".build", d.prop+"."+strconv.Itoa(os.Getpid()))
	d.sweepStale()
	os.MkdirAll(d.bdir, 0o755)
	d.bins = map[string]string{}
	sim := filepath.Join(d.root, "sim")
	var instrTree string
	need := func(b string) bool {
		return d.cfg.Workers[b] > 0 && (len(d.only) == 0 || d.only[b])
	}
	defer func() {
		if instrTree != "" {
			os.RemoveAll(filepath.Dir(instrTree))
		}
	}()
	for _, b := range builds {
		if !need(b) {
			continue
		}
		out := filepath.Join(d.bdir, "worker."+b)
		args := []string{"test", "-c", "-o", out}
		if strings.HasSuffix(b, "-race") {
			args = append(args, "-race")
		}
		modfile := filepath.Join(d.bdir, "go."+strings.TrimSuffix(b, "-race")+".mod")
		tree := d.repo
		if strings.HasPrefix(b, "instr") {
			if instrTree == "" {
				t, err := d.instrument(true)
				if err == nil {
					// the substitution of an interface for *net.UDPConn must leave a tree that compiles
					chk := exec.Command(goBin(), "build", "-tags", "verifsim", ".")
					chk.Dir, chk.Env = t, goEnv()
					if o, cerr := chk.CombinedOutput(); cerr != nil {
						os.RemoveAll(filepath.Dir(t))
						fmt.Printf("[%s] note: the instrumented copy does not compile with the UDP socket seam (%s); falling back to the generic PacketConn branch for datagram runs\n", d.prop, firstLine(string(o)))
						d.noUDPSeam = true
						t, err = d.instrument(false)
					}
				}
				if err != nil {
					return err
				}
				instrTree = t
			}
			tree = instrTree
			if d.noUDPSeam {
				args = append(args, "-tags", "verifsim")
			} else {
				args = append(args, "-tags", "verifsim,verifsimudp")
			}
		}
		gm, err := os.ReadFile(filepath.Join(sim, "go.mod"))
		if err != nil {
			return err
		}
		gm = bytes.Replace(gm, []byte("=> /repo"), []byte("=> "+tree), 1)
		os.WriteFile(modfile, gm, 0o644)
		gs, _ := os.ReadFile(filepath.Join(sim, "go.sum"))
		os.WriteFile(strings.TrimSuffix(modfile, ".mod")+".sum", gs, 0o644)
		args = append(args, "-modfile="+modfile, "./worker/")
		cmd := exec.Command(goBin(), args...)
		cmd.Dir = sim
		cmd.Env = goEnv()
		if o, err := cmd.CombinedOutput(); err != nil {
			return fmt.Errorf("building %s: %v\n%s", b, err, o)
		}
		d.bins[b] = out
	}
	return nil
}

// sweepStale removes build directories left behind by driver processes that
// no longer exist (killed by a timeout, say).
func (d *driver) sweepStale() {
	ents, _ := os.ReadDir(filepath.Join(d.root, ".build"))
	for _, e := range ents {
		if !e.IsDir() {
			continue
		}
		i := strings.LastIndexByte(e.Name(), '.')
		if i < 0 {
			continue
		}
		pid, err := strconv.Atoi(e.Name()[i+1:])
		if err != nil || cfgs[e.Name()[:i]] == nil {
			continue
		}
		if _, err := os.Stat("/proc/" + strconv.Itoa(pid)); err != nil {
			os.RemoveAll(filepath.Join(d.root, ".build", e.Name()))
		}
	}
}

// instrument copies the repository's working tree to a scratch directory and
// rewrites it with scheduling points (DESIGN 2.2). The copy is removed when
// the build is done.
func (d *driver) instrument(udpSeam bool) (string, error) {
	tmp, err := os.MkdirTemp("", "verifsim-instr-")
	if err != nil {
		return "", err
	}
	tree := filepath.Join(tmp, "dns")
	cp := exec.Command("rsync", "-a", "--exclude", ".git", d.repo+"/", tree+"/")
	if o, err := cp.CombinedOutput(); err != nil {
		os.RemoveAll(tmp)
		return "", fmt.Errorf("copying tree: %v %s", err, o)
	}
	cmd := exec.Command(goBin(), "run", "./cmd/instr", "-dir", tree, fmt.Sprintf("-udp=%v", udpSeam))
	cmd.Dir = filepath.Join(d.root, "sim")
	cmd.Env = goEnv()
	if o, err := cmd.CombinedOutput(); err != nil {
		os.RemoveAll(tmp)
		return "", fmt.Errorf("instrumenting: %v\n%s", err, o)
	}
	return tree, nil
}

// ---------------------------------------------------------------- workers

type worker struct {
	d       *driver
	id      int
	build   string
	cmd     *exec.Cmd
	stdin   io.WriteCloser
	outPath string
	journal string
	stderr  *bytes.Buffer
	gomax   int
}

func (d *driver) spawn(id int, build string, gomax int) (*worker, error) {
	w := &worker{d: d, id: id, build: build, gomax: gomax, stderr: &bytes.Buffer{}}
	w.outPath = filepath.Join(d.work, fmt.Sprintf("w%d.out", id))
	w.journal = filepath.Join(d.work, fmt.Sprintf("w%d.journal", id))
	os.Remove(w.outPath)
	w.cmd = exec.Command(d.bins[build], "-test.run=^TestWorker$", "-test.timeout=0")
	w.cmd.Dir = d.work
	w.cmd.Env = append(os.Environ(),
		"VERIF_OUT="+w.outPath, "VERIF_JOURNAL="+w.journal,
		"VERIF_RACELOG="+filepath.Join(d.work, fmt.Sprintf("race%d", id)),
		"GORACE=halt_on_error=0 atexit_sleep_ms=0 log_path="+filepath.Join(d.work, fmt.Sprintf("race%d", id)),
		fmt.Sprintf("GOMAXPROCS=%d", gomax))
	w.cmd.Stderr = w.stderr
	w.cmd.Stdout = w.stderr
	in, err := w.cmd.StdinPipe()
	if err != nil {
		return nil, err
	}
	w.stdin = in
	if err := w.cmd.Start(); err != nil {
		return nil, err
	}
	return w, nil
}

func (w *worker) send(v any) {
	b, _ := json.Marshal(v)
	w.stdin.Write(append(b, '\n'))
}

// finish closes stdin, waits (with a watchdog) and returns the records the
// worker wrote. crashed is set when the process died or had to be killed.
func (w *worker) finish(watchdog time.Duration) (recs []map[string]json.RawMessage, crashed bool, hung bool) {
	w.stdin.Close()
	done := make(chan error, 1)
	go func() { done <- w.cmd.Wait() }()
	select {
	case <-done:
	case <-time.After(watchdog):
		w.cmd.Process.Signal(os.Interrupt)
		time.Sleep(200 * time.Millisecond)
		w.cmd.Process.Kill()
		<-done
		hung = true
	}
	recs = readRecs(w.outPath)
	// a clean worker ends every command with a "done" record
	ok := false
	if n := len(recs); n > 0 {
		var kind string
		json.Unmarshal(recs[n-1]["kind"], &kind)
		ok = kind == "done"
	}
	crashed = !ok && !hung
	return
}

func readRecs(path string) (recs []map[string]json.RawMessage) {
	f, err := os.Open(path)
	if err != nil {
		return nil
	}
	defer f.Close()
	sc := bufio.NewScanner(f)
	sc.Buffer(make([]byte, 1<<20), 256<<20)
	for sc.Scan() {
		var m map[string]json.RawMessage
		if json.Unmarshal(sc.Bytes(), &m) == nil {
			recs = append(recs, m)
		}
	}
	return
}

func kindOf(m map[string]json.RawMessage) string {
	var k string
	json.Unmarshal(m["kind"], &k)
	return k
}

// runScenario executes one explicit scenario in a fresh process.
func (d *driver) runScenario(build string, raw json.RawMessage, verbose bool) (res *core.Result, crash string, err error) {
	return d.runSched(build, raw, verbose, nil)
}

// runSched runs one scenario in a fresh worker process; with sched != nil the
// schedule is the explicit one given instead of the one drawn from the run seed.
func (d *driver) runSched(build string, raw json.RawMessage, verbose bool, sched *kernel.Schedule) (res *core.Result, crash string, err error) {
	w, err := d.spawn(900+int(time.Now().UnixNano()%90), build, 2)
	if err != nil {
		return nil, "", err
	}
	c := map[string]any{"op": "run", "prop": d.prop, "scenario": raw, "verbose": verbose}
	if sched != nil {
		c["explicit"], c["picks"] = true, sched.Picks
	}
	w.send(c)
	recs, crashed, hung := w.finish(120 * time.Second)
	for _, r := range recs {
		if kindOf(r) == "result" {
			res = &core.Result{}
			json.Unmarshal(r["result"], res)
		}
		if kindOf(r) == "hang" {
			var stacks string
			json.Unmarshal(r["stacks"], &stacks)
			return &core.Result{Verdict: core.Violation, Oracle: "HANG", Sig: "hang", Msg: "the run stopped making progress in real time: " + stacks}, "", nil
		}
	}
	if hung {
		return res, "", fmt.Errorf("worker hung replaying a scenario")
	}
	if crashed || res == nil {
		return nil, panicText(w.stderr.String()), nil
	}
	return res, "", nil
}

func panicText(s string) string {
	i := strings.Index(s, "panic:")
	if j := strings.Index(s, "fatal error:"); j >= 0 && (i < 0 || j < i) {
		i = j
	}
	if i < 0 {
		if len(s) > 2000 {
			s = s[len(s)-2000:]
		}
		return s
	}
	s = s[i:]
	if len(s) > 3000 {
		s = s[:3000]
	}
	return s
}

// panicSig names a crash by the panic message class and the first library frame.
func panicSig(txt string) string {
	first := txt
	if i := strings.Index(first, "\n"); i > 0 {
		first = first[:i]
	}
	// strip addresses / numbers that vary
	var b strings.Builder
	for _, f := range strings.Fields(first) {
		if strings.HasPrefix(f, "0x") || strings.HasPrefix(f, "[") {
			continue
		}
		b.WriteString(f)
		b.WriteByte(' ')
		if b.Len() > 80 {
			break
		}
	}
	frame := ""
	for _, ln := range strings.Split(txt, "\n") {
		if strings.HasPrefix(ln, "github.com/miekg/dns.") {
			frame = ln
			if i := strings.Index(frame, "("); i > 0 {
				frame = frame[:i]
			}
			frame = strings.TrimPrefix(frame, "github.com/miekg/dns.")
			break
		}
	}
	return "panic:" + strings.TrimSpace(b.String()) + "@" + frame
}

// ---------------------------------------------------------------- findings

type finding struct {
	Property string `json:"property"`
	Sig      string `json:"sig"`
	What     string `json:"what"`
}

type findingsFile struct {
	Known []finding `json:"known"`
	Fixed []string  `json:"fixed"`
}

func (d *driver) known() map[string]finding {
	out := map[string]finding{}
	b, err := os.ReadFile(filepath.Join(d.root, "known_findings.json"))
	if err != nil {
		return out
	}
	var ff findingsFile
	if json.Unmarshal(b, &ff) != nil {
		return out
	}
	for _, f := range ff.Known {
		if f.Property == d.prop {
			out[f.Sig] = f
		}
	}
	return out
}

func knownNorm(known map[string]finding, sig string, out *finding) bool {
	for k, f := range known {
		if normSig(k) == normSig(sig) {
			*out = f
			return true
		}
	}
	return false
}

// ---------------------------------------------------------------- check

type violation struct {
	res   *core.Result
	build string
	crash string
	// where the run sat in its worker process: that process had executed the runs with indices
	// from, from+stride, ... before it (a library that keeps state between calls - a cache, a
	// table of strikes, a pool - makes a run depend on them)
	from, stride uint64
	gomax        int
}

func (d *driver) check() int {
	d.t0 = time.Now()
	var err error
	d.work, err = os.MkdirTemp("", "verifsim-"+d.prop+"-")
	if err != nil {
		return d.fatal("%v", err)
	}
	defer os.RemoveAll(d.work)
	fmt.Printf("[%s] tier=%s seed=%d: building workers from %s\n", d.prop, d.tier, d.seed, d.repo)
	if err := d.build(); err != nil {
		return d.fatal("%v", err)
	}
	var active []string
	for _, b := range builds {
		if d.bins[b] != "" {
			active = append(active, b)
		}
	}
	fmt.Printf("[%s] built %v in %.1fs\n", d.prop, active, time.Since(d.t0).Seconds())

	// 1. determinism self-test: the same seeds in two processes with
	// different GOMAXPROCS must give the same trace digests
	stSeeds, stMis, err := d.selftest(active)
	if err != nil {
		return d.fatal("determinism self-test: %v", err)
	}
	stMismatch := 0
	for b, n := range stMis {
		if b == "instr" {
			// every goroutine of the instrumented build is under the kernel's
			// control: a divergence there is a simulator defect. (Its race-detector
			// variant is not held to that: the race runtime makes sync.Pool drop a
			// random quarter of what is put into it, which a changed tree may turn
			// into visible behaviour.)
			return d.fatal("simulator nondeterminism: %d self-test runs diverged on the %s build", n, b)
		}
		// The unmodified tree lets a newborn goroutine run beside its parent
		// until its first seam. On the pinned tree that window holds no
		// conflicting accesses and runs are deterministic; a changed tree can
		// put a real race there. That is not simulator trouble: carry on, and
		// require findings of these builds to reproduce before reporting.
		fmt.Printf("[%s] note: %d self-test runs diverged on the %s build (uncontrolled goroutine-birth window in the unmodified tree, or sync.Pool under the race runtime)\n", d.prop, n, b)
		d.flaky = true
		stMismatch += n
	}

	// 2. the batch
	type slot struct {
		build string
	}
	var slots []slot
	for _, b := range active {
		for i := 0; i < d.cfg.Workers[b]; i++ {
			slots = append(slots, slot{b})
		}
	}
	until := time.Now().Add(d.budget)
	var mu sync.Mutex
	var wg sync.WaitGroup
	var aggs []map[string]json.RawMessage
	var samples []json.RawMessage
	var viols []violation
	var harnessErr []string
	stride := uint64(len(slots))
	for i, s := range slots {
		wg.Add(1)
		go func(i int, build string) {
			defer wg.Done()
			from := uint64(i)
			// a crashed worker is restarted after the crashing seed
			for attempt := 0; attempt < 50 && time.Now().Before(until); attempt++ {
				w, err := d.spawn(i, build, 1+i%2) // half the workers on one P: sync.Pool then hands a released buffer straight to the next reader
				if err != nil {
					mu.Lock()
					harnessErr = append(harnessErr, err.Error())
					mu.Unlock()
					return
				}
				ns := 0
				if i == 0 || slots[i-1].build != build {
					ns = 1 // one written-out sample per build
				}
				w.send(map[string]any{"op": "range", "prop": d.prop, "tier": d.tier, "base": d.seed, "from": from, "stride": stride, "until_ms": until.UnixMilli(), "samples": ns})
				recs, crashed, hung := w.finish(time.Until(until) + 90*time.Second)
				mu.Lock()
				for _, r := range recs {
					switch kindOf(r) {
					case "aggregate":
						aggs = append(aggs, r)
					case "sample":
						b, _ := json.Marshal(r)
						samples = append(samples, b)
					case "violation":
						res := &core.Result{}
						json.Unmarshal(r["result"], res)
						viols = append(viols, violation{res: res, build: build, from: from, stride: stride, gomax: 1 + i%2})
					case "error":
						harnessErr = append(harnessErr, string(r["msg"]))
					}
				}
				mu.Unlock()
				if hung {
					mu.Lock()
					harnessErr = append(harnessErr, fmt.Sprintf("worker %d (%s) hung; last journalled seed %d", i, build, readJournal(w.journal)))
					mu.Unlock()
					return
				}
				if n := len(recs); n > 0 && kindOf(recs[n-1]) == "hang" {
					// the worker's own watchdog: a run stopped making progress in real
					// time (a library lock that is never released). Candidate finding.
					var seed uint64
					var stacks string
					json.Unmarshal(recs[n-1]["seed"], &seed)
					json.Unmarshal(recs[n-1]["stacks"], &stacks)
					mu.Lock()
					viols = append(viols, violation{res: &core.Result{Seed: seed, Verdict: core.Violation, Oracle: "HANG", Sig: "hang", Msg: "the run stopped making progress in real time: goroutines of the simulated system are blocked outside the simulator's reach (a lock that is never released?): " + stacks}, build: build})
					mu.Unlock()
					for idx := from; ; idx += stride {
						if core.Mix(d.seed, idx) == seed {
							from = idx + stride
							break
						}
						if idx > from+stride*50_000_000 {
							return
						}
					}
					continue
				}
				if n := len(recs); n > 0 && kindOf(recs[n-1]) == "abandon" {
					// the worker gave up on a run that does not terminate (already
					// reported as a violation record); carry on after it
					var idx uint64
					json.Unmarshal(recs[n-1]["idx"], &idx)
					from = idx + stride
					continue
				}
				if !crashed {
					return
				}
				seed := readJournal(w.journal)
				txt := panicText(w.stderr.String())
				mu.Lock()
				viols = append(viols, violation{res: &core.Result{Seed: seed, Verdict: core.Violation, Oracle: "PANIC", Sig: panicSig(txt), Msg: txt}, build: build, crash: txt})
				mu.Unlock()
				// continue after the crashing index: find it
				for idx := from; ; idx += stride {
					if core.Mix(d.seed, idx) == seed {
						from = idx + stride
						break
					}
					if idx > from+stride*50_000_000 {
						return
					}
				}
			}
		}(i, s.build)
	}
	wg.Wait()
	if len(harnessErr) > 0 {
		return d.fatal("%s", strings.Join(harnessErr, "; "))
	}

	// 3. aggregate
	ev := d.aggregate(aggs, samples, active)
	ev.selftestSeeds, ev.selftestMismatch = stSeeds, stMismatch
	if ev.harness > 0 && len(viols) == 0 {
		d.writeEvidence(ev, 0)
		return d.fatal("%d run(s) ended in a simulator diagnostic, e.g. %s", ev.harness, ev.harnessMsg)
	}
	if ev.harness > 0 {
		// with violations on the table a step cap is most likely their consequence
		// (a library loop that never ends): report the violations, mention the rest
		fmt.Printf("[%s] note: %d run(s) ended in a simulator diagnostic (e.g. %s)\n", d.prop, ev.harness, ev.harnessMsg)
	}
	if ev.runs == 0 && len(viols) == 0 {
		return d.fatal("no runs were executed")
	}

	// 4. violations: known finding, or confirm + minimise + report
	known := d.known()
	exit := 0
	nviol := 0
	sort.Slice(viols, func(i, j int) bool { return viols[i].res.Seed < viols[j].res.Seed })
	knownPrinted := map[string]bool{}
	groups := map[string][]violation{}
	var order []string
	for _, v := range viols {
		if f, ok := known[v.res.Sig]; ok || knownNorm(known, v.res.Sig, &f) {
			if !knownPrinted[v.res.Sig] {
				knownPrinted[v.res.Sig] = true
				fmt.Printf("KNOWN-FINDING: property=%s %s\n", d.prop, f.What)
			}
			continue
		}
		key := v.res.Oracle + "/" + normSig(v.res.Sig)
		if groups[key] == nil {
			order = append(order, key)
		}
		groups[key] = append(groups[key], v)
	}
	for gi, key := range order {
		g := groups[key]
		if gi >= 12 {
			// plenty has been reported already; do not spend the time on replaying more classes
			fmt.Printf("[%s] note: %d further finding class(es) not replayed, e.g. %s: %s\n", d.prop, len(order)-gi, key, firstLine(g[0].res.Msg))
			break
		}
		d.noShrink = gi >= 4 // minimise the first few classes only
		// prefer findings of the fully controlled builds
		sort.SliceStable(g, func(i, j int) bool {
			return g[i].build == "instr" && g[j].build != "instr"
		})
		reported := false
		soft := true // every candidate came from a source that may legitimately not replay
		for i, v := range g {
			if i >= 6 {
				break
			}
			path, confirmed, herr := d.report(v)
			if herr != nil {
				return d.fatal("%v", herr)
			}
			if !confirmed {
				if v.build == "instr" && v.res.Oracle != "S8" {
					soft = false
				}
				continue
			}
			nviol += len(g)
			exit = 1
			reported = true
			fmt.Printf("VIOLATION property=%s replay=%s\n", d.prop, path)
			fmt.Printf("  oracle %s (%s), %d run(s): %s\n", v.res.Oracle, v.res.Sig, len(g), firstLine(v.res.Msg))
			break
		}
		if !reported && g[0].res.Oracle != "PANIC" && g[0].res.Oracle != "HANG" {
			// Not one of them fails on its own. Does it fail in the company it had? Replay the runs its worker
			// process had executed before it, in one fresh process, then the run itself: a verdict that depends
			// on what the library remembered from earlier calls is as deterministic as any other.
			for i, v := range g {
				if i >= 2 || v.stride == 0 {
					break
				}
				path, confirmed, herr := d.reportWithHistory(v)
				if herr != nil {
					return d.fatal("%v", herr)
				}
				if confirmed {
					nviol += len(g)
					exit = 1
					reported = true
					fmt.Printf("VIOLATION property=%s replay=%s\n", d.prop, path)
					fmt.Printf("  oracle %s (%s), %d run(s), only after earlier runs in the same process: %s\n", v.res.Oracle, v.res.Sig, len(g), firstLine(v.res.Msg))
					break
				}
			}
		}
		if reported {
			continue
		}
		if !soft {
			d.writeEvidence(ev, nviol)
			return d.fatal("a violation (%s: %s) did not reproduce when replayed in a fresh process: simulator nondeterminism", key, firstLine(g[0].res.Msg))
		}
		// findings of the unmodified-tree builds (uncontrolled goroutine-birth
		// window) and race reports (detector state) are only reported when a
		// replay reproduces them
		fmt.Printf("[%s] note: %d finding(s) %s did not reproduce on replay and are not reported: %s\n", d.prop, len(g), key, firstLine(g[0].res.Msg))
	}
	d.writeEvidence(ev, nviol)
	if exit == 0 {
		fmt.Printf("[%s] OK: %d runs (%d non-trivial, %d distinct) in %.1fs, %d known finding(s)\n", d.prop, ev.runs, ev.nontrivial, ev.distinct, time.Since(d.t0).Seconds(), len(knownPrinted))
	}
	return exit
}

// normSig replaces every run of digits by '#': panic texts and positions vary
// from input to input without being a different kind of finding.
func normSig(s string) string {
	var b strings.Builder
	prev := false
	for _, c := range s {
		if c >= '0' && c <= '9' {
			if !prev {
				b.WriteByte('#')
			}
			prev = true
			continue
		}
		prev = false
		b.WriteRune(c)
	}
	return b.String()
}

func firstLine(s string) string {
	if i := strings.Index(s, "\n"); i > 0 {
		s = s[:i]
	}
	if len(s) > 400 {
		s = s[:400]
	}
	return s
}

func readJournal(path string) uint64 {
	b, err := os.ReadFile(path)
	if err != nil || len(b) < 8 {
		return 0
	}
	return binary.LittleEndian.Uint64(b)
}

// selftest runs a sample of seeds twice per build, in separate processes with
// different GOMAXPROCS, and compares digests and verdicts.
func (d *driver) selftest(active []string) (n int, mismatches map[string]int, err error) {
	mismatches = map[string]int{}
	nseeds := 12
	if d.tier == "thorough" {
		nseeds = 48
	}
	if v, err := strconv.Atoi(os.Getenv("VERIF_SELFTEST_SEEDS")); err == nil && v > 0 {
		nseeds = v // development: a large determinism self-test after a new seam or fault kind
	}
	var seeds []uint64
	for i := 0; i < nseeds; i++ {
		seeds = append(seeds, core.Mix(d.seed^0x5e1f7e57, uint64(i)))
	}
	type key struct {
		b string
		s uint64
	}
	got := map[key][]string{}
	var mu sync.Mutex
	var wg sync.WaitGroup
	var firstErr error
	id := 100
	for _, b := range active {
		for _, gm := range []int{1, 4, 16} {
			id++
			wg.Add(1)
			go func(id int, b string, gm int) {
				defer wg.Done()
				w, e := d.spawn(id, b, gm)
				if e != nil {
					mu.Lock()
					firstErr = e
					mu.Unlock()
					return
				}
				w.send(map[string]any{"op": "seeds", "prop": d.prop, "tier": d.tier, "seeds": seeds})
				recs, crashed, hung := w.finish(time.Duration(180+len(seeds)/4) * time.Second)
				mu.Lock()
				defer mu.Unlock()
				if hung {
					firstErr = fmt.Errorf("self-test worker hung (%s)", b)
					return
				}
				_ = crashed // a crash shows up as missing results below, and in the batch as a PANIC violation
				for _, r := range recs {
					if kindOf(r) != "result" {
						continue
					}
					res := &core.Result{}
					json.Unmarshal(r["result"], res)
					vd := res.Verdict + "/" + res.Oracle
					if res.Oracle == "S8" {
						// whether the race detector still holds the earlier
						// access when the later one happens depends on its
						// shadow-memory state, not only on the schedule: a
						// report is sound when it appears, its absence is not
						// compared
						vd = "ok/"
					}
					got[key{b, res.Seed}] = append(got[key{b, res.Seed}], fmt.Sprintf("%x/%s", res.Digest, vd))
				}
			}(id, b, gm)
		}
	}
	wg.Wait()
	if firstErr != nil {
		return 0, nil, firstErr
	}
	shown := 0
	for k, v := range got {
		n += len(v)
		for _, x := range v[1:] {
			if x != v[0] {
				mismatches[k.b]++
				if shown < 8 {
					shown++
					fmt.Fprintf(os.Stderr, "[%s] self-test divergence: build %s seed %d: %v\n", d.prop, k.b, k.s, v)
				}
			}
		}
	}
	return
}

// ---------------------------------------------------------------- evidence

type evidence struct {
	runs, nontrivial, distinct int
	steps                      int64
	simS                       float64
	stats                      map[string]int
	classes                    map[string]int
	modes                      map[string]int
	samples                    []json.RawMessage
	harness                    int
	harnessMsg                 string
	raceNoise                  int
	selftestSeeds              int
	selftestMismatch           int
	firstIdx, lastIdx          uint64
	pairs                      map[string]struct{}
}

func (d *driver) aggregate(aggs []map[string]json.RawMessage, samples []json.RawMessage, active []string) *evidence {
	ev := &evidence{stats: map[string]int{}, classes: map[string]int{}, modes: map[string]int{}, samples: samples, pairs: map[string]struct{}{}}
	digests := map[uint64]struct{}{}
	for _, a := range aggs {
		var x struct {
			Runs, Nontrivial, Harness int
			Steps                     int64
			SimS                      float64 `json:"sim_s"`
			Stats, Classes            map[string]int
			DigestFile                string `json:"digest_file"`
			HarnessMsg                string `json:"harness_msg"`
			Mode                      string
			Race                      bool
			LastIdx                   uint64 `json:"last_idx"`
			Pairs                     []string
		}
		b, _ := json.Marshal(a)
		json.Unmarshal(b, &x)
		ev.runs += x.Runs
		ev.nontrivial += x.Nontrivial
		ev.harness += x.Harness
		if ev.harnessMsg == "" {
			ev.harnessMsg = x.HarnessMsg
		}
		ev.steps += x.Steps
		ev.simS += x.SimS
		for k, v := range x.Stats {
			ev.stats[k] += v
		}
		for k, v := range x.Classes {
			ev.classes[k] += v
		}
		m := x.Mode
		if x.Race {
			m += "+race"
		}
		ev.modes[m] += x.Runs
		for _, p := range x.Pairs {
			ev.pairs[m+": "+p] = struct{}{}
		}
		if x.LastIdx > ev.lastIdx {
			ev.lastIdx = x.LastIdx
		}
		if f, err := os.ReadFile(x.DigestFile); err == nil {
			// digests of different builds are kept apart: the same seed runs a
			// different schedule space in the instrumented build
			salt := uint64(0)
			for _, c := range m {
				salt = salt*131 + uint64(c)
			}
			for i := 0; i+8 <= len(f); i += 8 {
				digests[binary.LittleEndian.Uint64(f[i:])^salt] = struct{}{}
			}
		}
	}
	ev.distinct = len(digests)
	ev.raceNoise = ev.stats["harness.race_noise"]
	return ev
}

func (d *driver) writeEvidence(ev *evidence, violations int) {
	wall := time.Since(d.t0).Seconds()
	group := func(prefix string) map[string]int {
		out := map[string]int{}
		for k, v := range ev.stats {
			if strings.HasPrefix(k, prefix) {
				out[strings.TrimPrefix(k, prefix)] = v
			}
		}
		return out
	}
	var samples []any
	for _, s := range ev.samples {
		var v any
		json.Unmarshal(s, &v)
		samples = append(samples, v)
		if len(samples) == 3 {
			break
		}
	}
	if len(samples) == 0 {
		samples = append(samples, "no non-trivial run was sampled in this batch")
	}
	cov := map[string]any{
		"evaluations":         ev.runs,
		"distinct_nontrivial": ev.distinct,
		"rule":                d.cfg.Rule,
		"samples":             samples,
		"nontrivial_runs":     ev.nontrivial,
		"runs_per_hour":       int(float64(ev.runs) / wall * 3600),
		"seeds":               map[string]any{"driver_seed": d.seed, "derivation": "run seed i = splitmix64(driver_seed, i)", "first_index": 0, "last_index": ev.lastIdx},
		"sim_time_seconds":    ev.simS,
		"steps":               ev.steps,
		"faults_fired":        group("fault."),
		"probes":              group("probe."),
		"oracle_checks":       group("oracle."),
		"behaviour_classes":   len(ev.classes),
		"modes":               ev.modes,
		"real_components":     d.cfg.Real,
		"stub_components":     d.cfg.Stub,
		"determinism_selftest": map[string]any{"runs_compared": ev.selftestSeeds, "mismatches": ev.selftestMismatch,
			"how": "same seeds in separate processes per build at GOMAXPROCS 1, 4 and 16; trace digests and verdicts compared"},
		"harness_race_reports_ignored": ev.raceNoise,
	}
	if len(ev.pairs) > 0 {
		var ps []string
		for p := range ev.pairs {
			ps = append(ps, p)
		}
		sort.Strings(ps)
		cov["site_pairs_covered"] = len(ps)
		if len(ps) > 40 {
			ps = ps[:40]
		}
		cov["site_pairs_sample"] = ps
		cov["site_pairs_rule"] = "distinct (scheduling site of one task -> next scheduling site of another task) pairs seen, per build; sites are seam calls in the unmodified tree and additionally every lock/unlock/spawn/WaitGroup/channel/select site in the instrumented copy"
	}
	if extra := group("cover."); len(extra) > 0 {
		cov["coverage_counters"] = extra
	}
	// reach: counters that fire in every ordinary batch of this check (expected_reach.json, made from a full
	// quick run on the unchanged tree) and stayed at zero in this one. A gap is a note, not a verdict: it
	// says that a generator, a fault or an oracle has gone quiet - on a changed tree possibly because the
	// change removed the path - and that this batch says nothing about what lies behind it.
	if b, err := os.ReadFile(filepath.Join(d.root, "expected_reach.json")); err == nil && violations == 0 && len(d.only) == 0 {
		var exp map[string][]string
		if json.Unmarshal(b, &exp) == nil {
			gaps := []string{}
			for _, name := range exp[d.prop] {
				if ev.stats[name] == 0 {
					gaps = append(gaps, name)
				}
			}
			cov["reach_expected"], cov["reach_gaps"] = len(exp[d.prop]), gaps
			if len(gaps) > 0 {
				fmt.Printf("[%s] note: %d of %d counters that fire in every ordinary batch stayed at zero: %s\n", d.prop, len(gaps), len(exp[d.prop]), strings.Join(gaps, ", "))
			}
		}
	}
	out := map[string]any{
		"property_id": d.prop,
		"tier":        d.tier,
		"seed":        int64(d.seed & 0x7fffffffffffffff),
		"level":       "exploration",
		"coverage":    cov,
		"assumptions": d.cfg.Assume,
		"wall_s":      wall,
		"violations":  violations,
	}
	b, _ := json.MarshalIndent(out, "", " ")
	os.MkdirAll(filepath.Join(d.outdir(), "evidence"), 0o755)
	os.WriteFile(filepath.Join(d.outdir(), "evidence", d.prop+".json"), append(b, '\n'), 0o644)
}

// ---------------------------------------------------------------- reporting

type replayFile struct {
	Property string          `json:"property"`
	Build    string          `json:"build"`
	Oracle   string          `json:"oracle"`
	Sig      string          `json:"sig"`
	Message  string          `json:"message"`
	Seed     uint64          `json:"seed"`
	Digest   uint64          `json:"digest"`
	Scenario json.RawMessage `json:"scenario"`
	Original json.RawMessage `json:"original_scenario,omitempty"`
	Shrunk   int             `json:"shrink_steps"`
	Log      []string        `json:"event_log,omitempty"`
	Crash    string          `json:"crash,omitempty"`
	How      string          `json:"how_to_replay"`
	// Schedule, when present, is the minimised schedule: the replay takes these
	// scheduling decisions instead of drawing them from the run seed.
	Schedule     *kernel.Schedule `json:"schedule,omitempty"`
	ScheduleNote string           `json:"schedule_note,omitempty"`
	// History, when present, is what has to happen first in the same process: these scenarios are run, in
	// this order, before Scenario - the violation needs what the library kept from them.
	History     []json.RawMessage `json:"history,omitempty"`
	HistoryNote string            `json:"history_note,omitempty"`
	GOMAXPROCS  int               `json:"gomaxprocs,omitempty"`
}

// runHistory runs the scenarios of hist and then raw in one fresh worker process and returns the result of raw.
func (d *driver) runHistory(build string, gomax int, hist []json.RawMessage, raw json.RawMessage) (res *core.Result, crash string, err error) {
	if gomax == 0 {
		gomax = 2
	}
	w, err := d.spawn(800+int(time.Now().UnixNano()%90), build, gomax)
	if err != nil {
		return nil, "", err
	}
	for _, h := range hist {
		w.send(map[string]any{"op": "run", "prop": d.prop, "scenario": h, "verbose": false})
	}
	w.send(map[string]any{"op": "run", "prop": d.prop, "scenario": raw, "verbose": true})
	recs, crashed, hung := w.finish(180 * time.Second)
	n := 0
	for _, r := range recs {
		if kindOf(r) == "result" {
			n++
			if n == len(hist)+1 {
				res = &core.Result{}
				json.Unmarshal(r["result"], res)
			}
		}
	}
	if hung {
		return nil, "", fmt.Errorf("worker hung replaying a history of %d scenarios", len(hist))
	}
	if crashed || res == nil {
		return nil, panicText(w.stderr.String()), nil
	}
	return res, "", nil
}

// reportWithHistory confirms a violation that does not occur when its scenario is run alone: with the runs
// that preceded it in its worker process. The history is then cut down - first to the shortest suffix that
// still does it, then by dropping blocks - and written into the replay file.
func (d *driver) reportWithHistory(v violation) (path string, confirmed bool, err error) {
	raw := v.res.Scenario
	if len(raw) == 0 {
		raw, _ = json.Marshal(d.p.Gen(v.res.Seed, d.tier))
	}
	// the indices the worker had been through
	var hist []json.RawMessage
	found := false
	for idx, n := v.from, 0; n < 200000; idx, n = idx+v.stride, n+1 {
		seed := core.Mix(d.seed, idx)
		if seed == v.res.Seed {
			found = true
			break
		}
		b, _ := json.Marshal(d.p.Gen(seed, d.tier))
		hist = append(hist, b)
	}
	if !found || len(hist) == 0 {
		return "", false, nil
	}
	same := func(r *core.Result) bool {
		return r != nil && r.Verdict == core.Violation && r.Oracle == v.res.Oracle && normSig(r.Sig) == normSig(v.res.Sig)
	}
	deadline := time.Now().Add(150 * time.Second)
	try := func(h []json.RawMessage) *core.Result {
		if time.Now().After(deadline) {
			return nil
		}
		r, _, e := d.runHistory(v.build, v.gomax, h, raw)
		if e != nil || !same(r) {
			return nil
		}
		return r
	}
	// the shortest suffix of the history that does it (doubling), at most the whole
	var best []json.RawMessage
	var bestRes *core.Result
	for k := 1; ; k *= 2 {
		if k > len(hist) {
			k = len(hist)
		}
		if r := try(hist[len(hist)-k:]); r != nil {
			best, bestRes = hist[len(hist)-k:], r
			break
		}
		if k == len(hist) {
			return "", false, nil
		}
	}
	// it must do so every time
	if r := try(best); r == nil {
		return "", false, nil
	}
	total := len(best)
	// drop blocks while the violation stays (halves, quarters, ... single scenarios)
	for block := (len(best) + 1) / 2; block >= 1 && len(best) > 0; {
		cut := false
		for at := 0; at+block <= len(best); at += block {
			cand := append(append([]json.RawMessage(nil), best[:at]...), best[at+block:]...)
			if r := try(cand); r != nil {
				best, bestRes, cut = cand, r, true
				break
			}
		}
		if !cut {
			if block == 1 {
				break
			}
			block = (block + 1) / 2
		}
		if time.Now().After(deadline) {
			break
		}
	}
	rf := replayFile{Property: d.prop, Build: v.build, Oracle: v.res.Oracle, Sig: v.res.Sig, Seed: v.res.Seed, Scenario: raw, History: best, GOMAXPROCS: v.gomax,
		HistoryNote: fmt.Sprintf("the scenario alone does not fail; it fails after these %d scenario(s) have been run in the same process (cut down from the %d - of %d - that preceded it in its worker): the library keeps something from one call to the next", len(best), total, len(hist))}
	rf.Message, rf.Digest, rf.Log = bestRes.Msg, bestRes.Digest, bestRes.Log
	dir := filepath.Join(d.outdir(), "replays", d.prop)
	os.MkdirAll(dir, 0o755)
	path = filepath.Join(dir, fmt.Sprintf("%s-%s-%d.json", v.res.Oracle, sanitize(v.res.Sig), v.res.Seed))
	rf.How = fmt.Sprintf("cd %s && ./check %s --replay %s", d.root, d.prop, path)
	b, _ := json.MarshalIndent(rf, "", " ")
	os.WriteFile(path, append(b, '\n'), 0o644)
	return path, true, nil
}

// report confirms a violation in a fresh process, minimises its scenario and
// writes the replay file.
func (d *driver) report(v violation) (path string, confirmed bool, err error) {
	raw := v.res.Scenario
	if len(raw) == 0 {
		sc := d.p.Gen(v.res.Seed, d.tier)
		raw, _ = json.Marshal(sc)
	}
	same := func(r *core.Result, crash string) bool {
		if v.res.Oracle == "PANIC" {
			return crash != "" && panicSig(crash) == v.res.Sig
		}
		return r != nil && r.Verdict == core.Violation && r.Oracle == v.res.Oracle && normSig(r.Sig) == normSig(v.res.Sig)
	}
	r, crash, e := d.runScenario(v.build, raw, true)
	if e != nil {
		return "", false, e
	}
	if !same(r, crash) {
		return "", false, nil
	}
	if v.build != "instr" {
		// must reproduce every time, not just once
		for i := 0; i < 3; i++ {
			r2, c2, e := d.runScenario(v.build, raw, true)
			if e != nil || !same(r2, c2) {
				return "", false, nil
			}
		}
	}
	best, bestRes, bestCrash := raw, r, crash
	steps := 0
	if d.p.Shrink != nil && v.res.Oracle != "HANG" && !d.noShrink {
		deadline := time.Now().Add(60 * time.Second)
		tried := 0
	outer:
		for tried < 300 && time.Now().Before(deadline) {
			sc, e := d.p.Decode(best)
			if e != nil {
				break
			}
			for _, cand := range d.p.Shrink(sc) {
				if tried >= 300 || time.Now().After(deadline) {
					break outer
				}
				tried++
				cr, _ := json.Marshal(cand)
				if bytes.Equal(cr, best) {
					continue
				}
				rr, cc, e := d.runScenario(v.build, cr, true)
				if e != nil {
					continue
				}
				if same(rr, cc) {
					best, bestRes, bestCrash = cr, rr, cc
					steps++
					continue outer
				}
			}
			break
		}
	}
	// final confirmation of the minimised scenario in yet another process
	rr, cc, e := d.runScenario(v.build, best, true)
	if e != nil || !same(rr, cc) {
		best, bestRes, bestCrash, steps = raw, r, crash, 0
	} else {
		bestRes, bestCrash = rr, cc
	}
	rf := replayFile{Property: d.prop, Build: v.build, Oracle: v.res.Oracle, Sig: v.res.Sig, Seed: v.res.Seed, Scenario: best, Shrunk: steps, Crash: bestCrash}
	if bestRes != nil && bestCrash == "" && v.res.Oracle != "HANG" && v.res.Oracle != "PANIC" && !d.noShrink {
		if sched, fr, note := d.minimiseSchedule(v.build, best, bestRes, same); sched != nil {
			rf.Schedule, rf.ScheduleNote, bestRes = sched, note, fr
		}
	}
	if steps > 0 {
		rf.Original = raw
	}
	if bestRes != nil {
		rf.Message, rf.Digest, rf.Log = bestRes.Msg, bestRes.Digest, bestRes.Log
	} else {
		rf.Message = v.res.Msg
	}
	dir := filepath.Join(d.outdir(), "replays", d.prop)
	os.MkdirAll(dir, 0o755)
	path = filepath.Join(dir, fmt.Sprintf("%s-%s-%d.json", v.res.Oracle, sanitize(v.res.Sig), v.res.Seed))
	rf.How = fmt.Sprintf("cd %s && ./check %s --replay %s", d.root, d.prop, path)
	b, _ := json.MarshalIndent(rf, "", " ")
	os.WriteFile(path, append(b, '\n'), 0o644)
	return path, true, nil
}

// minimiseSchedule turns the schedule the failing run drew from its seed into an
// explicit one and simplifies it while the same violation persists: first the
// tail is cut (steps beyond the list take the default: carry on with the running
// task), then blocks of decisions are reset to the default. What remains are the
// context switches the violation needs.
func (d *driver) minimiseSchedule(build string, raw json.RawMessage, base *core.Result, same func(*core.Result, string) bool) (*kernel.Schedule, *core.Result, string) {
	if base.Kernels != 1 || len(base.Picks) == 0 {
		return nil, nil, ""
	}
	deadline := time.Now().Add(45 * time.Second)
	tries := 0
	var lastRes *core.Result
	try := func(p []uint16) bool {
		if tries >= 90 || time.Now().After(deadline) {
			return false
		}
		tries++
		r, c, e := d.runSched(build, raw, true, &kernel.Schedule{Picks: p})
		if e != nil || !same(r, c) || r.Diverged {
			return false
		}
		lastRes = r
		return true
	}
	full := append([]uint16(nil), base.Picks...)
	if !try(full) {
		return nil, nil, "" // the explicit form of the drawn schedule does not reproduce: keep the seed
	}
	best, bestRes := full, lastRes
	// cut the tail
	if try(nil) {
		best, bestRes = nil, lastRes
	} else {
		lo, hi := 0, len(best)
		for hi-lo > 1 {
			mid := (lo + hi) / 2
			if try(best[:mid]) {
				hi, bestRes = mid, lastRes
			} else {
				lo = mid
			}
			if tries >= 90 || time.Now().After(deadline) {
				break
			}
		}
		best = append([]uint16(nil), best[:hi]...)
	}
	// reset blocks of decisions to the default
	for blk := (len(best) + 3) / 4; blk >= 1 && tries < 90 && time.Now().Before(deadline); blk /= 2 {
		for at := 0; at < len(best); at += blk {
			end := min(at+blk, len(best))
			any := false
			for _, x := range best[at:end] {
				if x != 0 {
					any = true
				}
			}
			if !any {
				continue
			}
			cand := append([]uint16(nil), best...)
			for i := at; i < end; i++ {
				cand[i] = 0
			}
			if try(cand) {
				best, bestRes = cand, lastRes
			}
		}
		if blk == 1 {
			break
		}
	}
	for len(best) > 0 && best[len(best)-1] == 0 {
		best = best[:len(best)-1]
	}
	// must reproduce in yet another process, twice
	for i := 0; i < 2; i++ {
		r, c, e := d.runSched(build, raw, true, &kernel.Schedule{Picks: best})
		if e != nil || !same(r, c) {
			return nil, nil, ""
		}
		bestRes = r
	}
	explicit := 0
	for _, x := range best {
		if x != 0 {
			explicit++
		}
	}
	note := fmt.Sprintf("minimised from the %d decisions drawn from the run seed to %d explicit decisions in the first %d steps (%d replays); every other step takes the default: carry on with the task that ran last if it can, else the candidate that has waited longest", len(full), explicit, len(best), tries)
	if best == nil {
		best = []uint16{}
	}
	return &kernel.Schedule{Picks: best}, bestRes, note
}

func sanitize(s string) string {
	var b strings.Builder
	for _, c := range s {
		switch {
		case c >= 'a' && c <= 'z', c >= 'A' && c <= 'Z', c >= '0' && c <= '9', c == '-', c == '_':
			b.WriteRune(c)
		default:
			b.WriteByte('_')
		}
		if b.Len() > 60 {
			break
		}
	}
	return b.String()
}

// replayFile re-executes a replay file against the current tree.
func (d *driver) replayFile(path string) int {
	b, err := os.ReadFile(path)
	if err != nil {
		return d.fatal("%v", err)
	}
	var rf replayFile
	if err := json.Unmarshal(b, &rf); err != nil {
		return d.fatal("%v", err)
	}
	d.prop = rf.Property
	d.p, d.cfg = core.Registry[d.prop], cfgs[d.prop]
	if d.p == nil {
		return d.fatal("unknown property in replay file")
	}
	d.only = map[string]bool{rf.Build: true}
	d.work, _ = os.MkdirTemp("", "verifsim-replay-")
	defer os.RemoveAll(d.work)
	if err := d.build(); err != nil {
		return d.fatal("%v", err)
	}
	var res *core.Result
	var crash string
	if len(rf.History) > 0 {
		fmt.Printf("replaying %d earlier scenario(s) in the same process first\n", len(rf.History))
		res, crash, err = d.runHistory(rf.Build, rf.GOMAXPROCS, rf.History, rf.Scenario)
	} else {
		res, crash, err = d.runSched(rf.Build, rf.Scenario, true, rf.Schedule)
	}
	if err != nil {
		return d.fatal("%v", err)
	}
	if crash != "" {
		fmt.Printf("replay crashed:\n%s\n", crash)
		if panicSig(crash) == rf.Sig {
			fmt.Printf("VIOLATION property=%s replay=%s\n", d.prop, path)
			return 1
		}
		return d.fatal("crash differs from the recorded one")
	}
	for _, l := range res.Log {
		fmt.Println(l)
	}
	fmt.Printf("verdict=%s oracle=%s sig=%s digest=%x (recorded %x)\n%s\n", res.Verdict, res.Oracle, res.Sig, res.Digest, rf.Digest, res.Msg)
	if res.Verdict == core.Violation {
		fmt.Printf("VIOLATION property=%s replay=%s\n", d.prop, path)
		return 1
	}
	fmt.Println("the recorded violation does not occur on this tree")
	return 0
}
