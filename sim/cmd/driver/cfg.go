package main

var stubCommon = []string{
	"kernel sockets (replaced by simnet stream/datagram/listener objects)",
	"every dial path: Client.Dial*, Transfer.In's dial, ListenAndServe's listenTCP/listenUDP (the harness hands the library ready-made connections and listeners)",
	"the *net.UDPConn-only path: readUDP, SessionUDP, OOB control messages, setUDPSocketOptions",
}

func init() {
	cfgs["C13"] = &propCfg{
		Workers: map[string]int{"pristine": 4, "instr": 5, "pristine-race": 3, "instr-race": 4},
		QuickS:  35, ThorS: 600,
		Real: []string{"Server.ActivateAndServe", "serveTCP", "serveUDP (generic PacketConn branch)", "serveTCPConn", "serveUDPPacket", "serveDNS", "readTCP", "readPacketConn", "response.WriteMsg/Write/Close", "Shutdown/ShutdownContext", "Conn.WriteMsg/ReadMsg (client side)", "Msg.Pack/Unpack"},
		Stub: stubCommon,
		Rule: "A run = one generated lifecycle scenario (transport, 0..k clients with query/partial/idle/close/reset operations, handler plans, start/second start/early shutdown/Shutdown or ShutdownContext/concurrent and repeated shutdowns) executed under one seeded schedule. Non-trivial = at least one handler ran or a misuse call (second start, extra shutdown) was made. Distinct = distinct trace digest (hash of every scheduling decision, seam call and effect of the run), counted per build.",
		Assume: append([]string{
			"testing/synctest fake clock and quiescence detection; Go race detector; the go/ast rewriter that inserts scheduling points into a scratch copy (cross-checked by running the unmodified tree alongside)",
			"restart of a server after Shutdown is not exercised (unspecified by the property)",
			"TLS listener is exercised as a TCP listener only",
		}, stubCommon...),
	}
}
