package main

var stubCommon = []string{
	"kernel sockets (replaced by simnet stream/datagram/listener objects)",
	"the operating system's listen and connect calls: in the instrumented builds listenTCP / listenUDP and the dial sites of client.go ask a socket seam of the simulator, so ListenAndServe (C13), Client.Exchange / ExchangeContext / Dial / DialContext (C12) and Transfer.In without a preset connection (C15, C11) run real code up to that call; in the unmodified-tree builds the harness hands the library ready-made connections and listeners. Never reached: DialWithTLS / DialTimeoutWithTLS, the package-level Dial / Exchange / ExchangeContext helpers, ListenAndServeTLS",
	"the setsockopt calls of setUDPSocketOptions; in the unmodified-tree builds also the rest of the *net.UDPConn-only path (readUDP, SessionUDP, control messages) - the instrumented builds run it over simnet.UDPConn through an interface substituted for *net.UDPConn",
}

func init() {
	cfgs["C13"] = &propCfg{
		Workers: map[string]int{"pristine": 4, "instr": 5, "pristine-race": 3, "instr-race": 4},
		QuickS:  35, ThorS: 600,
		Real: []string{"Server.ActivateAndServe", "Server.ListenAndServe (tcp, tcp-tls, udp; instrumented builds, socket seam)", "serveTCP", "serveUDP (generic PacketConn branch; UDP socket branch with readUDP/ReadFromSessionUDP/WriteToSessionUDP/correctSource in the instrumented builds)", "serveTCPConn", "serveUDPPacket", "serveDNS", "readTCP", "readPacketConn", "response.WriteMsg/Write/Close", "Shutdown/ShutdownContext", "Conn.WriteMsg/ReadMsg (client side)", "Msg.Pack/Unpack"},
		Stub: stubCommon,
		Rule: "A run = one generated lifecycle scenario (transport, 0..k clients with query/partial/idle/close/reset operations, handler plans, start/second start/early shutdown/Shutdown or ShutdownContext/concurrent and repeated shutdowns) executed under one seeded schedule. Non-trivial = at least one handler ran or a misuse call (second start, extra shutdown) was made. Distinct = distinct trace digest (hash of every scheduling decision, seam call and effect of the run), counted per build.",
		Assume: append([]string{
			"testing/synctest fake clock and quiescence detection; Go race detector; the go/ast rewriter that inserts scheduling points into a scratch copy (cross-checked by running the unmodified tree alongside)",
			"restart of a server after Shutdown is not exercised (unspecified by the property)",
			"the TLS-style listener is crypto/tls (real handshakes, fixed Ed25519 certificate) over the simulated stream",
		}, stubCommon...),
	}
}

func init() {
	cfgs["C18"] = &propCfg{
		Workers: map[string]int{"pristine": 12, "pristine-race": 4},
		QuickS:  25, ThorS: 420,
		Real: []string{"SIG.Sign", "SIG.Verify", "(cross-checked by oracle/sig0.go, an independent RFC 2931 signer and verifier)", "Msg.Pack/PackBuffer/Unpack", "PackRR", "KEY.NewPrivateKey / ReadPrivateKey (fixed test keys)", "crypto/rsa, crypto/ecdsa, crypto/ed25519"},
		Stub: []string{"the network between signer and verifier is a byte buffer with injected bit flips, truncation and delay (no sockets are involved in SIG(0) itself)"},
		Rule: "A run = one generated message (recipe over a corpus of ~70 record types, compressed or not, up to ~60 KiB, including 254..300 additional records) signed with one of 12 fixed keys (RSASHA1/256/512, ECDSA P-256/P-384, Ed25519) at a simulated instant, then 1..6 deliveries, each with a fault (bit flip in a named region, truncation, other key, key with another owner) and a verification instant relative to the validity window (before, at inception, inside, at expiration, after, far later at 2^16 / 2^17 / 2^24 s + d; windows of 0 s, inverted windows). About one run in twelve instead lets 2..4 signer/verifier pairs with their own keys work concurrently under the seeded scheduler (a quarter of the workers run under the race detector). Non-trivial = the message was signed and at least one delivery was judged. Distinct = distinct digest of (scenario outcome log).",
		Assume: []string{
			"testing/synctest fake clock supplies time.Now for SIG.Verify; backwards clock jumps are modelled as signer-side skew of inception/expiration",
			"oracle/wire.go (independent wire walker) locates the regions of the signed octets",
			"alterations confined to the SIG record's own owner/type/class/TTL/RDLENGTH octets are only required not to panic (the statement does not cover them)",
		},
	}
}

func init() {
	cfgs["C07"] = &propCfg{
		Workers: map[string]int{"pristine": 13, "instr": 3},
		QuickS:  20, ThorS: 420,
		Real: []string{"ZoneParser (NewZoneParser, Next, Err, SetIncludeAllowed, SetIncludeFS, SetDefaultTTL)", "zlexer", "$INCLUDE / $GENERATE / $ORIGIN / $TTL handling", "every RR type's text parser reached by the corpus", "ReadRR", "DNSKEY.ReadPrivateKey"},
		Stub: []string{"the disk: an in-memory fs.FS and io.Reader with injected faults (simfs)", "the os.Open branch of $INCLUDE (an fs.FS is always configured)"},
		Rule: "A run = one generated file tree (1..4 zone files built from a corpus of record lines, directives, parenthesised records, comments, $INCLUDE of each other / of themselves / of missing files, $GENERATE incl. modifiers and nested ones, optional text damage or one planted bad token) parsed fault-free and again under injected faults (read error at an octet of a file, on the n-th open; open error kinds; directory; short reads), with includes allowed or not, reader with or without ReadByte, various origins and default TTLs; plus include chains of 10/20/40 files, a self-including file, and ReadRR / ReadPrivateKey over a faulty reader. Non-trivial = something was parsed or an error was produced. Distinct = distinct digest of (record list hash, error class, fault outcome) of the run.",
		Assume: []string{
			"the 'all byte strings as zone text' dimension is only sampled through the generator's damage operators; what the simulation adds is behaviour over I/O-fault sequences and FS configurations",
			"under a read error the record or directive in progress is not judged (the lexer turns a read error into end-of-input plus a sticky error; the statement is read as not forbidding that)",
			"non-termination is detected by a 20 s real-time watchdog per parse (typical parse: microseconds)",
		},
	}
}

func init() {
	cfgs["C12"] = &propCfg{
		Workers: map[string]int{"pristine": 7, "instr": 5, "pristine-race": 2, "instr-race": 2},
		QuickS:  35, ThorS: 600,
		Real: []string{"Server (TCP on a simulated listener + UDP on a simulated PacketConn, same handler)", "serveTCPConn/readTCP, serveUDP/readPacketConn/serveUDPPacket, serveDNS, udpPool", "response.WriteMsg/Write", "Client.ExchangeWithConn / ExchangeWithConnContext", "Client.Exchange / ExchangeContext / Dial / DialContext (instrumented builds, socket seam)", "Conn.WriteMsg / Write / ReadMsg / ReadMsgHeader / Read", "Server.DecorateWriter / DecorateReader products", "Msg.Pack/Unpack"},
		Stub: stubCommon,
		Rule: "A run is either an 'exchange' scenario (1..8 concurrent clients over udp or tcp, 1..6 exchanges each on a reused connection, request and reply sizes from the boundary set {min,40,100,511..513,1231..1233,4095..4097,16383..16385,65534,65535}, handler variants normal/slow/wrong-ID/twice/silent/oversize/wrong-then-right, forged foreign-ID datagrams, drop/dup/delay, segmentation, short reads) or a 'framing' scenario (one writer using WriteMsg or Write, one reader using ReadMsg, ReadMsgHeader or Read, 1..5 messages incl. >65535, stream cut by EOF or RST at any octet, small receive windows), each under one seeded schedule. Non-trivial = at least one exchange or message was attempted. Distinct = distinct trace digest per build.",
		Assume: append([]string{
			"the harness's own Unpack of the octets that crossed the simulated wire is the reference for 'the request the client sent' / 'the reply the handler wrote' (trusts that decoding is a function of the octets, which is what cross-talk and aliasing would break; decoder correctness itself is C01)",
			"receive buffers are poisoned only after every delivered copy of a request has reached its handler and no later read has been issued into the same backing array",
		}, stubCommon...),
	}
}

func init() {
	cfgs["C14"] = &propCfg{
		Workers: map[string]int{"pristine": 6, "instr": 6, "pristine-race": 2, "instr-race": 2},
		QuickS:  30, ThorS: 600,
		Real: []string{"Server.serveUDP/serveTCPConn/serveDNS (header parse, accept policy switch, reject reply construction, MsgInvalidFunc reporting)", "DefaultMsgAcceptFunc", "ServeMux.Handle/HandleFunc/HandleRemove/ServeDNS/match, also through DefaultServeMux and the package-level Handle/HandleFunc/HandleRemove", "handleRefused, SetReply/SetRcode/SetRcodeFormatError", "Msg.Unpack/Pack"},
		Stub: stubCommon,
		Rule: "A run is either an 'admission' scenario (1..40 inbound packets from 1..3 Byzantine peers over UDP or TCP: valid queries of many shapes, every opcode, QR set, NOTIFY with an answer, IXFR with an authority record, 0..3 additional records, two questions, then truncation to any length, bit flips, section-count lies, compression-pointer rewrites, splices, header-only, trailing garbage, zero-length frames; default or random accept policy; datagram duplication; segmentation; yielding accept policy) or a 'mux' scenario (2..4 tasks issuing 4..36 Handle / HandleRemove / ServeDNS operations on one real ServeMux over a 3-label alphabet with mixed case, DS and non-DS types, handlers that park). Non-trivial = at least one packet was read by the server / one mux operation ran. Distinct = distinct trace digest per build.",
		Assume: append([]string{
			"whether the body of an accepted message 'decodes' is decided by the library's own Unpack on the same octets (decoder correctness is C01/C02); the accept decision, reply skeletons and routing are judged by independent models (oracle/server.go, oracle/wire.go)",
			"NSCOUNT = 1 under the default policy is not asserted either way (doc comment and code disagree)",
			"porcupine v1.3.0 decides linearizability of the mux history; a timeout (Unknown) is inconclusive and never reported",
		}, stubCommon...),
	}
}

func init() {
	cfgs["C15"] = &propCfg{
		Workers: map[string]int{"pristine": 9, "instr": 7},
		QuickS:  35, ThorS: 600,
		Real: []string{"Transfer.In (preset Conn; its own dial in the instrumented builds), inAxfr, inIxfr, Transfer.ReadMsg/WriteMsg", "Transfer.Out + Server + response.WriteMsg/TsigTimersOnly (sender 'out')", "TsigGenerateWithProvider / TsigVerifyWithProvider", "Conn.Read/Write framing", "Msg.Pack/Unpack"},
		Stub: append([]string{"sender 'scripted': a harness task that packs envelopes with Msg.Pack and signs them with the independent RFC 8945 signer (oracle/tsig.go)", "the middlebox: a harness task pair with its own frame parser"}, stubCommon...),
		Rule: "A run = one transfer session: AXFR, incremental IXFR with 1..3 difference sequences, AXFR-style IXFR or the single-SOA 'up to date' answer, 0..60 records, a composition of the record sequence into envelopes (one record per envelope, all in one, or random cuts), sender = real Server+Transfer.Out or scripted, with or without TSIG (five HMAC algorithms, mixed-case algorithm names, fudge 1..300), then either benign link behaviour (segmentation, short reads, delay) or faults: middlebox drop/dup/swap/bit-flip by region/ID rewrite/RCODE rewrite/un-sign/re-sign with another key/stall/delay across the fudge boundary, stream cut by EOF or RST at any octet, scripted non-SOA first record, error RCODE in any envelope, wrong ID, trailing envelope. Non-trivial = every run. Distinct = distinct trace digest per build.",
		Assume: append([]string{
			"the reference for 'what reached the receiver' is the harness's Unpack of the octets the middlebox forwarded; termination is judged by oracle/xfr.go, TSIG validity of each delivered envelope by oracle/tsig.go (independent of the library)",
			"delivered sequences outside what the RFCs define (closing SOA inside an envelope after duplication, NOTAUTH rcode, non-canonical key-name case) are not judged beyond termination, closure and no panic",
			"serial wrap-around is not exercised",
		}, stubCommon...),
	}
}

func init() {
	cfgs["C11"] = &propCfg{
		Workers: map[string]int{"pristine": 9, "instr": 4, "pristine-race": 3},
		QuickS:  30, ThorS: 600,
		Real: []string{"TsigGenerate / TsigGenerateWithProvider, TsigVerify / TsigVerifyWithProvider, tsigBuffer, stripTsig, tsigHMACProvider, tsigSecretProvider", "Client.ExchangeWithConn + Conn.WriteMsg/ReadMsg session state (tsigRequestMAC)", "Server + response.WriteMsg/TsigStatus session state", "Msg.SetTsig, Msg.Pack/Unpack", "(chains through Transfer.In/Out: exercised under C15 with the same oracle)"},
		Stub: append([]string{"the on-path attacker: a harness middlebox with its own frame parser", "bare-API runs have no transport: signer and verifier are two steps of one task under the fake clock"}, stubCommon...),
		Rule: "A run is either a 'bare' scenario (a chain of 1..8 generated messages signed with TsigGenerate under one of five HMAC algorithms with mixed-case names, with or without an initial request MAC, timers-only from the second message, signer clock skew; then 1..6 deliveries, each with a fault - bit flip in one of 15 named regions of the signed octets, un-sign, duplicated TSIG, truncation - or a wrong verifier argument - request MAC none/other/stale, timers-only flipped, other secret - and a verification instant now / fudge-1 / fudge / fudge+1 / far) or a 'session' scenario (1..4 exchanges of the real Client against the real Server over a simulated stream through a middlebox that flips bits by region, un-signs, re-signs with another key, duplicates and delays across the fudge boundary; connection reuse; server with the right key, another key or none). Non-trivial = at least one verification was judged. Distinct = distinct outcome-log digest (bare) / trace digest (session).",
		Assume: append([]string{
			"oracle/tsig.go is the reference: an independent implementation of the RFC 8945 digest and time window (cross-checked against the library on the happy path by a unit test in sim/oracle)",
			"not judged: alterations confined to octets RFC 8945 does not put under the MAC (TSIG CLASS/TTL/RDLENGTH/inner lengths; error and other-data of timers-only envelopes), non-canonical key-name case, truncated MACs, RCODE NOTAUTH, an unsigned reply to a signed query",
		}, stubCommon...),
	}
}
