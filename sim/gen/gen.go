// Package gen builds DNS messages from small JSON recipes so that scenarios
// stay explicit, replayable and shrinkable.
package gen

import (
	"fmt"
	"math/rand/v2"
	"net"
	"strings"

	"github.com/miekg/dns"
)

// Corpus is a set of records in presentation format covering the RR types;
// owners are given relative to a zone chosen by the recipe.
var corpusText = []string{
	"@ 3600 IN SOA ns1 hostmaster 2024010101 7200 3600 1209600 300",
	"@ 3600 IN NS ns1",
	"@ 3600 IN NS ns2.other-zone.example.",
	"@ 300 IN A 192.0.2.1",
	"@ 300 IN AAAA 2001:db8::1",
	"www 300 IN A 192.0.2.10",
	"www 300 IN AAAA 2001:db8::10",
	"ns1 3600 IN A 192.0.2.53",
	"mail 300 IN A 192.0.2.25",
	"@ 300 IN MX 10 mail",
	"@ 300 IN MX 20 backup.mail",
	"alias 300 IN CNAME www",
	"alias2 300 IN CNAME alias",
	"deep.alias 300 IN CNAME very.deep.name.under.www",
	"sub 300 IN DNAME sub.elsewhere.example.",
	"@ 300 IN TXT \"v=spf1 mx -all\"",
	"txt 300 IN TXT \"first string\" \"second string\" \"\"",
	"_sip._tcp 300 IN SRV 10 60 5060 sipserver",
	"_dns._udp 300 IN SRV 0 0 53 ns1",
	"4.3.2.1.in-addr 300 IN PTR www",
	"@ 300 IN CAA 0 issue \"ca.example.net\"",
	"@ 300 IN HINFO \"PC-Intel-700mhz\" \"Redhat Linux 7.1\"",
	"@ 300 IN RP hostmaster txt",
	"@ 300 IN AFSDB 1 afsdb",
	"@ 300 IN NAPTR 100 10 \"u\" \"E2U+sip\" \"!^.*$!sip:info@example.com!\" .",
	"@ 300 IN NAPTR 100 50 \"s\" \"http\" \"\" www",
	"@ 300 IN LOC 51 30 12.748 N 0 7 39.611 W 0.00m 1m 10000m 10m",
	"@ 300 IN SSHFP 1 1 BEEFDEADBEEFDEADBEEFDEADBEEFDEADBEEFDEAD",
	"_443._tcp.www 300 IN TLSA 3 1 1 D2ABDE240D7CD3EE6B4B28C54DF034B97983A1D16E8A410E4561CB106618E971",
	"@ 300 IN DS 60485 5 1 2BB183AF5F22588179A53B0A98631FAD1A292118",
	"@ 300 IN DNSKEY 256 3 8 AwEAAcNEU67LJI5GEgF9QLNqLO1SMq1EdoQ6E9f85ha0k0ewQGCblyW2836GiVsm6k8Kr5ECIoMJ6fZWf3CQSQ9ycWfTyOHfmI3eQ/1Covhb2y4bAmL/07PhrL7ozWBW3wBfM335Ft9xjtXHPy7ztCbV9qZ4TVDTW/Iyg0PiwgoXVesz",
	"@ 300 IN RRSIG A 8 2 300 20300101000000 20200101000000 12345 @ AAECAwQFBgcICQoLDA0ODw==",
	"@ 300 IN NSEC www A NS SOA MX TXT AAAA RRSIG NSEC DNSKEY",
	"@ 300 IN NSEC3PARAM 1 0 10 AABBCCDD",
	"0p9mhaveqvm6t7vbl5lop2u3t2rp3tom 300 IN NSEC3 1 1 12 AABBCCDD 2T7B4G4VSA5SMI47K61MV5BV1A22BOJR A RRSIG",
	"@ 300 IN SPF \"v=spf1 -all\"",
	"@ 300 IN URI 10 1 \"https://www.example.org/\"",
	"@ 300 IN SVCB 1 svc alpn=h2,h3 port=8443 ipv4hint=192.0.2.1",
	"@ 300 IN HTTPS 1 . alpn=h2",
	"@ 300 IN KX 10 kx",
	"@ 300 IN CERT PKIX 12345 RSASHA256 AAECAwQFBgc=",
	"@ 300 IN OPENPGPKEY AAECAwQFBgc=",
	"@ 300 IN SMIMEA 3 0 0 AABBCCDDEEFF",
	"@ 300 IN CDS 60485 5 1 2BB183AF5F22588179A53B0A98631FAD1A292118",
	"@ 300 IN CDNSKEY 256 3 8 AwEAAcNEU67LJI5GEgF9QLNqLO1SMq1EdoQ6E9f85ha0k0ewQGCblyW2836GiVsm6k8Kr5ECIoMJ6fZWf3CQSQ9ycWfTyOHfmI3eQ/1Covhb2y4bAmL/07PhrL7ozWBW3wBfM335Ft9xjtXHPy7ztCbV9qZ4TVDTW/Iyg0PiwgoXVesz",
	"@ 300 IN CSYNC 66 3 A NS AAAA",
	"@ 300 IN ZONEMD 2018031500 1 1 FEBE3D4CE2EC2FFA4BA99D46CD69D6D29711E55217057BEE7EB1A7B641A47BA7FED2DD5B97AE499FAFA4F22C6BD647DE",
	"@ 300 IN EUI48 00-00-5e-00-53-2a",
	"@ 300 IN EUI64 00-00-5e-ef-10-00-00-2a",
	"@ 300 IN NID 10 0014:4fff:ff20:ee64",
	"@ 300 IN L32 10 10.1.2.0",
	"@ 300 IN L64 10 2001:0DB8:1140:1000",
	"@ 300 IN LP 10 l64-subnet",
	"@ 300 IN APL 1:192.168.32.0/21 !1:192.168.38.0/28",
	"@ 300 IN DHCID AAIBY2/AuCccgoJbsaxcQc9TUapptP69lOjxfNuVAA2kjEA=",
	"@ 300 IN TALINK talink1 talink2",
	"@ 300 IN MB mb-host",
	"@ 300 IN MG mg-host",
	"@ 300 IN MR mr-host",
	"@ 300 IN MINFO rmail email",
	"@ 300 IN PX 10 map822 mapx400",
	"@ 300 IN RT 10 rt-host",
	"@ 300 IN X25 311061700956",
	"@ 300 IN ISDN \"150862028003217\" \"004\"",
	"@ 300 IN GPOS 32.6882 116.8652 10.0",
	"@ 300 IN AVC \"app-name:WOLFGANG|app-class:OAM\"",
	"@ 300 IN TYPE65280 \\# 4 0a000001",
	"@ 300 CH TXT \"chaos class\"",
	"*.wild 300 IN A 192.0.2.99",
	"UPPER.Case 300 IN A 192.0.2.77",
	"a.very.long.chain.of.labels.to.exercise.compression.pointers 300 IN A 192.0.2.88",
	"x\\046y.escaped 300 IN TXT \"dot in label\"",
}

var Zones = []string{"example.org.", "sub.example.org.", "other.example.", "x.", "."}

type parsed struct {
	rel  string // relative owner ("@" for the apex)
	text string // rest of the line
}

var corpus []parsed

func init() {
	for _, l := range corpusText {
		i := strings.IndexByte(l, ' ')
		corpus = append(corpus, parsed{l[:i], l[i+1:]})
		if _, err := rrFor(len(corpus)-1, "example.org."); err != nil {
			panic(fmt.Sprintf("corpus line %q: %v", l, err))
		}
	}
}

func CorpusLen() int { return len(corpus) }

func rrFor(i int, zone string) (dns.RR, error) {
	p := corpus[i%len(corpus)]
	owner := p.rel
	if owner == "@" {
		owner = zone
	} else if zone == "." {
		owner += "."
	} else {
		owner += "." + zone
	}
	zp := dns.NewZoneParser(strings.NewReader(owner+" "+p.text+"\n"), zone, "")
	rr, ok := zp.Next()
	if !ok || rr == nil {
		if err := zp.Err(); err != nil {
			return nil, err
		}
		return nil, fmt.Errorf("no record")
	}
	return rr, nil
}

// RRRef names one record of a message: a corpus line under a zone.
type RRRef struct {
	I int    `json:"i"`
	Z int    `json:"z,omitempty"` // index into Zones
	T uint32 `json:"ttl,omitempty"`
}

// Recipe describes a message.
type Recipe struct {
	ID       uint16  `json:"id,omitempty"`
	Opcode   int     `json:"opcode,omitempty"`
	Response bool    `json:"qr,omitempty"`
	Flags    int     `json:"flags,omitempty"` // bit0 AA, 1 TC, 2 RD, 3 RA, 4 AD, 5 CD
	Rcode    int     `json:"rcode,omitempty"`
	QName    string  `json:"qname,omitempty"`
	QType    uint16  `json:"qtype,omitempty"`
	NoQ      bool    `json:"noq,omitempty"`
	Answer   []RRRef `json:"an,omitempty"`
	Ns       []RRRef `json:"ns,omitempty"`
	Extra    []RRRef `json:"ar,omitempty"`
	EDNS     int     `json:"edns,omitempty"`  // UDP size of an OPT record, 0 = none
	EOpts    int     `json:"eopts,omitempty"` // options carried by that OPT record: bit 0 a local option with data, 1 client subnet, 2 padding, 3 cookie
	Compress bool    `json:"compress,omitempty"`
	Pad      int     `json:"pad,omitempty"`      // extra TXT octets appended to the answer section
	Token    string  `json:"token,omitempty"`    // unique TXT marker appended to the additional section
	LongName int     `json:"longname,omitempty"` // wire length (up to 255) of the owner name of an extra A record at the head of the answer section
}

// NameOfWireLen returns a fully qualified name whose wire form has exactly n
// octets (root included), n in 3..255, made of labels of at most 63 octets.
func NameOfWireLen(n int) string {
	if n < 3 {
		n = 3
	}
	if n > 255 {
		n = 255
	}
	left := n - 1 // without the root
	var sb strings.Builder
	for i := 0; left > 0; i++ {
		l := min(left-1, 63)
		if rem := left - (l + 1); rem == 1 {
			l-- // never leave room for only a length octet
		}
		sb.WriteString(strings.Repeat(string(rune('a'+i%26)), l))
		sb.WriteByte('.')
		left -= l + 1
	}
	return sb.String()
}

func refs(out *[]dns.RR, rs []RRRef) {
	for _, r := range rs {
		rr, err := rrFor(r.I, Zones[r.Z%len(Zones)])
		if err != nil {
			continue
		}
		if r.T != 0 {
			rr.Header().Ttl = r.T
		}
		*out = append(*out, rr)
	}
}

// Build makes the message.
func (r *Recipe) Build() *dns.Msg {
	m := new(dns.Msg)
	m.Id = r.ID
	m.Opcode = r.Opcode
	m.Response = r.Response
	m.Authoritative = r.Flags&1 != 0
	m.Truncated = r.Flags&2 != 0
	m.RecursionDesired = r.Flags&4 != 0
	m.RecursionAvailable = r.Flags&8 != 0
	m.AuthenticatedData = r.Flags&16 != 0
	m.CheckingDisabled = r.Flags&32 != 0
	m.Rcode = r.Rcode
	m.Compress = r.Compress
	if !r.NoQ {
		qn := r.QName
		if qn == "" {
			qn = "example.org."
		}
		qt := r.QType
		if qt == 0 {
			qt = dns.TypeA
		}
		m.Question = []dns.Question{{Name: qn, Qtype: qt, Qclass: dns.ClassINET}}
	}
	if r.LongName > 0 {
		m.Answer = append(m.Answer, &dns.A{Hdr: dns.RR_Header{Name: NameOfWireLen(r.LongName), Rrtype: dns.TypeA, Class: dns.ClassINET, Ttl: 60}, A: []byte{192, 0, 2, 255}})
	}
	refs(&m.Answer, r.Answer)
	refs(&m.Ns, r.Ns)
	refs(&m.Extra, r.Extra)
	for pad := r.Pad; pad > 0; {
		n := pad
		if n > 200 {
			n = 200
		}
		pad -= n
		m.Answer = append(m.Answer, &dns.TXT{Hdr: dns.RR_Header{Name: "pad.example.org.", Rrtype: dns.TypeTXT, Class: dns.ClassINET, Ttl: 1}, Txt: []string{strings.Repeat("p", n)}})
	}
	if r.Token != "" {
		m.Extra = append(m.Extra, &dns.TXT{Hdr: dns.RR_Header{Name: "token.example.org.", Rrtype: dns.TypeTXT, Class: dns.ClassINET, Ttl: 1}, Txt: []string{r.Token}})
	}
	if r.EDNS > 0 {
		o := &dns.OPT{Hdr: dns.RR_Header{Name: ".", Rrtype: dns.TypeOPT}}
		o.SetUDPSize(uint16(r.EDNS))
		// options whose values are octet strings and addresses: what a decoder is tempted to leave pointing into its input
		if r.EOpts&1 != 0 {
			o.Option = append(o.Option, &dns.EDNS0_LOCAL{Code: 65001, Data: []byte("local-option-data-" + r.Token + "-0123456789abcdef")})
		}
		if r.EOpts&2 != 0 {
			o.Option = append(o.Option, &dns.EDNS0_SUBNET{Code: dns.EDNS0SUBNET, Family: 1, SourceNetmask: 24, Address: net.IP{198, 51, 100, 0}.To4()})
		}
		if r.EOpts&4 != 0 {
			o.Option = append(o.Option, &dns.EDNS0_PADDING{Padding: make([]byte, 21)})
		}
		if r.EOpts&8 != 0 {
			o.Option = append(o.Option, &dns.EDNS0_COOKIE{Code: dns.EDNS0COOKIE, Cookie: "24a5ac1122334455"})
		}
		m.Extra = append(m.Extra, o)
	}
	return m
}

// Random draws a recipe. size steers the number of records.
func Random(r *rand.Rand, size int) *Recipe {
	rc := &Recipe{ID: uint16(r.IntN(65536)), Compress: r.IntN(2) == 0}
	rc.QName = []string{"example.org.", "www.example.org.", "WwW.Example.ORG.", "sub.example.org.", "x.", ".", "a.b.c.d.e.f.example.org."}[r.IntN(7)]
	rc.QType = []uint16{dns.TypeA, dns.TypeAAAA, dns.TypeMX, dns.TypeSOA, dns.TypeANY, dns.TypeTXT, dns.TypeNS, dns.TypeDS}[r.IntN(8)]
	if r.IntN(4) == 0 {
		rc.Response = true
		rc.Flags = r.IntN(64)
		rc.Rcode = []int{0, 0, 0, 2, 3, 5}[r.IntN(6)]
	} else {
		rc.Flags = r.IntN(64) &^ (1 | 8)
	}
	n := func() int {
		if size <= 0 {
			return 0
		}
		switch r.IntN(4) {
		case 0:
			return 0
		case 1:
			return 1
		}
		return r.IntN(size + 1)
	}
	mk := func(k int) []RRRef {
		var out []RRRef
		z := r.IntN(len(Zones))
		for i := 0; i < k; i++ {
			if r.IntN(5) == 0 {
				z = r.IntN(len(Zones))
			}
			out = append(out, RRRef{I: r.IntN(len(corpus)), Z: z})
		}
		return out
	}
	rc.Answer, rc.Ns, rc.Extra = mk(n()), mk(n()), mk(n())
	if r.IntN(3) == 0 {
		rc.EDNS = []int{512, 1232, 4096}[r.IntN(3)]
		if r.IntN(2) == 0 {
			rc.EOpts = 1 + r.IntN(15)
		}
	}
	// names at the 255-octet limit, in the question or as an owner
	switch r.IntN(24) {
	case 0:
		rc.QName = NameOfWireLen([]int{255, 255, 254, 253}[r.IntN(4)])
	case 1:
		rc.LongName = []int{255, 255, 254, 200}[r.IntN(4)]
	}
	return rc
}
