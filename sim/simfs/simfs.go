// Package simfs is the simulated disk of the zone-parser checks: an in-memory
// fs.FS and io.Reader with injected open errors, read errors at a chosen
// octet, short reads, directories, and bookkeeping of opens, closes, nesting
// and octets handed out.
package simfs

import (
	"errors"
	"fmt"
	"io"
	"io/fs"
	"math/rand/v2"
	"time"
)

var (
	ErrInjected = errors.New("simfs: injected read error")
	ErrEMFILE   = errors.New("simfs: too many open files")
	ErrIsDir    = errors.New("simfs: is a directory")
	ErrBackend  = errors.New("simfs: storage backend unavailable")
	ErrWrapsEOF = fmt.Errorf("simfs: stream reset by peer: %w", io.EOF)
	ErrDeadline = deadlineErr{}
	ErrStale    = errors.New("stale file handle")
)

type Fault struct {
	File string `json:"file"`
	Kind string `json:"kind"`           // readerr | notexist | perm | emfile | dir
	At   int    `json:"at,omitempty"`   // readerr: octets delivered before the error
	Nth  int    `json:"nth,omitempty"`  // apply to the n-th open of the file (0 = every open)
	Temp bool   `json:"temp,omitempty"` // readerr: the error says it is temporary and a timeout (an expired read deadline) - and it is there again on every further read
	Wrap bool   `json:"wrap,omitempty"` // readerr: the error wraps io.EOF ("connection reset: EOF"): a broken stream, not the end of the text
	Once bool   `json:"once,omitempty"` // readerr: the read fails once (a transient error), the next one carries on with the rest of the file
}

// deadlineErr looks like an expired read deadline: Timeout() and Temporary() are true.
type deadlineErr struct{}

func (deadlineErr) Error() string   { return "simfs: read: i/o timeout" }
func (deadlineErr) Timeout() bool   { return true }
func (deadlineErr) Temporary() bool { return true }

type FS struct {
	Files     map[string][]byte
	Faults    []Fault
	ShortRead int // percent of reads cut short
	Rng       *rand.Rand

	Opens       int
	OpenFails   int
	Closes      int
	Nest        int // currently open
	MaxNest     int
	BytesOut    int
	Reads       int
	Fired       map[string]int // fault kind -> times it actually took effect
	OpenCount   map[string]int
	OpenedLog   []string
	DoubleClose int

	// Hook, when set, is called at the start of every Open and Read: under a scheduler the disk is a
	// place where the caller can lose the processor to another task.
	Hook func(site string)
}

func New(files map[string][]byte, faults []Fault, short int, rng *rand.Rand) *FS {
	return &FS{Files: files, Faults: faults, ShortRead: short, Rng: rng, Fired: map[string]int{}, OpenCount: map[string]int{}}
}

func (f *FS) Open(name string) (fs.File, error) {
	if f.Hook != nil {
		f.Hook("fs.open")
	}
	f.Opens++
	f.OpenCount[name]++
	if len(f.OpenedLog) < 64 {
		f.OpenedLog = append(f.OpenedLog, name)
	}
	nth := f.OpenCount[name]
	readErrAt, eof, once, wrap, temp := -1, false, false, false, false
	zeroAt, statErr, closeErr := -1, false, false
	for _, ft := range f.Faults {
		if ft.File != name || (ft.Nth != 0 && ft.Nth != nth) {
			continue
		}
		switch ft.Kind {
		case "plainerr":
			// an fs.FS is free to return any error, not only *fs.PathError
			f.Fired["open_plain_error"]++
			f.OpenFails++
			return nil, ErrBackend
		case "wrappederr":
			f.Fired["open_wrapped_error"]++
			f.OpenFails++
			return nil, fmt.Errorf("simfs: open %s: %w", name, &fs.PathError{Op: "open", Path: name, Err: fs.ErrPermission})
		case "notexist":
			f.Fired["open_notexist"]++
			f.OpenFails++
			return nil, &fs.PathError{Op: "open", Path: name, Err: fs.ErrNotExist}
		case "perm":
			f.Fired["open_permission"]++
			f.OpenFails++
			return nil, &fs.PathError{Op: "open", Path: name, Err: fs.ErrPermission}
		case "emfile":
			f.Fired["open_emfile"]++
			f.OpenFails++
			return nil, &fs.PathError{Op: "open", Path: name, Err: ErrEMFILE}
		case "dir":
			f.Fired["open_directory"]++
			f.Nest++
			if f.Nest > f.MaxNest {
				f.MaxNest = f.Nest
			}
			return &file{fs: f, name: name, dir: true}, nil
		case "readerr":
			readErrAt, once, wrap, temp = ft.At, ft.Once, ft.Wrap, ft.Temp
		case "eofat":
			readErrAt, eof = ft.At, true
		case "zeroread":
			zeroAt = ft.At
		case "closeerr":
			closeErr = true // closing the file reports an error (it is closed all the same)
		case "staterr":
			statErr = true // the file opens and reads; asking about it fails (a stale handle, an I/O error on the inode)
		}
	}
	data, ok := f.Files[name]
	if !ok {
		f.OpenFails++
		f.Fired["open_missing"]++
		return nil, &fs.PathError{Op: "open", Path: name, Err: fs.ErrNotExist}
	}
	f.Nest++
	if f.Nest > f.MaxNest {
		f.MaxNest = f.Nest
	}
	return &file{fs: f, name: name, data: data, errAt: readErrAt, eofOnly: eof, once: once, wrap: wrap, temp: temp, zeroAt: zeroAt, statErr: statErr, closeErr: closeErr}, nil
}

type file struct {
	fs       *FS
	name     string
	data     []byte
	off      int
	errAt    int
	dir      bool
	closed   bool
	failed   bool
	eofOnly  bool // end the file at errAt without an error (reference runs)
	once     bool // the read error is transient: returned once, then the file carries on
	wrap     bool // the read error wraps io.EOF
	temp     bool // the read error is a timeout that says it is temporary
	zeroAt   int  // >= 0: the first Read issued at or beyond this offset returns 0, nil
	statErr  bool // Stat fails
	closeErr bool // Close reports an error (the file is closed all the same)
}

func (x *file) Stat() (fs.FileInfo, error) {
	if x.statErr {
		x.fs.Fired["stat_error"]++
		return nil, &fs.PathError{Op: "stat", Path: x.name, Err: ErrStale}
	}
	return info{x.name, int64(len(x.data)), x.dir}, nil
}

func (x *file) Read(p []byte) (int, error) {
	f := x.fs
	if f.Hook != nil {
		f.Hook("fs.read")
	}
	f.Reads++
	if x.closed {
		f.Fired["read_after_close"]++
		return 0, fs.ErrClosed
	}
	if x.dir {
		f.Fired["read_directory"]++
		return 0, &fs.PathError{Op: "read", Path: x.name, Err: ErrIsDir}
	}
	if len(p) == 0 {
		return 0, nil
	}
	if x.zeroAt >= 0 && x.off >= x.zeroAt {
		x.zeroAt = -1
		f.Fired["zero_read"]++
		return 0, nil
	}
	lim := len(x.data)
	if x.errAt >= 0 && x.errAt < lim && !(x.once && x.failed) {
		lim = x.errAt
	}
	if x.off >= lim {
		if x.errAt >= 0 && x.errAt <= len(x.data) && !x.eofOnly && !(x.once && x.failed) {
			x.failed = true
			f.Fired["read_error"]++
			if x.wrap {
				f.Fired["read_error_wrapping_eof"]++
				return 0, ErrWrapsEOF
			}
			if x.temp {
				f.Fired["read_error_temporary"]++
				return 0, ErrDeadline
			}
			return 0, ErrInjected
		}
		return 0, io.EOF
	}
	n := lim - x.off
	if n > len(p) {
		n = len(p)
	}
	if n > 1 && f.ShortRead > 0 && f.Rng.IntN(100) < f.ShortRead {
		n = 1 + f.Rng.IntN(n-1)
		f.Fired["short_read"]++
	}
	copy(p, x.data[x.off:x.off+n])
	x.off += n
	f.BytesOut += n
	return n, nil
}

func (x *file) Close() error {
	if x.closed {
		x.fs.DoubleClose++
		return fs.ErrClosed
	}
	x.closed = true
	x.fs.Closes++
	x.fs.Nest--
	if x.closeErr {
		x.fs.Fired["close_error"]++
		return &fs.PathError{Op: "close", Path: x.name, Err: ErrStale}
	}
	return nil
}

type info struct {
	name string
	size int64
	dir  bool
}

func (i info) Name() string { return i.name }
func (i info) Size() int64  { return i.size }
func (i info) Mode() fs.FileMode {
	if i.dir {
		return fs.ModeDir | 0o755
	}
	return 0o644
}
func (i info) ModTime() time.Time { return time.Time{} }
func (i info) IsDir() bool        { return i.dir }
func (i info) Sys() any           { return nil }

// Reader is the top-level input with the same faults; it deliberately does
// not implement io.Closer.
type Reader struct{ f *file }

func (f *FS) Reader(name string, data []byte) *Reader {
	errAt, eof, once, wrap, temp := -1, false, false, false, false
	zeroAt := -1
	for _, ft := range f.Faults {
		if ft.File == name && ft.Kind == "zeroread" {
			zeroAt = ft.At
		}
		if ft.File == name && ft.Kind == "readerr" {
			errAt, once, wrap, temp = ft.At, ft.Once, ft.Wrap, ft.Temp
		}
		if ft.File == name && ft.Kind == "eofat" {
			errAt, eof = ft.At, true
		}
	}
	return &Reader{&file{fs: f, name: name, data: data, errAt: errAt, eofOnly: eof, once: once, wrap: wrap, temp: temp, zeroAt: zeroAt}}
}

func (r *Reader) Read(p []byte) (int, error) { return r.f.Read(p) }

// Failed reports whether the injected read error was actually returned.
func (r *Reader) Failed() bool { return r.f.failed }

// ByteReader is Reader plus ReadByte, which the lexer then uses directly
// (no bufio in between).
type ByteReader struct{ *Reader }

func (r ByteReader) ReadByte() (byte, error) {
	var b [1]byte
	for {
		n, err := r.f.Read(b[:])
		if n == 1 {
			return b[0], nil
		}
		if err != nil {
			return 0, err
		}
		// a Read that returned nothing and no error: ask again
	}
}
