module verifsim

go 1.25.0

require (
	github.com/anishathalye/porcupine v1.3.0
	github.com/miekg/dns v0.0.0
	golang.org/x/net v0.55.0
)

require (
	golang.org/x/sync v0.20.0 // indirect
	golang.org/x/sys v0.45.0 // indirect
)

replace github.com/miekg/dns => /repo
