// The worker binary: a test binary (synctest needs a *testing.T) that runs
// simulated runs on request of the driver.
package worker

import (
	"bufio"
	"encoding/binary"
	"encoding/json"
	"fmt"
	"os"
	"sort"
	"strings"
	"sync/atomic"
	"testing"
	"time"

	"verifsim/core"
	"verifsim/hook"
	"verifsim/kernel"
	_ "verifsim/props/all"
	"verifsim/props/common"
)

type cmd struct {
	Op       string          `json:"op"` // range | run | seeds
	Prop     string          `json:"prop"`
	Tier     string          `json:"tier"`
	Base     uint64          `json:"base"`   // driver seed
	From     uint64          `json:"from"`   // first index
	Stride   uint64          `json:"stride"` // index step
	Max      uint64          `json:"max"`    // stop after this many runs (0 = none)
	UntilMS  int64           `json:"until_ms"`
	Seeds    []uint64        `json:"seeds"`
	Scenario json.RawMessage `json:"scenario"`
	Verbose  bool            `json:"verbose"`
	Samples  int             `json:"samples"`
	Explicit bool            `json:"explicit"` // run: take the schedule from Picks instead of drawing it
	Picks    []uint16        `json:"picks"`
}

type aggregate struct {
	Kind       string         `json:"kind"` // "aggregate"
	Runs       int            `json:"runs"`
	Nontrivial int            `json:"nontrivial"`
	Steps      int64          `json:"steps"`
	SimS       float64        `json:"sim_s"`
	Stats      map[string]int `json:"stats"`
	Classes    map[string]int `json:"classes"`
	Strategies map[string]int `json:"strategies,omitempty"`
	DigestFile string         `json:"digest_file"`
	Digests    int            `json:"digests"`
	FirstIdx   uint64         `json:"first_idx"`
	LastIdx    uint64         `json:"last_idx"`
	Harness    int            `json:"harness"`
	HarnessMsg string         `json:"harness_msg,omitempty"`
	RaceNoise  int            `json:"race_noise"`
	Pairs      []string       `json:"pairs,omitempty"`
	WallMS     int64          `json:"wall_ms"`
	Mode       string         `json:"mode"`
	Race       bool           `json:"race"`
}

type out struct {
	w *bufio.Writer
}

func (o *out) emit(v any) {
	b, _ := json.Marshal(v)
	o.w.Write(b)
	o.w.WriteByte('\n')
	o.w.Flush()
}

func TestWorker(t *testing.T) {
	outPath := os.Getenv("VERIF_OUT")
	if outPath == "" {
		t.Skip("not started by the driver")
	}
	f, err := os.Create(outPath)
	if err != nil {
		t.Fatal(err)
	}
	defer f.Close()
	o := &out{w: bufio.NewWriter(f)}
	var journal *os.File
	if jp := os.Getenv("VERIF_JOURNAL"); jp != "" {
		journal, _ = os.Create(jp)
	}
	races := newRaceLog(os.Getenv("VERIF_RACELOG"))
	hangOut = o
	go watchdog()
	in := bufio.NewScanner(os.Stdin)
	in.Buffer(make([]byte, 1<<20), 64<<20)
	for in.Scan() {
		var c cmd
		if err := json.Unmarshal(in.Bytes(), &c); err != nil {
			o.emit(map[string]any{"kind": "error", "msg": err.Error()})
			continue
		}
		p := core.Registry[c.Prop]
		if p == nil {
			o.emit(map[string]any{"kind": "error", "msg": "unknown property " + c.Prop})
			continue
		}
		switch c.Op {
		case "run":
			sc, err := p.Decode(c.Scenario)
			if err != nil {
				o.emit(map[string]any{"kind": "error", "msg": err.Error()})
				continue
			}
			kernel.Made, kernel.Last, kernel.ForceNext = 0, nil, nil
			if c.Explicit {
				kernel.ForceNext = &kernel.Schedule{Picks: c.Picks}
			}
			res := runOne(t, p, sc, c.Verbose, races)
			kernel.ForceNext = nil
			res.Scenario = c.Scenario
			res.Kernels = kernel.Made
			if k := kernel.Last; k != nil && kernel.Made == 1 {
				res.Diverged = k.Diverged
				res.Picks = make([]uint16, len(k.Choices))
				for i, ch := range k.Choices {
					res.Picks[i] = ch + 1
				}
			}
			o.emit(map[string]any{"kind": "result", "result": res})
		case "seeds":
			for _, s := range c.Seeds {
				sc := p.Gen(s, c.Tier)
				res := runOne(t, p, sc, c.Verbose, races)
				raw, _ := json.Marshal(sc)
				res.Scenario = raw
				if !c.Verbose {
					res.Log = nil
				}
				o.emit(map[string]any{"kind": "result", "result": res})
			}
		case "range":
			runRange(t, p, &c, o, journal, races)
		}
		o.emit(map[string]any{"kind": "done"})
	}
}

// progress is bumped around every run; the watchdog goroutine ends the
// process when a run makes no progress in real time (a library lock that is
// never released blocks the bubble for good: synctest cannot see through a
// sync.Mutex).
var (
	progress  atomic.Int64
	inRun     atomic.Bool
	curSeed   atomic.Uint64
	hangOut   *out
	hangLimit = 25 * time.Second
)

func watchdog() {
	last, since := int64(-1), time.Now()
	for {
		time.Sleep(500 * time.Millisecond)
		p := progress.Load()
		if p != last || !inRun.Load() {
			last, since = p, time.Now()
			continue
		}
		if time.Since(since) > hangLimit && hangOut != nil {
			stacks := common.BubbleStacksAll()
			if (strings.Contains(stacks, "[runnable") || strings.Contains(stacks, "[running")) && time.Since(since) < 3*hangLimit {
				// somebody in the bubble can run or is running: the machine is busy (other batches, the
				// collector), nothing is stuck - a goroutine blocked on a lock would say so. Give it longer.
				continue
			}
			hangOut.emit(map[string]any{"kind": "hang", "seed": curSeed.Load(), "stacks": stacks})
			os.Exit(3)
		}
	}
}

func runOne(t *testing.T, p *core.Prop, sc any, verbose bool, races *raceLog) *core.Result {
	inRun.Store(true)
	progress.Add(1)
	defer func() { progress.Add(1); inRun.Store(false) }()
	before := kernel.RaceErrors()
	hook.ResetRun()
	res := p.Run(t, sc, verbose)
	if kernel.RaceErrors() != before {
		lib, noise := races.collect()
		if len(lib) > 0 {
			res.Races = lib
			res.Fail("S8", "data-race:"+raceSig(lib[0]), "data race in the library under a serialised schedule:\n%s", lib[0])
		}
		res.Add("harness.race_noise", noise)
	}
	return res
}

func runRange(t *testing.T, p *core.Prop, c *cmd, o *out, journal *os.File, races *raceLog) {
	t0 := time.Now()
	agg := &aggregate{Kind: "aggregate", Stats: map[string]int{}, Classes: map[string]int{}, Mode: core.Mode, Race: kernel.RaceBuild, FirstIdx: c.From}
	digests := map[uint64]struct{}{}
	kernel.PairSink = map[string]struct{}{}
	stride := c.Stride
	if stride == 0 {
		stride = 1
	}
	var jb [8]byte
	samples := 0
	for idx := c.From; ; idx += stride {
		if c.Max > 0 && uint64(agg.Runs) >= c.Max {
			break
		}
		if c.UntilMS > 0 && time.Now().UnixMilli() >= c.UntilMS {
			break
		}
		seed := core.Mix(c.Base, idx)
		if journal != nil {
			binary.LittleEndian.PutUint64(jb[:], seed)
			journal.WriteAt(jb[:], 0)
		}
		sc := p.Gen(seed, c.Tier)
		curSeed.Store(seed)
		res := runOne(t, p, sc, false, races)
		agg.Runs++
		agg.LastIdx = idx
		agg.Steps += int64(res.Steps)
		agg.SimS += float64(res.SimNS) / 1e9
		for k, v := range res.Stats {
			agg.Stats[k] += v
		}
		switch res.Verdict {
		case core.Violation:
			raw, _ := json.Marshal(sc)
			res.Scenario = raw
			o.emit(map[string]any{"kind": "violation", "result": res})
		case core.Harness:
			agg.Harness++
			if agg.HarnessMsg == "" {
				agg.HarnessMsg = fmt.Sprintf("seed %d: %s", seed, res.Msg)
			}
		}
		if core.Abandon {
			o.emit(map[string]any{"kind": "abandon", "seed": seed, "idx": idx})
			os.Exit(0)
		}
		if res.Nontrivial {
			agg.Nontrivial++
			digests[res.Digest] = struct{}{}
			agg.Classes[res.Class]++
			for _, c := range res.Classes {
				agg.Classes[c]++
			}
			if samples < c.Samples && res.Verdict == core.OK {
				samples++
				v := runOne(t, p, p.Gen(seed, c.Tier), true, races)
				raw, _ := json.Marshal(sc)
				if len(v.Log) > 60 {
					v.Log = append(v.Log[:60], fmt.Sprintf("... %d more lines", len(v.Log)-60))
				}
				o.emit(map[string]any{"kind": "sample", "seed": seed, "scenario": json.RawMessage(raw), "class": v.Class, "steps": v.Steps, "log": v.Log, "same_digest": v.Digest == res.Digest})
			}
		}
	}
	if journal != nil {
		binary.LittleEndian.PutUint64(jb[:], 0)
		journal.WriteAt(jb[:], 0)
	}
	agg.Digests = len(digests)
	agg.DigestFile = os.Getenv("VERIF_OUT") + ".digests"
	df, err := os.Create(agg.DigestFile)
	if err == nil {
		w := bufio.NewWriter(df)
		for d := range digests {
			binary.LittleEndian.PutUint64(jb[:], d)
			w.Write(jb[:])
		}
		w.Flush()
		df.Close()
	}
	for p := range kernel.PairSink {
		agg.Pairs = append(agg.Pairs, p)
	}
	agg.RaceNoise = agg.Stats["harness.race_noise"]
	agg.WallMS = time.Since(t0).Milliseconds()
	o.emit(agg)
}

// ---------------------------------------------------------------- race log

// raceLog reads the race detector's report file incrementally and separates
// reports about the library from reports that involve simulator memory.
type raceLog struct {
	path string
	off  int64
}

func newRaceLog(prefix string) *raceLog {
	if prefix == "" {
		return &raceLog{}
	}
	return &raceLog{path: fmt.Sprintf("%s.%d", prefix, os.Getpid())}
}

func (r *raceLog) collect() (lib []string, noise int) {
	if r.path == "" {
		return nil, 0
	}
	f, err := os.Open(r.path)
	if err != nil {
		return nil, 0
	}
	defer f.Close()
	f.Seek(r.off, 0)
	var sb strings.Builder
	buf := make([]byte, 1<<16)
	for {
		n, err := f.Read(buf)
		sb.Write(buf[:n])
		r.off += int64(n)
		if err != nil {
			break
		}
	}
	for _, rep := range strings.Split(sb.String(), "==================") {
		if !strings.Contains(rep, "WARNING: DATA RACE") {
			continue
		}
		if libraryRace(rep) {
			lib = append(lib, strings.TrimSpace(rep))
		} else {
			noise++
		}
	}
	return
}

// libraryRace reports whether both accesses of a race report were made by
// code of package dns (the first frame of each access stack that belongs to
// either the library or the simulator decides who owns the access).
func libraryRace(rep string) bool {
	owners := 0
	blocks := strings.Split(rep, "\n\n")
	n := 0
	for _, b := range blocks {
		t := strings.TrimSpace(b)
		if !(strings.HasPrefix(t, "WARNING: DATA RACE") || strings.HasPrefix(t, "Previous ") || strings.HasPrefix(t, "Read at") || strings.HasPrefix(t, "Write at")) {
			continue
		}
		n++
		for _, ln := range strings.Split(t, "\n") {
			ln = strings.TrimSpace(ln)
			if strings.HasPrefix(ln, "github.com/miekg/dns.") {
				owners++
				break
			}
			if strings.HasPrefix(ln, "verifsim/") {
				break
			}
		}
		if n == 2 {
			break
		}
	}
	return n == 2 && owners == 2
}

func raceSig(rep string) string {
	var fr []string
	for _, b := range strings.Split(rep, "\n\n") {
		t := strings.TrimSpace(b)
		if !(strings.HasPrefix(t, "WARNING: DATA RACE") || strings.HasPrefix(t, "Previous ") || strings.HasPrefix(t, "Read at") || strings.HasPrefix(t, "Write at")) {
			continue
		}
		for _, ln := range strings.Split(t, "\n") {
			ln = strings.TrimSpace(ln)
			if strings.HasPrefix(ln, "github.com/miekg/dns.") {
				if i := strings.Index(ln, "("); i > 0 && !strings.HasPrefix(ln[i:], "(*") {
					ln = ln[:i]
				} else if j := strings.LastIndex(ln, "("); j > 0 {
					ln = ln[:j]
				}
				fr = append(fr, strings.TrimPrefix(ln, "github.com/miekg/dns."))
				break
			}
		}
		if len(fr) == 2 {
			break
		}
	}
	sort.Strings(fr)
	return strings.Join(fr, "|")
}
