//go:build race

package kernel

import "runtime"

const RaceBuild = true

//go:norace
func raceDisable() { runtime.RaceDisable() }

//go:norace
func raceEnable() { runtime.RaceEnable() }

// RaceErrors is the number of data races reported so far in this process.
//
//go:norace
func RaceErrors() int { return runtime.RaceErrors() }
