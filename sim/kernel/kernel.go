// Package kernel is the seeded scheduler, simulated clock and event queue of
// the simulator. One K drives one run inside one testing/synctest bubble: the
// bubble's root goroutine runs K.Run, every other goroutine is a task that
// reaches the kernel only through Block/Yield (parking) or Effect
// (non-parking). The kernel decides, from the run's PRNG, which parked task or
// pending environment event proceeds next; the fake clock only advances when
// nothing is enabled.
//
// Race-detector discipline (DESIGN 2.3): every function here is //go:norace
// and all synchronisation the kernel itself needs is wrapped in
// runtime.RaceDisable/RaceEnable, so the kernel never creates happens-before
// edges between tasks: two library accesses that are only ordered by the
// simulator are still reported as a data race.
package kernel

import (
	"fmt"
	"math/rand/v2"
	"runtime"
	"sort"
	"sync"
	"sync/atomic"
	"testing/synctest"
	"time"
)

// Req is one parked operation of a task.
type Req struct {
	Site  string // stable name of the seam, e.g. "stream.Read"
	Obj   int    // simulator object id (0 = none)
	Key   string // extra canonical-order key for requests born in the same step
	Op    Op     // Ready/Done; nil = pure yield
	Lock  bool   // lock-wait retry (enabled only after other progress)
	Class int    // candidate class for strategies (ClassTask by default)

	Aborted bool // set when the run is being torn down

	wake  chan struct{}
	gid   uint64
	task  *Task
	seq   uint64
	epoch uint64
}

// Op is a parking operation against simulator state. Both methods run on the
// kernel goroutine only.
type Op interface {
	// Ready reports whether the operation can complete now.
	Ready(now time.Time) bool
	// Deadline returns the instant at which Ready may become true by the mere
	// passage of time (zero = never).
	Deadline() time.Time
	// Done performs the operation and stores its results for the task.
	Done(now time.Time)
}

// Task is a goroutine known to the kernel.
type Task struct {
	ID   int
	Name string
	prio float64
}

// Event is a pending environment event.
type Event struct {
	At   time.Time
	Name string
	Obj  int
	Run  Runner
	seq  uint64
	prio float64
	dead bool
}

// Runner is the body of an event; runs on the kernel goroutine.
type Runner interface{ RunEvent(now time.Time) }

const (
	ClassTask = iota
	ClassEnv
)

// Strategy kinds.
const (
	StratUniform = iota
	StratPCT
	StratEnvFirst
	StratTaskFirst
	StratSticky
	NumStrats
)

type Config struct {
	Seed     uint64
	Strategy int
	PCTDepth int // number of priority change points
	PCTSpan  int // steps over which change points are spread
	MaxSteps int
	Verbose  bool     // keep a textual event log
	Forced   []uint16 // replay: choices to take (index into the candidate list)
}

// Outcome of Run.
const (
	Finished  = "finished"
	Quiescent = "quiescent" // nothing enabled, nothing pending
	StepCap   = "stepcap"
	Stopped   = "stopped" // invariant asked to stop
)

type K struct {
	cfg Config
	mu  sync.Mutex // posted, effects; taken only under RaceDisable

	Sched *rand.Rand // schedule choices
	Env   *rand.Rand // delays, fault coins, sizes

	posted   []*Req
	parked   []*Req
	events   []*Event // small; kept sorted on insertion
	evSeq    uint64
	reqSeq   uint64
	Seq      uint64 // global history sequence number (one per performed step / effect flush)
	Steps    int
	effects  []string
	digest   uint64
	Log      []string
	Choices  []uint16
	Diverged bool
	explicit bool     // the schedule is given (Schedule), not drawn
	picks    []uint16 // see Schedule

	tasks    map[uint64]*Task
	rootGid  uint64 // the kernel's own goroutine: scheduling points reached on it (scenario set-up, oracles) pass through
	start    time.Time
	taskN    int
	last     *Task
	progress uint64
	pctAt    map[int]bool
	aborting bool

	Stats map[string]int
	// Pairs records which scheduling sites followed each other on different
	// tasks (a measure of the interleavings reached); nil = not recorded.
	Pairs    map[string]struct{}
	lastSite string

	// Invariant, when set, is evaluated after every step on the kernel
	// goroutine; a non-empty string stops the run.
	Invariant Checker
	Stop      string
}

type Checker interface{ Check(now time.Time) string }

//go:norace
func New(cfg Config) *K {
	if cfg.MaxSteps == 0 {
		cfg.MaxSteps = 20000
	}
	k := &K{cfg: cfg, tasks: map[uint64]*Task{}, Stats: map[string]int{}, digest: 1469598103934665603}
	k.start = time.Now()
	k.Pairs = PairSink
	k.rootGid = gid()
	Made++
	Last = k
	if ForceNext != nil && Made == 1 {
		k.explicit, k.picks = true, ForceNext.Picks
	}
	k.Sched = rand.New(rand.NewPCG(cfg.Seed, 0x5ced))
	k.Env = rand.New(rand.NewPCG(cfg.Seed, 0xe17))
	if cfg.Strategy == StratPCT {
		k.pctAt = map[int]bool{}
		span := cfg.PCTSpan
		if span <= 0 {
			span = 100
		}
		for i := 0; i < cfg.PCTDepth; i++ {
			k.pctAt[k.Sched.IntN(span)] = true
		}
	}
	return k
}

// Schedule is an explicit schedule for one run: what a replay file carries
// once the driver has minimised the schedule of a failing run. Picks[i] decides
// step i: 0 = the default (carry on with the task that ran last if it is among
// the candidates, otherwise take the candidate that has waited longest), n > 0 =
// candidate n-1 of that step's candidate list. Steps beyond the list are default.
type Schedule struct {
	Picks []uint16 `json:"picks"`
}

var (
	// ForceNext, when set, replaces the seeded strategy of the next kernel created.
	ForceNext *Schedule
	// Made counts kernels created (the worker resets it per run); Last is the most recent one.
	Made int
	Last *K
)

// PairSink is the process-wide set the kernels add their site pairs to (set
// by the worker; nil = not recorded).
var PairSink map[string]struct{}

// current is the kernel of the run in progress in this process (one at a
// time); instrumented-library yields arrive through it.
var current *K

//go:norace
func SetCurrent(k *K) { current = k }

//go:norace
func Current() *K { return current }

//go:norace
func (k *K) Now() time.Time { return time.Now() }

//go:norace
func gid() uint64 {
	var buf [40]byte
	n := runtime.Stack(buf[:], false)
	// "goroutine 123 ["
	var id uint64
	for i := 10; i < n; i++ {
		c := buf[i]
		if c < '0' || c > '9' {
			break
		}
		id = id*10 + uint64(c-'0')
	}
	return id
}

//go:norace
func (k *K) lock() { raceDisable(); k.mu.Lock() }

//go:norace
func (k *K) unlock() { k.mu.Unlock(); raceEnable() }

// Block parks the calling task until the kernel has chosen and completed r.
//
//go:norace
func (k *K) Block(r *Req) {
	r.gid = gid()
	if r.gid == k.rootGid {
		return
	}
	r.wake = make(chan struct{}, 1)
	k.lock()
	if k.aborting {
		r.Aborted = true
		k.unlock()
		return
	}
	k.posted = append(k.posted, r)
	k.unlock()
	raceDisable()
	<-r.wake
	raceEnable()
}

// Yield is a pure scheduling point.
//
//go:norace
func (k *K) Yield(site string, obj int) {
	r := &Req{Site: site, Obj: obj}
	k.Block(r)
}

// LockWait parks a task that failed to take a cooperative lock until some
// other task has made progress.
//
//go:norace
func (k *K) LockWait(site string) {
	r := &Req{Site: site, Lock: true}
	k.Block(r)
}

// Effect records a non-parking operation of the running task in the trace.
// State changes are applied by the caller (under K.Atomically); the record is
// folded into the digest in canonical order at the next kernel step.
//
//go:norace
func (k *K) Effect(s string) {
	k.lock()
	k.effects = append(k.effects, s)
	k.unlock()
}

// Atomically runs f while holding the kernel's state lock (for non-parking
// seam calls made by tasks).
//
//go:norace
func (k *K) Atomically(f Runner) {
	k.lock()
	f.RunEvent(time.Time{})
	k.unlock()
}

// Lock / Unlock bracket non-parking seam calls made by tasks.
//
//go:norace
func (k *K) Lock() { k.lock() }

//go:norace
func (k *K) Unlock() { k.unlock() }

// EffectLocked is Effect for callers that already hold Lock.
//
//go:norace
func (k *K) EffectLocked(s string) { k.effects = append(k.effects, s) }

// BumpLocked is Bump for callers on the kernel goroutine or holding Lock.
//
//go:norace
func (k *K) BumpLocked(name string) { k.Stats[name]++ }

// Bump adds to a named counter (fault fired, probe reached ...).
//
//go:norace
func (k *K) Bump(name string) {
	k.lock()
	k.Stats[name]++
	k.unlock()
}

// Go starts a harness task that is held at birth until the kernel picks it.
//
//go:norace
func (k *K) Go(name string, body Runner) {
	go taskMain(k, name, body)
}

//go:norace
func taskMain(k *K, name string, body Runner) {
	r := &Req{Site: "task.start", Key: name}
	k.Block(r)
	if r.Aborted {
		return
	}
	body.RunEvent(time.Time{})
}

// After schedules an environment event d from now.
//
//go:norace
func (k *K) After(d time.Duration, name string, obj int, run Runner) *Event {
	return k.At(time.Now().Add(d), name, obj, run)
}

//go:norace
func (k *K) At(at time.Time, name string, obj int, run Runner) *Event {
	k.evSeq++
	e := &Event{At: at, Name: name, Obj: obj, Run: run, seq: k.evSeq, prio: -1}
	// insertion sort by (At, seq); the list is short
	i := len(k.events)
	k.events = append(k.events, e)
	for i > 0 && k.events[i-1].At.After(at) {
		k.events[i] = k.events[i-1]
		i--
	}
	k.events[i] = e
	return e
}

//go:norace
func (k *K) Cancel(e *Event) {
	if e != nil {
		e.dead = true
	}
}

//go:norace
func (k *K) hash(s string) {
	h := k.digest
	for i := 0; i < len(s); i++ {
		h ^= uint64(s[i])
		h *= 1099511628211
	}
	h ^= 0xff
	h *= 1099511628211
	k.digest = h
}

//go:norace
func (k *K) logf(format string, a ...any) {
	if k.cfg.Verbose {
		k.Log = append(k.Log, fmt.Sprintf(format, a...))
	}
}

//go:norace
func (k *K) Digest() uint64 { return k.digest }

// Note adds a line to the trace from the kernel goroutine (oracle events).
//
//go:norace
func (k *K) Note(s string) {
	k.hash(s)
	if k.cfg.Verbose {
		k.Log = append(k.Log, "  "+s)
	}
}

type cand struct {
	r *Req
	e *Event
}

//go:norace
func (k *K) drain() {
	k.lock()
	p := k.posted
	k.posted = nil
	eff := k.effects
	k.effects = nil
	k.unlock()
	if len(eff) > 0 {
		sort.Strings(eff)
		for _, s := range eff {
			k.hash(s)
			if k.cfg.Verbose {
				k.Log = append(k.Log, "  fx "+s)
			}
		}
	}
	if len(p) > 1 {
		sort.Stable(reqOrder{p, k})
	}
	for _, r := range p {
		t := k.tasks[r.gid]
		if t == nil {
			k.taskN++
			t = &Task{ID: k.taskN, Name: r.Key, prio: k.Sched.Float64()}
			if r.Site != "task.start" {
				t.Name = r.Site
			}
			k.tasks[r.gid] = t
		}
		r.task = t
		k.reqSeq++
		r.seq = k.reqSeq
		r.epoch = k.progress
		k.parked = append(k.parked, r)
	}
}

// reqOrder is the canonical order of the requests that arrived during one step: by site, object and key, and -
// when two tasks the kernel already knows ask for the very same thing in the same step (the two ends of a
// channel hand-over that both go on to close the same connection) - by the tasks' numbers. The order in which
// the requests happened to be posted is real time, and must not reach the schedule.
type reqOrder struct {
	p []*Req
	k *K
}

//go:norace
func (o reqOrder) Len() int { return len(o.p) }

//go:norace
func (o reqOrder) Swap(i, j int) { o.p[i], o.p[j] = o.p[j], o.p[i] }

//go:norace
func (o reqOrder) Less(i, j int) bool {
	a, b := o.p[i], o.p[j]
	if a.Site != b.Site {
		return a.Site < b.Site
	}
	if a.Obj != b.Obj {
		return a.Obj < b.Obj
	}
	if a.Key != b.Key {
		return a.Key < b.Key
	}
	ia, ib := 0, 0
	if t := o.k.tasks[a.gid]; t != nil {
		ia = t.ID
	}
	if t := o.k.tasks[b.gid]; t != nil {
		ib = t.ID
	}
	return ia < ib
}

// Run is the kernel loop. done is evaluated after every step; the run ends
// when it returns true, when nothing can happen any more, or at the step cap.
//
//go:norace
func (k *K) Run(done Checker) string {
	raceDisable()
	defer raceEnable()
	var cands []cand
	for {
		synctest.Wait()
		k.drain()
		if k.Invariant != nil {
			if s := k.Invariant.Check(time.Now()); s != "" {
				k.Stop = s
				return Stopped
			}
		}
		if done != nil && done.Check(time.Now()) != "" {
			return Finished
		}
		now := time.Now()
		cands = cands[:0]
		for _, r := range k.parked {
			if r.Lock && r.epoch == k.progress {
				continue
			}
			if r.Op == nil || r.Op.Ready(now) {
				cands = append(cands, cand{r: r})
			}
		}
		for _, e := range k.events {
			if e.dead {
				continue
			}
			if e.At.After(now) {
				break
			}
			cands = append(cands, cand{e: e})
		}
		if len(cands) == 0 {
			var next time.Time
			for _, e := range k.events {
				if !e.dead {
					next = e.At
					break
				}
			}
			for _, r := range k.parked {
				if r.Op == nil {
					continue
				}
				if d := r.Op.Deadline(); !d.IsZero() && d.After(now) && (next.IsZero() || d.Before(next)) {
					next = d
				}
			}
			if next.IsZero() {
				return Quiescent
			}
			time.Sleep(next.Sub(now))
			continue
		}
		if k.Steps >= k.cfg.MaxSteps {
			return StepCap
		}
		idx := k.choose(cands)
		k.Choices = append(k.Choices, uint16(idx))
		k.perform(cands[idx])
	}
}

//go:norace
func (k *K) choose(cands []cand) int {
	if k.explicit {
		p := 0
		if k.Steps < len(k.picks) {
			p = int(k.picks[k.Steps])
		}
		if p > 0 {
			if p-1 < len(cands) {
				return p - 1
			}
			k.Diverged = true
		}
		if k.last != nil {
			for i, c := range cands {
				if c.r != nil && c.r.task == k.last {
					return i
				}
			}
		}
		return 0
	}
	if k.Steps < len(k.cfg.Forced) {
		i := int(k.cfg.Forced[k.Steps])
		if i >= len(cands) {
			k.Diverged = true
			i = i % len(cands)
		}
		return i
	}
	n := len(cands)
	if n == 1 {
		return 0
	}
	switch k.cfg.Strategy {
	case StratEnvFirst, StratTaskFirst:
		want := k.cfg.Strategy == StratEnvFirst
		if k.Sched.IntN(8) != 0 { // mostly, not always
			var sel []int
			for i, c := range cands {
				if (c.e != nil) == want {
					sel = append(sel, i)
				}
			}
			if len(sel) > 0 {
				return sel[k.Sched.IntN(len(sel))]
			}
		}
	case StratSticky:
		if k.last != nil && k.Sched.IntN(4) != 0 {
			for i, c := range cands {
				if c.r != nil && c.r.task == k.last {
					return i
				}
			}
		}
	case StratPCT:
		best, bp := 0, -1.0
		for i, c := range cands {
			var p float64
			if c.r != nil {
				p = c.r.task.prio
			} else {
				if c.e.prio < 0 {
					c.e.prio = k.Sched.Float64()
				}
				p = c.e.prio
			}
			if p > bp {
				best, bp = i, p
			}
		}
		if k.pctAt[k.Steps] {
			c := cands[best]
			low := k.Sched.Float64() * 1e-3
			if c.r != nil {
				c.r.task.prio = low
			} else {
				c.e.prio = low
			}
		}
		return best
	}
	return k.Sched.IntN(n)
}

//go:norace
func (k *K) perform(c cand) {
	k.Steps++
	k.Seq++
	now := time.Now()
	if c.e != nil {
		e := c.e
		for i, x := range k.events {
			if x == e {
				k.events = append(k.events[:i], k.events[i+1:]...)
				break
			}
		}
		k.progress++
		k.last = nil
		k.hash(e.Name)
		k.hashInt(e.Obj)
		if k.cfg.Verbose {
			k.Log = append(k.Log, fmt.Sprintf("%d @%v ev %s #%d", k.Steps, now.Sub(k.start), e.Name, e.Obj))
		}
		e.Run.RunEvent(now)
		return
	}
	r := c.r
	for i, x := range k.parked {
		if x == r {
			k.parked = append(k.parked[:i], k.parked[i+1:]...)
			break
		}
	}
	if !r.Lock {
		k.progress++
	}
	if k.Pairs != nil && k.last != nil && k.last != r.task && len(k.Pairs) < 4096 {
		k.Pairs[k.lastSite+" -> "+r.Site] = struct{}{}
	}
	k.last = r.task
	k.lastSite = r.Site
	k.hashInt(r.task.ID)
	k.hash(r.Site)
	k.hashInt(r.Obj)
	if k.cfg.Verbose {
		k.Log = append(k.Log, fmt.Sprintf("%d @%v t%d(%s) %s #%d", k.Steps, now.Sub(k.start), r.task.ID, r.task.Name, r.Site, r.Obj))
	}
	if r.Op != nil {
		r.Op.Done(now)
	}
	r.wake <- struct{}{}
}

//go:norace
func (k *K) hashInt(v int) {
	h := k.digest
	h ^= uint64(v)
	h *= 1099511628211
	k.digest = h
}

// Parked returns the sites of the currently parked requests (for deadlock
// and leak reports), in canonical order.
//
//go:norace
func (k *K) Parked() []string {
	var out []string
	for _, r := range k.parked {
		out = append(out, fmt.Sprintf("%s#%d", r.Site, r.Obj))
	}
	return out
}

// ParkedAt counts parked requests whose site has the given prefix.
//
//go:norace
func (k *K) ParkedAt(prefix string) int {
	n := 0
	for _, r := range k.parked {
		if len(r.Site) >= len(prefix) && r.Site[:len(prefix)] == prefix {
			n++
		}
	}
	return n
}

// Abort tears the run down: every parked and future request returns at once
// with Aborted set, until no task posts anything any more.
//
//go:norace
func (k *K) Abort() {
	raceDisable()
	defer raceEnable()
	k.lock()
	k.aborting = true
	k.unlock()
	for i := 0; i < 1000; i++ {
		synctest.Wait()
		k.lock()
		p := k.posted
		k.posted = nil
		k.unlock()
		p = append(p, k.parked...)
		k.parked = nil
		if len(p) == 0 {
			return
		}
		for _, r := range p {
			r.Aborted = true
			r.wake <- struct{}{}
		}
	}
}

//go:norace
func (k *K) Aborting() bool {
	k.lock()
	a := k.aborting
	k.unlock()
	return a
}

// appSync carries application-level ordering to the race detector: a task that
// announces "I am done" (Announce) happens before a task that waited for it
// (Wait returning true). These two functions are deliberately not
// //go:norace (see simnet.hbRelease).
var appSync uint32

func announce() { atomic.AddUint32(&appSync, 1) }

func observed() { atomic.LoadUint32(&appSync) }

// Announce is called by a harness task right before it publishes a completion
// flag that another task waits for.
//
//go:norace
func (k *K) Announce() { announce() }

// Observe is called by a harness task that starts only after others have announced their end (a later phase
// of a run): what they did happened before what it does. Deliberately not //go:norace, like Announce.
func (k *K) Observe() { observed() }

// Cond is a predicate over simulator/harness state, evaluated on the kernel
// goroutine.
type Cond interface{ Holds() bool }

type waitOp struct {
	k     *K
	c     Cond
	until time.Time // zero = no timeout
	step  int       // 0 = no step trigger
	Timed bool
}

//go:norace
func (o *waitOp) Ready(now time.Time) bool {
	if o.c != nil && o.c.Holds() {
		return true
	}
	if o.step > 0 && o.k.Steps >= o.step {
		return true
	}
	return !o.until.IsZero() && !now.Before(o.until)
}

//go:norace
func (o *waitOp) Deadline() time.Time { return o.until }

//go:norace
func (o *waitOp) Done(now time.Time) {
	o.Timed = !(o.c != nil && o.c.Holds())
}

// Wait parks the calling task until c holds or timeout has elapsed (0 = no
// timeout). It reports whether c held.
//
//go:norace
func (k *K) Wait(site string, obj int, c Cond, timeout time.Duration) bool {
	o := &waitOp{k: k, c: c}
	if timeout > 0 {
		o.until = time.Now().Add(timeout)
	}
	r := &Req{Site: site, Obj: obj, Op: o}
	k.Block(r)
	if !r.Aborted && !o.Timed {
		observed()
		return true
	}
	return false
}

// WaitSteps parks the calling task until n more kernel steps have been taken,
// or, when the system goes idle first, until idle has elapsed.
//
//go:norace
func (k *K) WaitSteps(site string, n int, idle time.Duration) {
	k.lock()
	target := k.Steps + n
	k.unlock()
	o := &waitOp{k: k, step: target, until: time.Now().Add(idle)}
	if n <= 0 {
		o.step = 0
	}
	r := &Req{Site: site, Op: o}
	k.Block(r)
}

// Sleep parks the calling task for d of simulated time.
//
//go:norace
func (k *K) Sleep(site string, d time.Duration) {
	o := &waitOp{k: k, until: time.Now().Add(d)}
	r := &Req{Site: site, Op: o}
	k.Block(r)
}
