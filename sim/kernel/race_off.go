//go:build !race

package kernel

const RaceBuild = false

func raceDisable() {}
func raceEnable()  {}

func RaceErrors() int { return 0 }
