package simnet

import (
	"encoding/binary"
	"net"
	"os"
	"strconv"
	"syscall"

	"verifsim/kernel"
)

// UDPConn is the server's datagram socket as a *net.UDPConn on a host with
// several addresses would be (the instrumented build substitutes an interface
// for that concrete type, DESIGN 11.2): a read reports the local address the
// datagram was sent to as IP_PKTINFO / IPV6_PKTINFO control data (Linux/amd64
// layout), a write takes its source address from such data and refuses a
// source the host does not have.
type UDPConn struct {
	*PacketConn
	Locals    []Addr // Locals[0] is the primary address
	OptsErr   error  // what enabling the control messages returns
	OptsCalls int
	BadSource int // writes refused because their source address is not local
}

// ListenUDP makes the server socket of a host with the given addresses
// ("ip:port" / "[ip6]:port"); none = the usual single address.
//
//go:norace
func (n *Net) ListenUDP(locals ...string) *UDPConn {
	pc := n.ListenPacket()
	u := &UDPConn{PacketConn: pc, Locals: []Addr{pc.addr}}
	if len(locals) > 0 {
		u.Locals = nil
		for _, l := range locals {
			u.Locals = append(u.Locals, Addr{"udp", l})
		}
		pc.addr = u.Locals[0]
	}
	return u
}

// DialUDP connects a client socket to the server's home-th address. The
// client's own address is of the same family.
//
//go:norace
func (n *Net) DialUDP(u *UDPConn, home int) *DgramConn {
	c := n.DialPacket(u.PacketConn)
	n.K.Lock()
	defer n.K.Unlock()
	c.remote = u.Locals[home%len(u.Locals)]
	if ip, _ := splitAddr(c.remote.S); ip.To4() == nil {
		delete(u.peers, c.addr.S)
		c.addr = Addr{"udp", "[fd00::2]:" + strconv.Itoa(40000+c.ID)}
		u.peers[c.addr.S] = c
	}
	return c
}

//go:norace
func splitAddr(s string) (net.IP, int) {
	h, p, err := net.SplitHostPort(s)
	if err != nil {
		return nil, 0
	}
	port, _ := strconv.Atoi(p)
	return net.ParseIP(h), port
}

const (
	cmsgHdrLen   = 16 // struct cmsghdr on linux/amd64: len uint64, level int32, type int32
	ipPktinfo    = 8
	ipv6Pktinfo  = 50
	protoIP      = 0
	protoIPv6    = 41
	pktinfo4Len  = 12 // ifindex int32, spec_dst [4], addr [4]
	pktinfo6Len  = 20 // addr [16], ifindex uint32
	simInterface = 3
)

//go:norace
func align8(n int) int { return (n + 7) &^ 7 }

// recvControl is the control data the kernel attaches to a datagram that was
// sent to local address to.
//
//go:norace
func recvControl(to Addr) []byte {
	ip, _ := splitAddr(to.S)
	if ip4 := ip.To4(); ip4 != nil {
		b := make([]byte, align8(cmsgHdrLen+pktinfo4Len))
		binary.LittleEndian.PutUint64(b, cmsgHdrLen+pktinfo4Len)
		binary.LittleEndian.PutUint32(b[8:], protoIP)
		binary.LittleEndian.PutUint32(b[12:], ipPktinfo)
		binary.LittleEndian.PutUint32(b[16:], simInterface)
		copy(b[20:24], ip4) // spec_dst
		copy(b[24:28], ip4) // addr
		return b
	}
	b := make([]byte, align8(cmsgHdrLen+pktinfo6Len))
	binary.LittleEndian.PutUint64(b, cmsgHdrLen+pktinfo6Len)
	binary.LittleEndian.PutUint32(b[8:], protoIPv6)
	binary.LittleEndian.PutUint32(b[12:], ipv6Pktinfo)
	copy(b[16:32], ip.To16())
	binary.LittleEndian.PutUint32(b[32:], simInterface)
	return b
}

// sendSource extracts the source address a sender asks for (nil = none given).
//
//go:norace
func sendSource(oob []byte) (ip net.IP, malformed bool) {
	for len(oob) >= cmsgHdrLen {
		l := int(binary.LittleEndian.Uint64(oob))
		if l < cmsgHdrLen || l > len(oob) {
			return nil, true
		}
		level, typ := binary.LittleEndian.Uint32(oob[8:]), binary.LittleEndian.Uint32(oob[12:])
		data := oob[cmsgHdrLen:l]
		switch {
		case level == protoIP && typ == ipPktinfo && len(data) >= pktinfo4Len:
			if src := net.IP(data[4:8]); !src.Equal(net.IPv4zero) {
				ip = append(net.IP(nil), src...)
			}
		case level == protoIPv6 && typ == ipv6Pktinfo && len(data) >= pktinfo6Len:
			if src := net.IP(data[0:16]); !src.Equal(net.IPv6unspecified) {
				ip = append(net.IP(nil), src...)
			}
		default:
			return nil, true
		}
		if align8(l) >= len(oob) {
			break
		}
		oob = oob[align8(l):]
	}
	return ip, false
}

// ReadMsgUDP is (*net.UDPConn).ReadMsgUDP.
//
//go:norace
func (u *UDPConn) ReadMsgUDP(b, oob []byte) (n, oobn, flags int, addr *net.UDPAddr, err error) {
	o, err := u.PacketConn.recv("udp.ReadMsgUDP", b)
	if err != nil {
		return 0, 0, 0, nil, err
	}
	ip, port := splitAddr(o.d.From.S)
	addr = &net.UDPAddr{IP: ip, Port: port}
	if u.OptsCalls > 0 && u.OptsErr == nil {
		c := recvControl(o.d.To)
		oobn = copy(oob, c)
		if oobn < len(c) {
			flags |= syscall.MSG_CTRUNC
		}
	}
	if o.d.TruncRead {
		flags |= syscall.MSG_TRUNC
	}
	return o.n, oobn, flags, addr, nil
}

// ReadFromUDP is (*net.UDPConn).ReadFromUDP.
//
//go:norace
func (u *UDPConn) ReadFromUDP(b []byte) (int, *net.UDPAddr, error) {
	n, _, _, a, err := u.ReadMsgUDP(b, nil)
	return n, a, err
}

// WriteMsgUDP is (*net.UDPConn).WriteMsgUDP.
//
//go:norace
func (u *UDPConn) WriteMsgUDP(b, oob []byte, addr *net.UDPAddr) (n, oobn int, err error) {
	from := u.Locals[0]
	src, bad := sendSource(oob)
	k := u.n.K
	if bad {
		k.Bump("probe.udp_send_malformed_control")
		return 0, 0, &net.OpError{Op: "write", Net: "udp", Err: os.NewSyscallError("sendmsg", syscall.EINVAL)}
	}
	if src != nil {
		found := false
		for _, l := range u.Locals {
			if ip, _ := splitAddr(l.S); ip.Equal(src) {
				from, found = l, true
			}
		}
		if !found {
			k.Lock()
			u.BadSource++
			k.BumpLocked("probe.udp_send_source_not_local")
			k.Unlock()
			return 0, 0, &net.OpError{Op: "write", Net: "udp", Err: os.NewSyscallError("sendmsg", syscall.EINVAL)}
		}
	} else if addr != nil && addr.IP.To4() == nil {
		// no source asked for: the host picks one of the destination's family
		for _, l := range u.Locals {
			if ip, _ := splitAddr(l.S); ip.To4() == nil {
				from = l
				break
			}
		}
	}
	if addr == nil {
		return 0, 0, &net.OpError{Op: "write", Net: "udp", Err: os.NewSyscallError("sendmsg", syscall.EDESTADDRREQ)}
	}
	if err := u.PacketConn.sendFrom("udp.WriteMsgUDP", b, addr, from); err != nil {
		return 0, 0, err
	}
	return len(b), len(oob), nil
}

// WriteToUDP is (*net.UDPConn).WriteToUDP.
//
//go:norace
func (u *UDPConn) WriteToUDP(b []byte, addr *net.UDPAddr) (int, error) {
	n, _, err := u.WriteMsgUDP(b, nil, addr)
	return n, err
}

//go:norace
func (u *UDPConn) SetReadBuffer(int) error { return nil }

//go:norace
func (u *UDPConn) SetWriteBuffer(int) error { return nil }

// VerifsimSocketOptions stands for the setsockopt calls that switch the
// control messages on (setUDPSocketOptions in the instrumented copy).
//
//go:norace
func (u *UDPConn) VerifsimSocketOptions() error {
	k := u.n.K
	k.Lock()
	u.OptsCalls++
	k.EffectLocked("udp.setsockopt")
	k.Unlock()
	return u.OptsErr
}

var _ = kernel.Finished
