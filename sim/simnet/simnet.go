// Package simnet is the simulated transport: stream connections with
// segmentation, short reads, flow control, deadlines, EOF/RST at chosen
// offsets; a listener; and a datagram network with drop, duplication, delay,
// truncation, corruption and injection. All blocking operations park in the
// kernel; all state changes happen on the kernel goroutine or under K.Lock.
//
// Every function is //go:norace (see package kernel).
package simnet

import (
	"errors"
	"io"
	"net"
	"os"
	"strconv"
	"strings"
	"sync/atomic"
	"time"
	"unsafe"

	"verifsim/kernel"
)

type Addr struct{ N, S string }

//go:norace
func (a Addr) Network() string { return a.N }

//go:norace
func (a Addr) String() string { return a.S }

// timeoutErr mimics the deadline error of package net.
type timeoutErr struct{}

//go:norace
func (timeoutErr) Error() string { return "i/o timeout" }

//go:norace
func (timeoutErr) Timeout() bool { return true }

//go:norace
func (timeoutErr) Temporary() bool { return true }

//go:norace
func (timeoutErr) Is(err error) bool { return err == os.ErrDeadlineExceeded }

var ErrTimeout error = timeoutErr{}

// transientErr is what accept(2) gives under descriptor pressure or a read gives
// when interrupted: temporary, not a timeout; the socket is as good as before.
type transientErr struct{}

//go:norace
func (transientErr) Error() string { return "resource temporarily unavailable" }

//go:norace
func (transientErr) Timeout() bool { return false }

//go:norace
func (transientErr) Temporary() bool { return true }

var ErrTransient net.Error = transientErr{}

type opErr struct{ s string }

//go:norace
func (e *opErr) Error() string { return e.s }

//go:norace
func (e *opErr) Timeout() bool { return false }

//go:norace
func (e *opErr) Temporary() bool { return false }

var (
	ErrReset  error = &opErr{"connection reset by peer"}
	ErrPipe   error = &opErr{"broken pipe"}
	ErrClosed       = net.ErrClosed
	ErrInject error = &opErr{"injected i/o error"}
)

// StreamLink configures the benign behaviour of stream connections.
type StreamLink struct {
	MinDelay  time.Duration
	Jitter    time.Duration
	SegMode   int // 0 whole writes, 1 random cuts, 2 first octets one by one then random
	MaxSegs   int
	ShortRead int // percent of reads that return fewer octets than available
	Window    int // receive window in octets (0 = 1 MiB)
	// EOFWithData: percent of the reads that empty the buffer of a direction whose writer has
	// closed and that return those last octets together with io.EOF, as an io.Reader may (a
	// kernel socket does not, a TLS connection or a wrapped one can).
	EOFWithData int
}

// DgramLink configures datagram faults (percent each).
type DgramLink struct {
	MinDelay time.Duration
	Jitter   time.Duration
	Drop     int
	Dup      int
	Corrupt  int
	Trunc    int
}

type Net struct {
	// CloseYields makes StreamConn.Close a scheduling point (instrumented
	// builds only: there a task may park while it holds library locks).
	CloseYields bool
	// PostYield makes the return of every transport operation a scheduling point (see block).
	PostYield bool
	// StallWrites: with this chance (percent) the thread that made a stream or datagram write
	// loses the processor for 1..StallMaxMs simulated milliseconds when the call has returned
	// (a slow or preempted thread: the peer may answer before it executes its next instruction).
	// Stalled is the total so far: oracles that measure a caller's elapsed time allow for it.
	StallWrites int
	StallMaxMs  int
	Stalled     time.Duration
	// SrvNoDeadlines: the server's side of every stream connection is of a kind that does not support
	// deadlines (SetDeadline, SetReadDeadline and SetWriteDeadline fail and change nothing).
	SrvNoDeadlines bool
	// SrvCloseStall: closing the server's side of a stream connection takes up to this much simulated
	// time (a TLS close_notify that has to be written, a lingering close). Only with CloseYields.
	SrvCloseStall time.Duration
	// SrvSockoptFail: the TCP-only socket options (keep-alive, no-delay, linger, buffer sizes) fail on the
	// server's side of every stream connection (a platform or a wrapped connection that refuses them).
	SrvSockoptFail bool
	// CloseErr: closing a stream connection reports an error on these roles ("srv", "cli", "" none); the
	// connection is closed all the same.
	CloseErr string

	K      *kernel.K
	Stream StreamLink
	Dgram  DgramLink
	nextID int

	Conns     []*StreamConn
	Listeners []*Listener
	PCs       []*PacketConn
	Dgrams    []*Datagram // every datagram ever sent or injected
}

//go:norace
func New(k *kernel.K) *Net { return &Net{K: k} }

// block parks the caller for one transport operation. With PostYield the
// return of the operation is a scheduling point of its own: a thread can lose
// the processor between a system call's return and its next instruction.
//
//go:norace
func (n *Net) block(r *kernel.Req) {
	n.K.Block(r)
	if n.PostYield && !r.Aborted {
		n.K.Yield(r.Site+"+ret", r.Obj)
	}
	if n.StallWrites > 0 && !r.Aborted && strings.HasSuffix(r.Site, ".Write") {
		n.K.Lock()
		hit := n.K.Env.IntN(100) < n.StallWrites
		d := time.Duration(1+n.K.Env.IntN(max(n.StallMaxMs, 1))) * time.Millisecond
		if hit {
			n.Stalled += d
			n.K.BumpLocked("fault.thread_stalled_after_write")
		}
		n.K.Unlock()
		if hit {
			n.K.Sleep(r.Site+"+stall", d)
		}
	}
}

//go:norace
func (n *Net) id() int { n.nextID++; return n.nextID }

// hbRelease / hbAcquire carry the one ordering the simulator hands to the race
// detector: what a sender did before sending happened before what the receiver
// does after receiving. They are deliberately NOT //go:norace: in such
// functions the compiler turns sync/atomic into plain instructions the
// detector never sees.
func hbRelease(p *uint32) { atomic.AddUint32(p, 1) }

func hbAcquire(p *uint32) { atomic.LoadUint32(p) }

// ---------------------------------------------------------------- streams

type half struct {
	hb       uint32 // happens-before carrier: written (release) by whoever sends or closes, read (acquire) by whoever receives - the ordering a real network gives, and the only one the simulator passes on to the race detector
	id       int
	buf      []byte
	inflight int
	lastAt   time.Time
	weof     bool // writer closed
	eof      bool // EOF delivered to reader
	rst      bool // reset delivered to reader
	rclosed  bool // reader side closed: writes fail
	cutAt    int  // link cuts the stream after this many octets in total (-1 = never)
	cutRST   bool
	cut      bool
	total    int // octets delivered so far
	Written  []byte
	keep     bool
	WriteOps []int     // length of each accepted Write, in order
	q        []seg     // scheduled, undelivered segments in FIFO order
	Arrivals []Arrival // when keep: (octets delivered so far, instant) per delivery
}

// Arrival says that by T the first Total octets of a direction had reached the reader's socket buffer.
type Arrival struct {
	Total int
	T     time.Time
}

type seg struct {
	data []byte
	eof  bool
}

type StreamConn struct {
	NoDeadlines bool // this connection is of a kind that does not support deadlines (an OS pipe, an ssh channel): the setters report that
	lingerZero  bool // SetLinger(0) was called: Close aborts
	n           *Net
	ID          int
	Role        string // "srv" / "cli"
	rx, tx      *half
	rdl         time.Time
	wdl         time.Time
	closed      bool
	local       Addr
	remote      Addr
	Peer        *StreamConn

	Reads      int
	ReadTotal  int // octets handed to the reader so far
	Closes     int
	Accepted   bool     // handed to the server by Accept
	Frozen     bool     // the application took the connection over (Hijack): the server must not touch it any more
	Touched    []string // operations made on the connection while Frozen, at a later simulated instant than the freeze
	FrozenAt   time.Time
	FailWrites int // inject: fail the next n writes after accepting a prefix
	// FailWriteNth > 0: this side's n-th Write (1-based) fails after accepting a prefix of what it was given
	// (possibly nothing); the writes after it are served as usual.
	FailWriteNth  int
	FailWriteZero bool // the injected failure lets nothing out (else a random prefix)
	writeN        int
	// TransientAt > 0: when exactly that many octets have been handed to this side's reader, its next
	// Read fails once with a temporary, non-timeout error (an interrupted system call); the read before
	// is cut short so that it ends there. Reading carries on afterwards as if nothing had happened.
	TransientAt   int
	transientDone bool
}

// Pair creates a connected pair (client side, server side).
//
//go:norace
func (n *Net) Pair(keep bool) (cli, srv *StreamConn) {
	a := &half{id: n.id(), cutAt: -1, keep: keep}
	b := &half{id: n.id(), cutAt: -1, keep: keep}
	cid, sid := n.id(), n.id()
	cli = &StreamConn{n: n, ID: cid, Role: "cli", rx: a, tx: b,
		local: Addr{"tcp", "10.0.0.2:" + strconv.Itoa(40000+cid)}, remote: Addr{"tcp", "10.0.0.1:53"}}
	srv = &StreamConn{n: n, ID: sid, Role: "srv", rx: b, tx: a, local: cli.remote, remote: cli.local}
	cli.Peer, srv.Peer = srv, cli
	n.Conns = append(n.Conns, cli, srv)
	return
}

// CutAfter makes the link end the direction *towards* c after exactly k more
// delivered octets (EOF, or RST when rst is set).
//
//go:norace
func (c *StreamConn) CutAfter(k int, rst bool) {
	c.rx.cutAt = c.rx.total + k
	c.rx.cutRST = rst
}

// Freeze marks the server-side connection whose peer has the given address as
// taken over by the application.
//
//go:norace
func (n *Net) Freeze(remote string) *StreamConn {
	n.K.Lock()
	defer n.K.Unlock()
	for _, c := range n.Conns {
		if c.Role == "srv" && c.remote.S == remote {
			c.Frozen, c.FrozenAt = true, time.Now()
			return c
		}
	}
	return nil
}

// Sent returns every octet written into c so far (requires keep).
//
//go:norace
func (c *StreamConn) Sent() []byte { return c.tx.Written }

//go:norace
func (c *StreamConn) SentOps() []int { return c.tx.WriteOps }

// ArrivedAt returns the instant at which the first n octets towards c had
// reached its socket buffer (requires keep on the peer's Pair call).
//
//go:norace
func (c *StreamConn) ArrivedAt(n int) (time.Time, bool) {
	for _, a := range c.rx.Arrivals {
		if a.Total >= n {
			return a.T, true
		}
	}
	return time.Time{}, false
}

//go:norace
func (c *StreamConn) IsClosed() bool { return c.closed }

// WasReset reports whether either direction of the connection was reset or cut by the link.
//
//go:norace
func (c *StreamConn) WasReset() bool { return c.rx.rst || c.tx.rst || c.rx.cut || c.tx.cut }

// VerifsimOrder gives map iterations over connections (instrumented build) a
// fixed order.
//
//go:norace
func (c *StreamConn) VerifsimOrder() int { return c.ID }

//go:norace
func (c *StreamConn) Unread() int { return len(c.rx.buf) + c.rx.inflight }

type readOp struct {
	c   *StreamConn
	p   []byte
	n   int
	err error
}

//go:norace
func expired(dl, now time.Time) bool { return !dl.IsZero() && !now.Before(dl) }

//go:norace
func (o *readOp) Ready(now time.Time) bool {
	c := o.c
	return c.closed || len(c.rx.buf) > 0 || c.rx.eof || c.rx.rst || expired(c.rdl, now)
}

//go:norace
func (o *readOp) Deadline() time.Time { return o.c.rdl }

//go:norace
func (o *readOp) Done(now time.Time) {
	c := o.c
	switch {
	case c.closed:
		o.err = ErrClosed
	case expired(c.rdl, now):
		o.err = ErrTimeout
	case c.TransientAt > 0 && !c.transientDone && c.ReadTotal == c.TransientAt && (len(c.rx.buf) > 0 || c.rx.eof || c.rx.rst):
		c.transientDone = true
		o.err = ErrTransient
		c.n.K.BumpLocked("fault.stream_read_interrupted")
	case len(c.rx.buf) > 0:
		n := len(o.p)
		if n > len(c.rx.buf) {
			n = len(c.rx.buf)
		}
		if c.TransientAt > 0 && !c.transientDone && c.ReadTotal < c.TransientAt && c.ReadTotal+n > c.TransientAt {
			n = c.TransientAt - c.ReadTotal
		}
		if n > 1 && c.n.Stream.ShortRead > 0 && c.n.K.Env.IntN(100) < c.n.Stream.ShortRead {
			n = 1 + c.n.K.Env.IntN(n-1)
			c.n.K.BumpLocked("fault.shortread")
		}
		copy(o.p, c.rx.buf[:n])
		c.rx.buf = c.rx.buf[n:]
		o.n = n
		c.ReadTotal += n
		if len(c.rx.buf) == 0 && c.rx.eof && c.n.Stream.EOFWithData > 0 && c.n.K.Env.IntN(100) < c.n.Stream.EOFWithData {
			o.err = io.EOF
			c.n.K.BumpLocked("fault.last_octets_together_with_eof")
		}
	case c.rx.rst:
		o.err = ErrReset
	default:
		o.err = io.EOF
	}
}

//go:norace
func (c *StreamConn) Read(p []byte) (int, error) {
	if len(p) == 0 {
		return 0, nil
	}
	o := &readOp{c: c, p: p}
	r := &kernel.Req{Site: c.Role + ".stream.Read", Obj: c.ID, Op: o}
	c.Reads++
	if c.Frozen && time.Now().After(c.FrozenAt) {
		c.n.K.Lock()
		c.Touched = append(c.Touched, "Read")
		c.n.K.Unlock()
	}
	c.n.block(r)
	if r.Aborted {
		return 0, ErrClosed
	}
	hbAcquire(&c.rx.hb) // what the peer did before sending (or closing) happened before what follows this read
	return o.n, o.err
}

type writeOp struct {
	c   *StreamConn
	p   []byte
	n   int
	err error
}

//go:norace
func (o *writeOp) Ready(now time.Time) bool {
	c := o.c
	w := c.n.Stream.Window
	if w == 0 {
		w = 1 << 20
	}
	return c.closed || c.tx.rclosed || expired(c.wdl, now) || c.tx.inflight+len(c.tx.buf) < w
}

//go:norace
func (o *writeOp) Deadline() time.Time { return o.c.wdl }

//go:norace
func (o *writeOp) Done(now time.Time) {
	c := o.c
	switch {
	case c.closed:
		o.err = ErrClosed
	case expired(c.wdl, now):
		o.err = ErrTimeout
	case c.tx.rclosed:
		o.err = ErrPipe
	default:
		p := o.p
		c.writeN++
		if c.FailWriteNth > 0 && c.writeN == c.FailWriteNth {
			c.FailWrites++
		}
		if c.FailWrites > 0 {
			c.FailWrites--
			k := c.n.K.Env.IntN(len(p) + 1)
			if c.FailWriteZero {
				k = 0
			}
			p = p[:k]
			o.err = ErrInject
			c.n.K.BumpLocked("fault.writeerr")
		}
		o.n = len(p)
		c.n.send(c.tx, p, now)
	}
}

//go:norace
func (c *StreamConn) Write(p []byte) (int, error) {
	hbRelease(&c.tx.hb)
	o := &writeOp{c: c, p: p}
	r := &kernel.Req{Site: c.Role + ".stream.Write", Obj: c.ID, Op: o}
	c.n.block(r)
	if r.Aborted {
		return 0, ErrClosed
	}
	return o.n, o.err
}

// deliverEv delivers the next queued segment of h: whichever of h's events
// fires, segments arrive in the order they were written.
type deliverEv struct {
	n *Net
	h *half
}

//go:norace
func (ev *deliverEv) RunEvent(now time.Time) {
	h := ev.h
	if len(h.q) == 0 {
		return
	}
	e := h.q[0]
	h.q = h.q[1:]
	if e.eof {
		if !h.cut {
			h.eof = true
		}
		return
	}
	h.inflight -= len(e.data)
	if h.cut {
		return
	}
	d := e.data
	if h.cutAt >= 0 && h.total+len(d) >= h.cutAt {
		d = d[:h.cutAt-h.total]
		h.cut = true
		if h.cutRST {
			h.rst = true
			ev.n.K.BumpLocked("fault.rst_at_offset")
		} else {
			h.eof = true
			ev.n.K.BumpLocked("fault.eof_at_offset")
		}
	}
	h.total += len(d)
	h.buf = append(h.buf, d...)
	if h.keep {
		h.Arrivals = append(h.Arrivals, Arrival{h.total, now})
	}
}

// send cuts p into segments and schedules their delivery in FIFO order.
//
//go:norace
func (n *Net) send(h *half, p []byte, now time.Time) {
	if h.keep {
		h.Written = append(h.Written, p...)
		h.WriteOps = append(h.WriteOps, len(p))
	}
	if len(p) == 0 {
		return
	}
	data := append([]byte(nil), p...)
	l := &n.Stream
	var cuts []int
	switch l.SegMode {
	case 1, 2:
		maxs := l.MaxSegs
		if maxs <= 0 {
			maxs = 6
		}
		if l.SegMode == 2 {
			for i := 1; i < len(data) && i <= 4; i++ {
				cuts = append(cuts, i)
			}
		}
		k := n.K.Env.IntN(maxs)
		for i := 0; i < k && len(data) > 1; i++ {
			cuts = append(cuts, 1+n.K.Env.IntN(len(data)-1))
		}
	}
	cuts = append(cuts, len(data))
	sortInts(cuts)
	if len(cuts) > 1 {
		n.K.BumpLocked("fault.segmented")
	}
	at := now
	prev := 0
	for _, c := range cuts {
		if c <= prev {
			continue
		}
		d := l.MinDelay
		if l.Jitter > 0 {
			d += time.Duration(n.K.Env.Int64N(int64(l.Jitter) + 1))
		}
		t := now.Add(d)
		if t.Before(h.lastAt) {
			t = h.lastAt
		}
		if t.Before(at) {
			t = at
		}
		at = t
		h.lastAt = t
		sg := data[prev:c]
		h.inflight += len(sg)
		h.q = append(h.q, seg{data: sg})
		n.K.At(t, "deliver", h.id, &deliverEv{n: n, h: h})
		prev = c
	}
}

//go:norace
func sortInts(a []int) {
	for i := 1; i < len(a); i++ {
		for j := i; j > 0 && a[j-1] > a[j]; j-- {
			a[j-1], a[j] = a[j], a[j-1]
		}
	}
}

// Close is non-parking: library code calls it while holding its own locks.
//
//go:norace
func (c *StreamConn) Close() error {
	k := c.n.K
	hbRelease(&c.tx.hb)
	if c.n.CloseYields {
		k.Yield(c.Role+".stream.Close", c.ID)
		if c.n.SrvCloseStall > 0 && c.Role == "srv" && !c.closed {
			k.Lock()
			d := time.Duration(k.Env.Int64N(int64(c.n.SrvCloseStall))) + time.Millisecond
			k.BumpLocked("fault.close_takes_time")
			k.Unlock()
			k.Sleep(c.Role+".stream.Close.stall", d)
		}
	}
	k.Lock()
	defer k.Unlock()
	c.Closes++
	if c.Frozen && time.Now().After(c.FrozenAt) {
		c.Touched = append(c.Touched, "Close")
	}
	if c.closed {
		return ErrClosed
	}
	c.closed = true
	k.EffectLocked("close #" + strconv.Itoa(c.ID))
	c.rx.rclosed = true
	if c.lingerZero {
		// SO_LINGER 0: the close is an abort - the peer sees a reset, what had not reached it yet is gone
		c.tx.cut, c.tx.rst, c.tx.buf = true, true, nil
		k.BumpLocked("fault.close_with_linger_zero")
		return nil
	}
	if !c.tx.weof {
		c.tx.weof = true
		t := time.Now()
		if t.Before(c.tx.lastAt) {
			t = c.tx.lastAt
		}
		c.tx.q = append(c.tx.q, seg{eof: true})
		k.At(t, "deliver-eof", c.tx.id, &deliverEv{n: c.n, h: c.tx})
	}
	if c.n.CloseErr != "" && c.n.CloseErr == c.Role {
		k.BumpLocked("fault.conn_close_reports_error")
		return ErrCloseIO
	}
	return nil
}

// ErrCloseIO is what a close that went wrong underneath reports (the descriptor is gone all the same).
var ErrCloseIO = errors.New("simnet: close: input/output error")

// CloseWrite ends this side's sending (a FIN): the peer reads EOF after what was
// written, this side can still read.
//
//go:norace
func (c *StreamConn) CloseWrite() error {
	k := c.n.K
	hbRelease(&c.tx.hb)
	k.Lock()
	defer k.Unlock()
	if c.closed {
		return ErrClosed
	}
	if !c.tx.weof {
		c.tx.weof = true
		t := time.Now()
		if t.Before(c.tx.lastAt) {
			t = c.tx.lastAt
		}
		c.tx.q = append(c.tx.q, seg{eof: true})
		k.At(t, "deliver-eof", c.tx.id, &deliverEv{n: c.n, h: c.tx})
		k.EffectLocked("closewrite #" + strconv.Itoa(c.ID))
	}
	return nil
}

// The TCP-only knobs of *net.TCPConn (the instrumented copy of the library sees an
// interface where it says *net.TCPConn, so that a simulated connection can take
// that branch of a changed tree).

// ErrSockopt is what a connection that refuses a socket option says.
var ErrSockopt = errors.New("simnet: setsockopt: operation not supported")

//go:norace
func (c *StreamConn) sockopt() error {
	if c.n.SrvSockoptFail && c.Role == "srv" {
		c.n.K.Bump("fault.socket_option_refused")
		return ErrSockopt
	}
	return nil
}

//go:norace
func (c *StreamConn) SetLinger(sec int) error {
	if err := c.sockopt(); err != nil {
		return err
	}
	c.n.K.Lock()
	c.lingerZero = sec == 0
	c.n.K.Unlock()
	return nil
}

//go:norace
func (c *StreamConn) SetNoDelay(bool) error { return c.sockopt() }

//go:norace
func (c *StreamConn) SetKeepAlive(bool) error { return c.sockopt() }

//go:norace
func (c *StreamConn) SetKeepAlivePeriod(time.Duration) error { return c.sockopt() }

//go:norace
func (c *StreamConn) SetReadBuffer(int) error { return c.sockopt() }

//go:norace
func (c *StreamConn) SetWriteBuffer(int) error { return c.sockopt() }

// Reset aborts the connection from c's side: the peer sees RST, octets in
// flight are lost.
//
//go:norace
func (c *StreamConn) Reset() {
	k := c.n.K
	k.Lock()
	defer k.Unlock()
	c.closed = true
	c.rx.rclosed = true
	c.tx.cut = true
	c.tx.rst = true
	c.tx.buf = nil
	k.EffectLocked("reset #" + strconv.Itoa(c.ID))
}

//go:norace
func (c *StreamConn) LocalAddr() net.Addr { return c.local }

//go:norace
func (c *StreamConn) RemoteAddr() net.Addr { return c.remote }

//go:norace
func dlClass(t, now time.Time) string {
	switch {
	case t.IsZero():
		return "none"
	case !now.Before(t):
		return "past"
	default:
		return "+" + strconv.FormatInt(int64(t.Sub(now)/time.Millisecond), 10)
	}
}

//go:norace
func (c *StreamConn) SetDeadline(t time.Time) error {
	k := c.n.K
	k.Lock()
	defer k.Unlock()
	if c.closed {
		return ErrClosed
	}
	if c.NoDeadlines || (c.n.SrvNoDeadlines && c.Role == "srv") {
		k.BumpLocked("fault.deadline_not_supported")
		return ErrNoDeadline
	}
	c.rdl, c.wdl = t, t
	k.EffectLocked("setdl #" + strconv.Itoa(c.ID) + " " + dlClass(t, time.Now()))
	return nil
}

//go:norace
func (c *StreamConn) SetReadDeadline(t time.Time) error {
	k := c.n.K
	k.Lock()
	defer k.Unlock()
	if c.Frozen && time.Now().After(c.FrozenAt) {
		c.Touched = append(c.Touched, "SetReadDeadline")
	}
	if c.closed {
		return ErrClosed
	}
	if c.NoDeadlines || (c.n.SrvNoDeadlines && c.Role == "srv") {
		k.BumpLocked("fault.deadline_not_supported")
		return ErrNoDeadline
	}
	c.rdl = t
	k.EffectLocked("setrdl #" + strconv.Itoa(c.ID) + " " + dlClass(t, time.Now()))
	return nil
}

//go:norace
func (c *StreamConn) SetWriteDeadline(t time.Time) error {
	k := c.n.K
	k.Lock()
	defer k.Unlock()
	if c.closed {
		return ErrClosed
	}
	if c.NoDeadlines || (c.n.SrvNoDeadlines && c.Role == "srv") {
		k.BumpLocked("fault.deadline_not_supported")
		return ErrNoDeadline
	}
	c.wdl = t
	k.EffectLocked("setwdl #" + strconv.Itoa(c.ID) + " " + dlClass(t, time.Now()))
	return nil
}

//go:norace
func (c *StreamConn) ReadDeadline() time.Time { return c.rdl }

// ---------------------------------------------------------------- listener

type Listener struct {
	n       *Net
	ID      int
	backlog []*StreamConn
	closed  bool
	Accepts int
	Closes  int
	// Transient lists which completed Accept calls (0-based, counted when a connection
	// is there to be taken) fail with a temporary error instead, leaving the connection queued.
	Transient []int
	attempts  int
	// OwnClosedErr: Accept on the closed listener fails with an error that is not net.ErrClosed.
	OwnClosedErr bool
	// FatalAt > 0: the FatalAt-th Accept attempt (1-based) and every later one fail with an error
	// that is neither temporary nor a timeout (the process ran out of descriptors for good, say).
	FatalAt int
}

//go:norace
func (n *Net) Listen() *Listener {
	l := &Listener{n: n, ID: n.id()}
	n.Listeners = append(n.Listeners, l)
	return l
}

type acceptOp struct {
	l   *Listener
	c   *StreamConn
	err error
}

//go:norace
func (o *acceptOp) Ready(now time.Time) bool {
	return o.l.closed || len(o.l.backlog) > 0 || (o.l.FatalAt > 0 && o.l.attempts+1 >= o.l.FatalAt)
}

//go:norace
func (o *acceptOp) Deadline() time.Time { return time.Time{} }

//go:norace
func (o *acceptOp) Done(now time.Time) {
	l := o.l
	if l.closed {
		o.err = ErrClosed
		if l.OwnClosedErr {
			// a listener that is not the net package's (in-memory, tunnelled, ...) has an error of its own for this
			o.err = errListenerClosed
		}
		return
	}
	l.attempts++
	if l.FatalAt > 0 && l.attempts >= l.FatalAt {
		o.err = &opErr{"accept tcp 10.0.0.1:53: accept4: too many open files in system"}
		l.n.K.BumpLocked("fault.accept_fatal_error")
		return
	}
	for _, t := range l.Transient {
		if t == l.attempts-1 {
			o.err = ErrTransient
			l.n.K.BumpLocked("fault.accept_transient_error")
			return
		}
	}
	o.c = l.backlog[0]
	o.c.Accepted = true
	l.backlog = l.backlog[1:]
	l.Accepts++
}

var errListenerClosed = errors.New("simnet: listener closed")

//go:norace
func (l *Listener) Accept() (net.Conn, error) {
	o := &acceptOp{l: l}
	r := &kernel.Req{Site: "listener.Accept", Obj: l.ID, Op: o}
	l.n.block(r)
	if r.Aborted {
		return nil, ErrClosed
	}
	if o.err != nil {
		return nil, o.err
	}
	return o.c, nil
}

//go:norace
func (l *Listener) Close() error {
	k := l.n.K
	k.Lock()
	defer k.Unlock()
	l.Closes++
	if l.closed {
		return ErrClosed
	}
	l.closed = true
	k.EffectLocked("lclose #" + strconv.Itoa(l.ID))
	for _, c := range l.backlog {
		// never accepted: the peer sees a reset
		c.closed = true
		c.rx.rclosed = true
		c.tx.cut = true
		c.tx.rst = true
		k.BumpLocked("fault.backlog_reset")
	}
	l.backlog = nil
	return nil
}

//go:norace
func (l *Listener) Addr() net.Addr { return Addr{"tcp", "10.0.0.1:53"} }

//go:norace
func (l *Listener) IsClosed() bool { return l.closed }

// Dial connects a new client to l. Called by a task (takes the state lock).
//
//go:norace
func (n *Net) Dial(l *Listener, keep bool) *StreamConn {
	n.K.Lock()
	defer n.K.Unlock()
	cli, srv := n.Pair(keep)
	if l.closed {
		srv.closed = true
		cli.rx.cut, cli.rx.rst = true, true
		cli.tx.rclosed = true
		return cli
	}
	l.backlog = append(l.backlog, srv)
	n.K.EffectLocked("dial #" + strconv.Itoa(cli.ID))
	return cli
}

// ---------------------------------------------------------------- datagrams

// Datagram is one datagram on the simulated network, with its fate.
type Datagram struct {
	hb        *uint32 // see half.hb; allocated and released by the sender
	ID        int
	From, To  Addr
	Data      []byte // as delivered (after link faults)
	Orig      []byte // as sent
	CopyOf    int    // ID of the datagram this one duplicates (0 = original)
	Injected  bool
	FromSrv   bool // sent by the server's socket
	Modified  bool // link altered or truncated the payload
	Dropped   bool
	Delivered bool   // handed to a reader
	TruncRead bool   // reader's buffer was smaller than the datagram
	Seen      []byte // the octets the reader was actually handed (server side)
	SentSeq   uint64
	RecvSeq   uint64
	// receive-buffer bookkeeping for oracle B1 (server side)
	buf   []byte
	bufOp int
}

type endpoint struct {
	n      *Net
	ID     int
	addr   Addr
	rxq    []*Datagram
	rdl    time.Time
	wdl    time.Time
	closed bool
	Closes int
	conn   *DgramConn // set for a client's connected socket
}

// PacketConn is the server's unconnected datagram socket.
type PacketConn struct {
	endpoint
	peers     map[string]*DgramConn
	issue     map[uintptr]int // backing array -> last ReadFrom op issued into it
	opN       int
	Received  []*Datagram // in delivery order
	Scribbled int
	// Transient: which reads (0-based, counted when a datagram is there) fail with a
	// temporary error instead, leaving the datagram queued.
	Transient []int
	attempts  int
	// Anonymous: the socket is of a kind whose peers need not have an address (a unixgram socket and
	// clients that did not bind): ReadFrom reports no address, and a reply - which can only be
	// addressed to nobody - is refused by the socket. What the server tried to send is kept in Unroutable.
	Anonymous  bool
	Unroutable [][]byte
}

// ErrNoDeadline is what a connection that cannot time out says to SetDeadline and its kin.
var ErrNoDeadline = errors.New("simnet: set deadline: operation not supported by this connection")

// ErrNoDest is what a datagram socket says to a send without a destination.
var ErrNoDest = errors.New("simnet: sendto: destination address required")

// DgramConn is a client's connected datagram socket (net.Conn and
// net.PacketConn, so the library treats it as a packet connection).
type DgramConn struct {
	endpoint
	srv      *PacketConn
	remote   Addr // the server address this socket is connected to (zero: the server's primary address)
	Received []*Datagram
	// Strays counts datagrams that arrived from another address than the one the
	// socket is connected to: a connected datagram socket never sees those.
	Strays int
}

//go:norace
func (c *DgramConn) peerAddr() Addr {
	if c.remote.S != "" {
		return c.remote
	}
	return c.srv.addr
}

//go:norace
func (n *Net) ListenPacket() *PacketConn {
	pc := &PacketConn{peers: map[string]*DgramConn{}, issue: map[uintptr]int{}}
	pc.endpoint = endpoint{n: n, ID: n.id(), addr: Addr{"udp", "10.0.0.1:53"}}
	n.PCs = append(n.PCs, pc)
	return pc
}

//go:norace
func (n *Net) DialPacket(pc *PacketConn) *DgramConn {
	n.K.Lock()
	defer n.K.Unlock()
	c := &DgramConn{srv: pc}
	id := n.id()
	c.endpoint = endpoint{n: n, ID: id, addr: Addr{"udp", "10.0.0.2:" + strconv.Itoa(40000+id)}}
	c.endpoint.conn = c
	pc.peers[c.addr.S] = c
	return c
}

type arriveEv struct {
	n   *Net
	d   *Datagram
	to  *endpoint
	pc  *PacketConn
	cli *DgramConn
}

//go:norace
func (e *arriveEv) RunEvent(now time.Time) {
	if e.to.closed {
		e.d.Dropped = true
		return
	}
	if c := e.to.conn; c != nil && e.d.From != c.peerAddr() {
		// a connected socket only receives from its peer's address
		e.d.Dropped = true
		c.Strays++
		e.n.K.BumpLocked("probe.reply_from_other_address_not_received")
		return
	}
	e.to.rxq = append(e.to.rxq, e.d)
}

// route applies the link's faults to one datagram and schedules its arrival.
//
//go:norace
func (n *Net) route(from Addr, to *endpoint, payload []byte, injected bool, extraDelay time.Duration) *Datagram {
	k := n.K
	l := &n.Dgram
	d := &Datagram{ID: n.id(), From: from, To: to.addr, Orig: append([]byte(nil), payload...), Injected: injected, SentSeq: k.Seq}
	d.Data = d.Orig
	n.Dgrams = append(n.Dgrams, d)
	if !injected && l.Drop > 0 && k.Env.IntN(100) < l.Drop {
		d.Dropped = true
		k.BumpLocked("fault.dgram_drop")
		return d
	}
	if !injected && l.Corrupt > 0 && len(payload) > 0 && k.Env.IntN(100) < l.Corrupt {
		d.Data = append([]byte(nil), payload...)
		nflip := 1 + k.Env.IntN(3)
		for i := 0; i < nflip; i++ {
			d.Data[k.Env.IntN(len(d.Data))] ^= 1 << uint(k.Env.IntN(8))
		}
		d.Modified = true
		k.BumpLocked("fault.dgram_corrupt")
	}
	if !injected && l.Trunc > 0 && len(payload) > 1 && k.Env.IntN(100) < l.Trunc {
		d.Data = append([]byte(nil), d.Data[:k.Env.IntN(len(d.Data))]...)
		d.Modified = true
		k.BumpLocked("fault.dgram_trunc")
	}
	delay := l.MinDelay + extraDelay
	if l.Jitter > 0 {
		delay += time.Duration(k.Env.Int64N(int64(l.Jitter) + 1))
	}
	k.After(delay, "arrive", to.ID, &arriveEv{n: n, d: d, to: to})
	if !injected && l.Dup > 0 && k.Env.IntN(100) < l.Dup {
		c := &Datagram{ID: n.id(), From: from, To: to.addr, Orig: d.Orig, Data: d.Data, CopyOf: d.ID, Modified: d.Modified, SentSeq: k.Seq}
		n.Dgrams = append(n.Dgrams, c)
		d2 := delay
		if l.Jitter > 0 {
			d2 += time.Duration(k.Env.Int64N(int64(l.Jitter)*2 + 1))
		}
		k.After(d2, "arrive-dup", to.ID, &arriveEv{n: n, d: c, to: to})
		k.BumpLocked("fault.dgram_dup")
	}
	return d
}

// Inject places a forged datagram (from the server's address) into a
// client's receive queue after delay. Kernel goroutine or under Lock.
//
//go:norace
func (n *Net) InjectToClient(c *DgramConn, payload []byte, delay time.Duration) *Datagram {
	n.K.BumpLocked("fault.dgram_spoof")
	return n.route(c.peerAddr(), &c.endpoint, payload, true, delay)
}

// InjectToServer places a datagram with the given source into the server's
// queue.
//
//go:norace
func (n *Net) InjectToServer(pc *PacketConn, from Addr, payload []byte, delay time.Duration) *Datagram {
	return n.route(from, &pc.endpoint, payload, true, delay)
}

type recvOp struct {
	e    *endpoint
	p    []byte
	n    int
	d    *Datagram
	err  error
	pc   *PacketConn
	cli  *DgramConn
	opID int
}

//go:norace
func (o *recvOp) Ready(now time.Time) bool {
	return o.e.closed || len(o.e.rxq) > 0 || expired(o.e.rdl, now)
}

//go:norace
func (o *recvOp) Deadline() time.Time { return o.e.rdl }

//go:norace
func (o *recvOp) Done(now time.Time) {
	e := o.e
	switch {
	case e.closed:
		o.err = ErrClosed
	case expired(e.rdl, now):
		o.err = ErrTimeout
	default:
		if o.pc != nil {
			o.pc.attempts++
			for _, t := range o.pc.Transient {
				if t == o.pc.attempts-1 {
					o.err = ErrTransient
					e.n.K.BumpLocked("fault.read_transient_error")
					return
				}
			}
		}
		d := e.rxq[0]
		e.rxq = e.rxq[1:]
		o.n = copy(o.p, d.Data)
		if o.n < len(d.Data) {
			d.TruncRead = true
			e.n.K.BumpLocked("fault.dgram_trunc_by_reader")
		}
		d.Delivered = true
		d.RecvSeq = e.n.K.Seq
		o.d = d
		if o.pc != nil {
			d.Seen = append([]byte(nil), o.p[:o.n]...)
			d.buf = o.p[:cap(o.p)]
			d.bufOp = o.opID
			o.pc.Received = append(o.pc.Received, d)
		} else {
			o.cli.Received = append(o.cli.Received, d)
		}
	}
}

//go:norace
func bufKey(p []byte) uintptr {
	if cap(p) == 0 {
		return 0
	}
	return uintptr(unsafe.Pointer(unsafe.SliceData(p[:1])))
}

//go:norace
func (pc *PacketConn) recv(site string, p []byte) (*recvOp, error) {
	k := pc.n.K
	k.Lock()
	pc.opN++
	id := pc.opN
	if cap(p) > 0 {
		pc.issue[bufKey(p)] = id
	}
	k.Unlock()
	o := &recvOp{e: &pc.endpoint, p: p, pc: pc, opID: id}
	r := &kernel.Req{Site: site, Obj: pc.ID, Op: o}
	pc.n.block(r)
	if r.Aborted {
		return nil, ErrClosed
	}
	if o.err != nil {
		return nil, o.err
	}
	if o.d.hb != nil {
		hbAcquire(o.d.hb)
	}
	return o, nil
}

//go:norace
func (pc *PacketConn) ReadFrom(p []byte) (int, net.Addr, error) {
	o, err := pc.recv("pc.ReadFrom", p)
	if err != nil {
		return 0, nil, err
	}
	if pc.Anonymous {
		return o.n, nil, nil
	}
	return o.n, o.d.From, nil
}

// Scribble overwrites the receive buffer d was delivered into, provided the
// library has not since issued another read into the same backing array
// (DESIGN A.2). Returns whether it scribbled.
//
//go:norace
func (pc *PacketConn) Scribble(d *Datagram) bool {
	k := pc.n.K
	k.Lock()
	defer k.Unlock()
	if d == nil || cap(d.buf) == 0 || pc.issue[bufKey(d.buf)] != d.bufOp {
		return false
	}
	for i := range d.buf {
		d.buf[i] = 0xA5 ^ byte(i)
	}
	pc.Scribbled++
	return true
}

type sendOp struct {
	hb     *uint32 // released by the sender before it parks; the datagrams made from this send share it
	e      *endpoint
	p      []byte
	to     *endpoint
	from   Addr
	toAddr Addr // the address the datagram is sent to when the receiving host has several (zero: the endpoint's own)
	srv    bool
	err    error
	d      *Datagram
}

//go:norace
func (o *sendOp) Ready(now time.Time) bool { return true }

//go:norace
func (o *sendOp) Deadline() time.Time { return time.Time{} }

//go:norace
func (o *sendOp) Done(now time.Time) {
	if o.e.closed {
		o.err = ErrClosed
		return
	}
	if expired(o.e.wdl, now) {
		o.err = ErrTimeout
		return
	}
	if o.to == nil {
		return // no such peer: datagram vanishes
	}
	o.d = o.e.n.route(o.from, o.to, o.p, false, 0)
	o.d.hb, o.d.FromSrv = o.hb, o.srv
	if o.toAddr.S != "" {
		o.d.To = o.toAddr
	}
	for _, c := range o.e.n.Dgrams[max(len(o.e.n.Dgrams)-2, 0):] {
		if c.CopyOf == o.d.ID {
			c.hb, c.FromSrv, c.To = o.hb, o.srv, o.d.To // the link's duplicate carries the same ordering
		}
	}
}

//go:norace
func (pc *PacketConn) sendFrom(site string, p []byte, addr net.Addr, from Addr) error {
	if pc.Anonymous && addr == nil {
		k := pc.n.K
		k.Yield(site, pc.ID)
		k.Lock()
		pc.Unroutable = append(pc.Unroutable, append([]byte(nil), p...))
		k.EffectLocked("unroutable " + strconv.Itoa(len(p)))
		k.Unlock()
		return ErrNoDest
	}
	var to *endpoint
	if addr != nil {
		if c := pc.peers[addr.String()]; c != nil {
			to = &c.endpoint
		}
	}
	hb := new(uint32)
	hbRelease(hb)
	o := &sendOp{e: &pc.endpoint, p: p, to: to, from: from, hb: hb, srv: true}
	r := &kernel.Req{Site: site, Obj: pc.ID, Op: o}
	pc.n.block(r)
	if r.Aborted {
		return ErrClosed
	}
	return o.err
}

//go:norace
func (pc *PacketConn) WriteTo(p []byte, addr net.Addr) (int, error) {
	if err := pc.sendFrom("pc.WriteTo", p, addr, pc.addr); err != nil {
		return 0, err
	}
	return len(p), nil
}

//go:norace
func (e *endpoint) Close() error {
	k := e.n.K
	k.Lock()
	defer k.Unlock()
	e.Closes++
	if e.closed {
		return ErrClosed
	}
	e.closed = true
	k.EffectLocked("dclose #" + strconv.Itoa(e.ID))
	return nil
}

//go:norace
func (e *endpoint) IsClosed() bool { return e.closed }

//go:norace
func (e *endpoint) LocalAddr() net.Addr { return e.addr }

//go:norace
func (e *endpoint) SetDeadline(t time.Time) error {
	k := e.n.K
	k.Lock()
	defer k.Unlock()
	if e.closed {
		return ErrClosed
	}
	e.rdl, e.wdl = t, t
	k.EffectLocked("setdl #" + strconv.Itoa(e.ID) + " " + dlClass(t, time.Now()))
	return nil
}

//go:norace
func (e *endpoint) SetReadDeadline(t time.Time) error {
	k := e.n.K
	k.Lock()
	defer k.Unlock()
	if e.closed {
		return ErrClosed
	}
	e.rdl = t
	k.EffectLocked("setrdl #" + strconv.Itoa(e.ID) + " " + dlClass(t, time.Now()))
	return nil
}

//go:norace
func (e *endpoint) SetWriteDeadline(t time.Time) error {
	k := e.n.K
	k.Lock()
	defer k.Unlock()
	if e.closed {
		return ErrClosed
	}
	e.wdl = t
	return nil
}

//go:norace
func (e *endpoint) ReadDeadline() time.Time { return e.rdl }

//go:norace
func (e *endpoint) Pending() int { return len(e.rxq) }

// --- client side

//go:norace
func (c *DgramConn) Read(p []byte) (int, error) {
	o := &recvOp{e: &c.endpoint, p: p, cli: c}
	r := &kernel.Req{Site: "dg.Read", Obj: c.ID, Op: o}
	c.n.block(r)
	if r.Aborted {
		return 0, ErrClosed
	}
	if o.d != nil && o.d.hb != nil {
		hbAcquire(o.d.hb)
	}
	return o.n, o.err
}

//go:norace
func (c *DgramConn) ReadFrom(p []byte) (int, net.Addr, error) {
	n, err := c.Read(p)
	return n, c.peerAddr(), err
}

//go:norace
func (c *DgramConn) Write(p []byte) (int, error) {
	hb := new(uint32)
	hbRelease(hb)
	o := &sendOp{e: &c.endpoint, p: p, to: &c.srv.endpoint, from: c.addr, toAddr: c.remote, hb: hb}
	r := &kernel.Req{Site: "dg.Write", Obj: c.ID, Op: o}
	c.n.block(r)
	if r.Aborted {
		return 0, ErrClosed
	}
	if o.err != nil {
		return 0, o.err
	}
	return len(p), nil
}

//go:norace
func (c *DgramConn) WriteTo(p []byte, _ net.Addr) (int, error) { return c.Write(p) }

//go:norace
func (c *DgramConn) RemoteAddr() net.Addr { return c.peerAddr() }

var _ net.Conn = (*StreamConn)(nil)
var _ net.Conn = (*DgramConn)(nil)
var _ net.PacketConn = (*DgramConn)(nil)
var _ net.PacketConn = (*PacketConn)(nil)
var _ net.Listener = (*Listener)(nil)
var _ = errors.New
