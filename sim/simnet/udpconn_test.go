package simnet

import (
	"net"
	"testing"

	"golang.org/x/net/ipv4"
	"golang.org/x/net/ipv6"
)

// The hand-built control data must be what golang.org/x/net parses and produces on this platform.
func TestControlDataMatchesXNet(t *testing.T) {
	c4 := recvControl(Addr{"udp", "10.0.0.7:53"})
	cm4 := new(ipv4.ControlMessage)
	if err := cm4.Parse(c4); err != nil || !cm4.Dst.Equal(net.ParseIP("10.0.0.7")) || cm4.IfIndex != simInterface {
		t.Fatalf("v4 parse: %v %+v", err, cm4)
	}
	if len(c4) != len(ipv4.NewControlMessage(ipv4.FlagDst|ipv4.FlagInterface)) {
		t.Fatalf("v4 size %d", len(c4))
	}
	c6 := recvControl(Addr{"udp", "[fd00::1]:53"})
	cm6 := new(ipv6.ControlMessage)
	if err := cm6.Parse(c6); err != nil || !cm6.Dst.Equal(net.ParseIP("fd00::1")) || cm6.IfIndex != simInterface {
		t.Fatalf("v6 parse: %v %+v", err, cm6)
	}
	if len(c6) != len(ipv6.NewControlMessage(ipv6.FlagDst|ipv6.FlagInterface)) {
		t.Fatalf("v6 size %d", len(c6))
	}
	// a v6 parser must not see a destination in v4 data and vice versa
	if x := new(ipv6.ControlMessage); x.Parse(c4) == nil && x.Dst != nil {
		t.Fatalf("v6 parser saw %v in v4 data", x.Dst)
	}
	if x := new(ipv4.ControlMessage); x.Parse(c6) == nil && x.Dst != nil {
		t.Fatalf("v4 parser saw %v in v6 data", x.Dst)
	}
	o4 := (&ipv4.ControlMessage{Src: net.ParseIP("10.0.0.7")}).Marshal()
	if ip, bad := sendSource(o4); bad || !ip.Equal(net.ParseIP("10.0.0.7")) {
		t.Fatalf("v4 source: %v %v", ip, bad)
	}
	o6 := (&ipv6.ControlMessage{Src: net.ParseIP("fd00::1")}).Marshal()
	if ip, bad := sendSource(o6); bad || !ip.Equal(net.ParseIP("fd00::1")) {
		t.Fatalf("v6 source: %v %v", ip, bad)
	}
	if ip, bad := sendSource(nil); bad || ip != nil {
		t.Fatalf("empty: %v %v", ip, bad)
	}
}
