// Package c15 simulates incoming zone transfers: the real Transfer.In against
// the real Server + Transfer.Out or a scripted sender, every composition of
// the record sequence into envelopes, an on-path middlebox that drops,
// duplicates, swaps, alters, un-signs and re-keys envelopes, cuts and stalls
// the stream; judged against an RFC 5936 / RFC 1995 termination model and the
// independent RFC 8945 chain verifier (DESIGN 4, C15).
package c15

import (
	"context"
	"encoding/base64"
	"encoding/hex"
	"encoding/json"
	"errors"
	"fmt"
	"net"
	"strconv"
	"strings"
	"testing"
	"time"

	"github.com/miekg/dns"
	"verifsim/core"
	"verifsim/kernel"
	"verifsim/oracle"
	"verifsim/props/common"
	"verifsim/simnet"
)

type Scenario struct {
	RunSeed     uint64           `json:"run_seed"`
	Strategy    int              `json:"strategy"`
	PCTDepth    int              `json:"pct_depth,omitempty"`
	Kind        string           `json:"kind"`    // axfr | ixfr-inc | ixfr-axfr | ixfr-uptodate
	Records     int              `json:"records"` // records besides the SOAs (axfr / ixfr-axfr), or per difference section (ixfr-inc)
	Seqs        int              `json:"seqs,omitempty"`
	AllCuts     bool             `json:"all_cuts,omitempty"` // the scenario is run once for every composition of its record sequence into envelopes (small zones: at most 9 records), Cuts is ignored
	Cuts        []int            `json:"cuts,omitempty"`     // envelope boundaries: indices into the record sequence after which a new envelope starts
	Sender      string           `json:"sender"`             // out (real Server + Transfer.Out) | scripted
	Alg         string           `json:"alg,omitempty"`      // TSIG algorithm ("" = no TSIG)
	ClientKey   bool             `json:"client_key,omitempty"`
	ServerKey   bool             `json:"server_key,omitempty"`
	Fudge       int              `json:"fudge,omitempty"`
	Ops         []common.FrameOp `json:"ops,omitempty"`
	CutAt       int              `json:"cut_at,omitempty"` // link closes the stream towards the client after this many octets
	CutRST      bool             `json:"cut_rst,omitempty"`
	SegMode     int              `json:"segmode,omitempty"`
	ShortRead   int              `json:"shortread,omitempty"`
	DelayMs     int              `json:"delay_ms,omitempty"`
	TimeoutMs   int              `json:"read_timeout_ms"`
	ConsumerMs  int              `json:"consumer_ms,omitempty"` // the application spends this long on every envelope before it takes the next one off the channel
	StepBack    int              `json:"step_back,omitempty"`   // scripted sender: from its second envelope on its clock reads this many seconds less than before (stepped back by a time service, a leap second): later envelopes carry an earlier time signed, all inside the fudge
	SkewS       int              `json:"skew_s,omitempty"`      // scripted sender: its clock is this many seconds off the receiver's (ahead when positive) - inside the fudge unless a fault plan says otherwise
	EmptyKeys   bool             `json:"empty_keys,omitempty"`  // the receiver has TSIG switched on (a non-nil secret map) but holds no key: no envelope can verify
	Dial        string           `json:"dial,omitempty"`        // "" a preset connection | ok | refused : Transfer.In makes the connection itself (socket seam of the instrumented build; a preset connection elsewhere)
	Hijack      bool             `json:"hijack,omitempty"`      // sender "out": the handler takes the connection over (Hijack), returns, and Transfer.Out carries on from another task - while a bystander asks the same server ordinary questions over connections of its own
	OutFailAt   int              `json:"out_fail_at,omitempty"` // sender "out": the n-th write on the sender's side of the connection fails (after a prefix of the envelope, or nothing, has gone out); later writes would succeed
	Twin        bool             `json:"twin,omitempty"`        // sender "out": the application keeps ONE dns.Transfer value for all its outgoing transfers, and a second receiver asks the same server for the same zone over a connection of its own while the first transfer runs
	Foreign     bool             `json:"foreign,omitempty"`     // sender "out": Transfer.Out writes through a ResponseWriter that is not the library's server's - an application's own, which signs what it is given under the request's MAC and goes by the TsigTimersOnly calls it receives
	HijackLate  bool             `json:"hijack_late,omitempty"` // sender "out", paced: the handler starts Transfer.Out in a task of its own, waits until the first envelope is on its way, then takes the connection over (Hijack) and returns - the order the library's own transfer tests use
	OutPaceMs   int              `json:"out_pace_ms,omitempty"` // sender "out": the application hands Transfer.Out one envelope every so often; with a fudge of 5 s the whole transfer takes longer than the fudge
	PaceMs      int              `json:"pace_ms,omitempty"`     // scripted sender: pause between envelopes (shorter than the read timeout; the whole transfer may take much longer than it)
	BadFirst    bool             `json:"bad_first,omitempty"`   // scripted: the sequence does not start with an SOA
	Rcode       int              `json:"rcode,omitempty"`       // scripted: envelope RcodeAt carries this RCODE
	RcodeAt     int              `json:"rcode_at,omitempty"`
	WrongID     int              `json:"wrong_id_at,omitempty"`   // scripted: envelope index+1 that carries another ID (0 = none)
	Trailing    bool             `json:"trailing,omitempty"`      // scripted: one more envelope after the closing one
	DefTimeout  bool             `json:"def_timeout,omitempty"`   // Transfer.ReadTimeout is left at zero: the documented default of 2 s applies (read_timeout_ms is 2000)
	QCase       bool             `json:"qcase,omitempty"`         // the zone is asked for in another letter case than the one the sender spells it in
	LocalClose  int              `json:"local_close,omitempty"`   // the application closes the transfer's connection itself after taking this many envelopes
	Reuse       bool             `json:"reuse,omitempty"`         // the application's Transfer value has carried a transfer before (a small unsigned AXFR over a connection of its own, taken to the end) and is handed the connection of the transfer under test afterwards
	UDP         bool             `json:"udp,omitempty"`           // IXFR over UDP (RFC 1995, section 2): the application hands Transfer.In a datagram connection; the answer is one datagram - of more than 512 octets in most runs - from a real Server's handler
	NoDeadlines bool             `json:"no_deadlines,omitempty"`  // the caller-supplied connection is of a kind that cannot time out (SetReadDeadline reports an error): a transfer over a healthy link is complete all the same
	FinWithLast bool             `json:"fin_with_last,omitempty"` // a link without faults whose far end closes right behind the closing envelope: the receiver's last read may return the last octets together with io.EOF, as an io.Reader may (a TLS connection, a tunnel)
	Big         int              `json:"big,omitempty"`           // axfr / ixfr-axfr: the envelope that holds the second record of the zone is filled up with TXT records until its message - as the sender builds it, unsigned TSIG stub included - is 65535 + Big - 1000 octets long (Big 1000: exactly what a stream can frame before the MAC is added; 0 = off)
}

const (
	secretGood = "dGhpcyBpcyB0aGUgcmlnaHQgc2VjcmV0ISEh"
	secretBad  = "dGhpcyBpcyBhbm90aGVyIHNlY3JldC4uLi4u"
	keyName    = "xfr-key.example."
	zone       = "xfr.example."
)

var algs = []string{dns.HmacSHA1, dns.HmacSHA224, dns.HmacSHA256, dns.HmacSHA384, dns.HmacSHA512}

func Gen(seed uint64, tier string) any {
	r := core.Rng(seed)
	sc := &Scenario{RunSeed: seed}
	sc.Strategy = r.IntN(kernel.NumStrats)
	sc.PCTDepth = 1 + r.IntN(3)
	sc.Kind = core.Pick(r, "axfr", "axfr", "axfr", "ixfr-inc", "ixfr-inc", "ixfr-axfr", "ixfr-uptodate")
	maxr := 8
	if tier == "thorough" {
		maxr = 60
	}
	sc.Records = r.IntN(maxr + 1)
	if core.Chance(r, 15) {
		sc.Records = core.Pick(r, 0, 1, 2)
	}
	sc.Seqs = 1 + r.IntN(3)
	if sc.Kind == "ixfr-inc" && sc.Records > 10 {
		sc.Records = r.IntN(10)
	}
	if strings.HasPrefix(sc.Kind, "ixfr") && core.Chance(r, 6) {
		// IXFR over UDP: one datagram, no middlebox, no faults; small and large answers
		sc.UDP = true
		sc.Records = core.Pick(r, 0, 1, 3, 6, 12, 20)
		if sc.Kind == "ixfr-inc" && sc.Records > 8 {
			sc.Records = 8
		}
		if core.Chance(r, 40) {
			sc.Alg, sc.ClientKey, sc.ServerKey, sc.Fudge = core.Pick(r, algs...), true, true, 300
		}
		sc.TimeoutMs = core.Pick(r, 2000, 5000)
		sc.DelayMs = core.Pick(r, 0, 1, 20)
		sc.QCase = core.Chance(r, 15)
		sc.Sender = "out"
		return sc
	}
	n := totalRecords(sc)
	switch r.IntN(4) {
	case 0: // one record per envelope
		for i := 1; i < n; i++ {
			sc.Cuts = append(sc.Cuts, i)
		}
	case 1: // everything in one
	default:
		for i := 1; i < n; i++ {
			if core.Chance(r, 35) {
				sc.Cuts = append(sc.Cuts, i)
			}
		}
	}
	if n <= 9 && core.Chance(r, map[bool]int{true: 12, false: 2}[tier == "thorough"]) {
		sc.AllCuts, sc.Cuts = true, nil
	}
	sc.Sender = core.Pick(r, "out", "scripted")
	if core.Chance(r, 55) {
		sc.Alg = core.Pick(r, algs...)
		if core.Chance(r, 15) {
			sc.Alg = strings.ToUpper(sc.Alg[:5]) + sc.Alg[5:]
		}
		sc.ClientKey, sc.ServerKey = true, true
		sc.Fudge = core.Pick(r, 300, 300, 5, 1)
	}
	if sc.Alg != "" && core.Chance(r, 30) {
		// the two ends' clocks disagree, by less than the fudge (or by exactly the fudge: still valid)
		f := max(sc.Fudge, 1)
		sc.SkewS = core.Pick(r, 1, -1, 2, f-1, 1-f, f/2, f)
	}
	if sc.Alg != "" && sc.Fudge >= 5 && core.Chance(r, 15) {
		sc.SkewS, sc.StepBack = core.Pick(r, 0, 1, 2), core.Pick(r, 1, 1, 2, 4)
	}
	if sc.Alg == "" && core.Chance(r, 6) {
		sc.EmptyKeys = true
	} else if sc.Alg != "" && core.Chance(r, 5) {
		sc.EmptyKeys, sc.ClientKey = true, false
	}
	sc.SegMode = r.IntN(3)
	sc.ShortRead = core.Pick(r, 0, 40, 90)
	sc.DelayMs = core.Pick(r, 0, 1, 20)
	sc.TimeoutMs = core.Pick(r, 2000, 5000, 500)
	if core.Chance(r, 20) {
		sc.DefTimeout, sc.TimeoutMs = true, 2000
	}
	sc.QCase = core.Chance(r, 15)
	if core.Chance(r, 30) {
		sc.Dial = core.Pick(r, "ok", "ok", "ok", "refused")
	}
	if core.Chance(r, 15) {
		sc.PaceMs = sc.TimeoutMs * core.Pick(r, 3, 6, 8) / 10
	}
	if core.Chance(r, 20) {
		sc.ConsumerMs = core.Pick(r, 1, sc.TimeoutMs/2, sc.TimeoutMs+100, 3*sc.TimeoutMs)
	}
	sc.Hijack = sc.Sender == "out" && core.Chance(r, 25)
	if sc.Sender == "out" && sc.Alg != "" && sc.ConsumerMs == 0 && sc.PaceMs == 0 && core.Chance(r, 25) {
		sc.OutPaceMs = core.Pick(r, 1500, 2500, 4000)
		sc.Fudge, sc.TimeoutMs, sc.DefTimeout = 5, 8000, false
	}
	if sc.Sender == "out" && sc.OutPaceMs == 0 && sc.ConsumerMs == 0 && sc.PaceMs == 0 && core.Chance(r, 8) {
		sc.OutPaceMs, sc.TimeoutMs, sc.DefTimeout = core.Pick(r, 2500, 4000), 8000, false // (the same without TSIG)
		if sc.Alg != "" {
			sc.Fudge = 300
		}
	}
	if sc.OutPaceMs > 0 && core.Chance(r, 50) {
		sc.HijackLate, sc.Hijack = true, false
	}
	if sc.Sender == "out" && sc.OutPaceMs == 0 && !sc.Hijack && core.Chance(r, 20) {
		// (many small envelopes, so that the two transfers have many chances to meet)
		sc.Twin = true
		if n := totalRecords(sc); n >= 3 && !sc.AllCuts && core.Chance(r, 70) {
			sc.Cuts = nil
			for i := 1; i < n; i++ {
				sc.Cuts = append(sc.Cuts, i)
			}
		}
	}
	if sc.Sender == "out" && !sc.Twin && !sc.Hijack && !sc.HijackLate && sc.Dial == "" && core.Chance(r, 12) {
		sc.Foreign = true
	}
	if sc.Sender == "out" && !sc.Twin && core.Chance(r, 8) {
		sc.OutFailAt = 1 + r.IntN(len(sc.Cuts)+1)
	}
	defer func() {
		if sc.OutPaceMs > 0 {
			// a fault-free, slow transfer (the sender must have stayed the real one)
			sc.Ops, sc.CutAt = nil, 0
			if sc.Sender != "out" {
				sc.OutPaceMs = 0
			}
		}
	}()
	defer func() {
		// a slow consumer shifts the instant at which later envelopes are verified;
		// keep that apart from the fudge-boundary experiments
		if sc.ConsumerMs > 0 || sc.PaceMs > 0 {
			var ops []common.FrameOp
			for _, op := range sc.Ops {
				if op.Kind != "delay" {
					ops = append(ops, op)
				}
			}
			sc.Ops = ops
			if sc.Fudge != 0 && sc.Fudge < 300 {
				sc.Fudge = 300
			}
		}
	}()
	nenv := len(sc.Cuts) + 1
	// faults
	switch x := r.IntN(100); {
	case x < 40: // benign
	case x < 75:
		kinds := []string{"drop", "dup", "swap", "flip", "id", "rcode", "stall", "delay"}
		if sc.Alg != "" {
			kinds = append(kinds, "unsign", "wrongkey", "flip", "unsign", "wrongkey", "shortmac", "shortmac", "nokey", "parentkey", "heldkey", "heldkey", "otherform", "otherform")
		}
		nf := 1
		if core.Chance(r, 20) {
			nf = 2
		}
		used := map[int]bool{}
		for i := 0; i < nf; i++ {
			op := common.FrameOp{Env: r.IntN(nenv), Kind: core.Pick(r, kinds...)}
			if used[op.Env] {
				continue
			}
			used[op.Env] = true
			if op.Kind == "parentkey" || op.Kind == "heldkey" {
				op.Frac = r.IntN(2)
			}
			if op.Kind == "flip" {
				op.Region = core.Pick(r, "header", "id", "counts", "question", "records", "records", "tsig", "mac")
				op.Frac, op.Bit = r.IntN(1000), r.IntN(8)
			}
			if op.Kind == "shortmac" {
				op.Frac = core.Pick(r, 0, 0, 1, 4, 9) // octets of MAC kept
			}
			if op.Kind == "delay" {
				f := sc.Fudge
				if f == 0 {
					f = 300
				}
				op.DelayS = core.Pick(r, f-1, f, f+1, 1, f+30)
				if op.DelayS*1000 >= sc.TimeoutMs {
					sc.TimeoutMs = op.DelayS*1000 + 3000
				}
			}
			sc.Ops = append(sc.Ops, op)
		}
	case x < 85:
		sc.CutAt = 1 + r.IntN(40+60*n)
		sc.CutRST = core.Chance(r, 30)
	default:
		sc.Sender = "scripted"
		switch r.IntN(4) {
		case 0:
			sc.BadFirst = true
		case 1:
			sc.Rcode, sc.RcodeAt = core.Pick(r, 2, 5, 9, 1, 16, 16, 17, 32), r.IntN(nenv) // (16 and up: extended RCODEs, their upper bits travel in an OPT record)
		case 2:
			sc.WrongID = 1 + r.IntN(nenv)
		case 3:
			sc.Trailing = true
		}
	}
	if core.Chance(r, 10) {
		sc.LocalClose = 1 + r.IntN(3)
	}
	if (sc.Kind == "axfr" || sc.Kind == "ixfr-axfr") && !sc.AllCuts && !sc.Twin && core.Chance(r, 4) {
		// one envelope at the edge of what a stream can frame: one octet more and it cannot be sent, and a MAC
		// of 20 .. 64 octets has yet to be added to it
		sc.Big = 1000 + core.Pick(r, 0, 0, -1, 1, 2, -10, -19, -20, -21, -27, -28, -29, -31, -32, -33, -47, -48, -49, -63, -64, -65, -66, -100, -700)
	}
	if len(sc.Ops) == 0 && sc.CutAt == 0 && !sc.BadFirst && sc.Rcode == 0 && sc.WrongID == 0 && !sc.Trailing && sc.LocalClose == 0 && sc.OutFailAt == 0 && core.Chance(r, 12) {
		sc.FinWithLast = true
	}
	if len(sc.Ops) == 0 && sc.CutAt == 0 && !sc.BadFirst && sc.Rcode == 0 && sc.WrongID == 0 && !sc.Trailing && sc.OutFailAt == 0 && sc.Dial == "" && sc.Big == 0 && core.Chance(r, 8) {
		sc.NoDeadlines = true
	}
	if !sc.EmptyKeys && sc.Dial == "" && (sc.Alg == "" || (sc.ClientKey && sc.ServerKey)) && core.Chance(r, 12) {
		sc.Reuse = true
	}
	if sc.TimeoutMs != 2000 {
		sc.DefTimeout = false
	}
	return sc
}

func Decode(raw json.RawMessage) (any, error) {
	sc := &Scenario{}
	err := json.Unmarshal(raw, sc)
	return sc, err
}

func Shrink(x any) []any {
	sc := x.(*Scenario)
	var out []any
	cp := func() *Scenario {
		b, _ := json.Marshal(sc)
		n := &Scenario{}
		json.Unmarshal(b, n)
		return n
	}
	if sc.AllCuts {
		// first find the composition that fails
		for _, cuts := range compositions(totalRecords(sc)) {
			n := cp()
			n.AllCuts, n.Cuts = false, cuts
			out = append(out, n)
		}
		return out
	}
	for i := range sc.Ops {
		n := cp()
		n.Ops = append(n.Ops[:i], n.Ops[i+1:]...)
		out = append(out, n)
	}
	if sc.Records > 0 {
		for _, v := range []int{0, sc.Records / 2, sc.Records - 1} {
			if v != sc.Records {
				n := cp()
				n.Records = v
				tot := totalRecords(n)
				var cuts []int
				for _, c := range n.Cuts {
					if c < tot {
						cuts = append(cuts, c)
					}
				}
				n.Cuts = cuts
				for j := range n.Ops {
					if n.Ops[j].Env > len(cuts) {
						n.Ops[j].Env = len(cuts)
					}
				}
				out = append(out, n)
			}
		}
	}
	if len(sc.Cuts) > 0 && len(sc.Ops) == 0 && sc.RcodeAt == 0 && sc.WrongID == 0 {
		n := cp()
		n.Cuts = nil
		out = append(out, n)
		n = cp()
		n.Cuts = n.Cuts[:len(n.Cuts)/2]
		out = append(out, n)
	}
	if sc.Alg != "" && len(sc.Ops) == 0 {
		n := cp()
		n.Alg, n.ClientKey, n.ServerKey = "", false, false
		out = append(out, n)
	}
	if sc.Seqs > 1 {
		n := cp()
		n.Seqs = 1
		out = append(out, n)
	}
	num := func(f func(n *Scenario) *int) {
		if *f(sc) != 0 {
			n := cp()
			*f(n) = 0
			out = append(out, n)
		}
	}
	num(func(n *Scenario) *int { return &n.SegMode })
	num(func(n *Scenario) *int { return &n.ShortRead })
	num(func(n *Scenario) *int { return &n.DelayMs })
	num(func(n *Scenario) *int { return &n.Strategy })
	num(func(n *Scenario) *int { return &n.CutAt })
	num(func(n *Scenario) *int { return &n.ConsumerMs })
	num(func(n *Scenario) *int { return &n.PaceMs })
	num(func(n *Scenario) *int { return &n.Big })
	if sc.Sender == "out" {
		n := cp()
		n.Sender = "scripted"
		out = append(out, n)
	}
	return out
}

// ---------------------------------------------------------------- zone

//go:norace
func soa(serial uint32) dns.RR {
	return &dns.SOA{Hdr: dns.RR_Header{Name: zone, Rrtype: dns.TypeSOA, Class: dns.ClassINET, Ttl: 3600},
		Ns: "ns1." + zone, Mbox: "hostmaster." + zone, Serial: serial, Refresh: 7200, Retry: 3600, Expire: 1209600, Minttl: 300}
}

//go:norace
func rec(tag string, i int) dns.RR {
	owner := tag + strconv.Itoa(i) + "." + zone
	switch i % 8 {
	case 4:
		return &dns.AAAA{Hdr: dns.RR_Header{Name: owner, Rrtype: dns.TypeAAAA, Class: dns.ClassINET, Ttl: 300}, AAAA: []byte{0x20, 1, 0xd, 0xb8, 0, 0, 0, 0, 0, 0, 0, 0, 0, 0, 1, byte(i)}}
	case 5:
		// opaque and address-list parameters: values a decoder is tempted to leave pointing into its receive buffer
		ech := make([]byte, 40+i%7)
		for j := range ech {
			ech[j] = byte(0xe0 + (i+j)%16)
		}
		return &dns.HTTPS{SVCB: dns.SVCB{Hdr: dns.RR_Header{Name: owner, Rrtype: dns.TypeHTTPS, Class: dns.ClassINET, Ttl: 300}, Priority: 1, Target: ".",
			Value: []dns.SVCBKeyValue{&dns.SVCBAlpn{Alpn: []string{"h2", "h3"}}, &dns.SVCBIPv4Hint{Hint: []net.IP{{192, 0, 2, byte(i)}, {198, 51, 100, 7}}},
				&dns.SVCBECHConfig{ECH: ech}, &dns.SVCBIPv6Hint{Hint: []net.IP{{0x20, 1, 0xd, 0xb8, 0, 0, 0, 0, 0, 0, 0, 0, 0, 0, 2, byte(i)}}}}}}
	case 6:
		return &dns.SVCB{Hdr: dns.RR_Header{Name: owner, Rrtype: dns.TypeSVCB, Class: dns.ClassINET, Ttl: 300}, Priority: 2, Target: "svc." + zone,
			Value: []dns.SVCBKeyValue{&dns.SVCBPort{Port: 8000 + uint16(i)}, &dns.SVCBLocal{KeyCode: 65333, Data: []byte("local-data-" + strconv.Itoa(i))}}}
	case 7:
		return &dns.APL{Hdr: dns.RR_Header{Name: owner, Rrtype: dns.TypeAPL, Class: dns.ClassINET, Ttl: 300},
			Prefixes: []dns.APLPrefix{{Network: net.IPNet{IP: net.IP{192, 0, byte(i), 0}, Mask: net.CIDRMask(24, 32)}}, {Negation: true, Network: net.IPNet{IP: net.IP{0x20, 1, 0xd, 0xb8, 0, 0, 0, 0, 0, 0, 0, 0, 0, 0, 0, 0}, Mask: net.CIDRMask(32, 128)}}}}
	case 0:
		return &dns.A{Hdr: dns.RR_Header{Name: owner, Rrtype: dns.TypeA, Class: dns.ClassINET, Ttl: 300}, A: []byte{192, 0, 2, byte(i)}}
	case 1:
		return &dns.TXT{Hdr: dns.RR_Header{Name: owner, Rrtype: dns.TypeTXT, Class: dns.ClassINET, Ttl: 300}, Txt: []string{"record", strconv.Itoa(i)}}
	case 2:
		return &dns.MX{Hdr: dns.RR_Header{Name: owner, Rrtype: dns.TypeMX, Class: dns.ClassINET, Ttl: 300}, Preference: uint16(i), Mx: "mail." + zone}
	}
	return &dns.NS{Hdr: dns.RR_Header{Name: owner, Rrtype: dns.TypeNS, Class: dns.ClassINET, Ttl: 300}, Ns: "ns" + strconv.Itoa(i) + "." + zone}
}

const (
	newSerial    = 2024000100
	clientSerial = 2024000050
)

// sequence is the record sequence the sender transmits.
//
//go:norace
func sequence(sc *Scenario) []dns.RR {
	var s []dns.RR
	switch sc.Kind {
	case "ixfr-uptodate":
		return []dns.RR{soa(clientSerial)}
	case "ixfr-inc":
		s = append(s, soa(newSerial))
		from := uint32(clientSerial)
		for q := 0; q < sc.Seqs; q++ {
			to := uint32(clientSerial + 10*(q+1))
			if q == sc.Seqs-1 {
				to = newSerial
			}
			s = append(s, soa(from))
			for i := 0; i < sc.Records; i++ {
				s = append(s, rec("del"+strconv.Itoa(q)+"-", i))
			}
			s = append(s, soa(to))
			for i := 0; i < sc.Records; i++ {
				s = append(s, rec("add"+strconv.Itoa(q)+"-", i))
			}
			from = to
		}
		return append(s, soa(newSerial))
	}
	s = append(s, soa(newSerial))
	for i := 0; i < sc.Records; i++ {
		s = append(s, rec("r", i))
	}
	return append(s, soa(newSerial))
}

func totalRecords(sc *Scenario) int {
	switch sc.Kind {
	case "ixfr-uptodate":
		return 1
	case "ixfr-inc":
		return 2 + sc.Seqs*(2+2*sc.Records)
	}
	return 2 + sc.Records
}

//go:norace
func envelopes(sc *Scenario) [][]dns.RR {
	seq := sequence(sc)
	if sc.BadFirst && len(seq) > 0 {
		seq = append([]dns.RR{rec("intruder", 1)}, seq...)
	}
	var out [][]dns.RR
	start := 0
	for _, c := range sc.Cuts {
		if c > start && c < len(seq) {
			out = append(out, seq[start:c])
			start = c
		}
	}
	out = append(out, seq[start:])
	if sc.Big > 0 && len(seq) >= 2 && !sc.BadFirst {
		e := 0
		if len(out[0]) < 2 {
			e = 1
		}
		pads := padTo(out[e], 65535+sc.Big-1000, sc)
		if e == 0 {
			out[0] = append(append(append([]dns.RR(nil), out[0][:1]...), pads...), out[0][1:]...)
		} else {
			out[1] = append(append([]dns.RR(nil), pads...), out[1]...)
		}
	}
	return out
}

// padTo returns TXT records that bring the message a sender makes of rrs - reply to the transfer's question,
// records in the answer section, uncompressed, the unsigned TSIG stub when the transfer is signed - to want octets.
// (Only the size of the workload hangs on this arithmetic, no verdict does.)
//
//go:norace
func padTo(rrs []dns.RR, want int, sc *Scenario) []dns.RR {
	m := new(dns.Msg)
	m.SetQuestion(zone, dns.TypeAXFR)
	m.Response, m.Authoritative = true, true
	m.Answer = rrs
	if sc.Alg != "" && sc.ClientKey && sc.ServerKey {
		m.SetTsig(keyName, sc.Alg, uint16(max(sc.Fudge, 1)), 0)
	}
	need := want - m.Len()
	owner := func(i int) string { return fmt.Sprintf("pad%03d.", i) + zone }
	over := len(owner(0)) + 1 + 10 + 1 // owner on the wire, fixed part of the record, one length octet
	var pads []dns.RR
	for n := 1; n < 400; n++ {
		payload := need - n*over
		if payload < 0 {
			break
		}
		if payload > 255*n {
			continue
		}
		for i := 0; i < n; i++ {
			l := min(payload, 255)
			payload -= l
			pads = append(pads, &dns.TXT{Hdr: dns.RR_Header{Name: owner(i), Rrtype: dns.TypeTXT, Class: dns.ClassINET, Ttl: 300}, Txt: []string{strings.Repeat(string(rune('a'+i%26)), l)}})
		}
		break
	}
	return pads
}

// ---------------------------------------------------------------- run

type item struct {
	recs []string
	err  string
	t    time.Time
	rrs  []dns.RR // the delivered objects themselves (they stay on the consumer's goroutine)
}

type run struct {
	sc                  *Scenario
	k                   *kernel.K
	n                   *simnet.Net
	res                 *core.Result
	relay               *common.Relay
	items               []item
	closedT             time.Time
	chClosed            bool
	connClosedAtChClose bool // the connection was already closed when the consumer saw the channel closed
	inErr               string
	dials               int
	refused             bool
	cliFin              bool
	sndFin              bool
	qid                 uint16
	cliConn             *simnet.StreamConn
	sndConn             *simnet.StreamConn
	srv                 *dns.Server
	l                   *simnet.Listener
	serveRet            bool
	inStart             time.Time // when Transfer.In was called for the transfer under test
	outErr              string
	firstFed            bool // the feeder has handed its first envelope to Transfer.Out
	outDone             bool // Transfer.Out has returned (outErr says how)
	sharedTr            dns.Transfer
	twinFin             bool
	twinsDone           int
	lastFaultT          time.Time
	localClosed         bool // the application closed the connection itself while the transfer was running
}

//go:norace
func secrets() map[string]string {
	return map[string]string{keyName: secretGood, heldKeyName: heldSecret}
}

// a second key both ends hold (for another zone, another peer); no request of a run is made under it
const (
	heldKeyName = "held-too.example."
	heldSecret  = "aGVsZC10b28tc2VjcmV0LTAxMjM0NTY3ODlhYmNkZWY="
)

type clientTask struct{ x *run }

//go:norace
func (c *clientTask) RunEvent(time.Time) {
	x, k, sc := c.x, c.x.k, c.x.sc
	defer func() {
		k.Announce()
		k.Lock()
		x.cliFin = true
		k.Unlock()
	}()
	t := &dns.Transfer{Conn: &dns.Conn{Conn: x.cliConn}, ReadTimeout: time.Duration(sc.TimeoutMs) * time.Millisecond, WriteTimeout: 5 * time.Second}
	if sc.DefTimeout {
		t.ReadTimeout = 0
	}
	dialling := sc.Dial != "" && common.DialSeam()
	if dialling {
		// Transfer.In makes the connection itself
		t.Conn = nil
		t.DialTimeout = 3 * time.Second
		defer common.InstallSockets(&common.Sockets{Dial: x.dial})()
		x.res.Bump("cover.transfer_dials_itself")
	}
	if sc.Reuse && !dialling && !sc.EmptyKeys && (sc.Alg == "" || (sc.ClientKey && sc.ServerKey)) {
		// an earlier transfer with the same Transfer value: three records in one envelope from a sender of its own,
		// over a connection of its own, read to the end
		w1, w2 := x.n.Pair(true)
		k.Go("warm-sender", &warmSender{x, w2})
		t.Conn = &dns.Conn{Conn: w1}
		q0 := new(dns.Msg)
		q0.SetAxfr("warm.example.")
		q0.Id = 3999
		if sc.Alg != "" {
			// ... a signed one, in two envelopes: the chain of that transfer ends with it
			t.TsigSecret = secrets()
			q0.SetTsig(keyName, sc.Alg, uint16(max(sc.Fudge, 1)), time.Now().Unix())
		}
		n0, e0 := 0, ""
		if env0, err := t.In(q0, "10.0.0.9:53"); err != nil {
			e0 = err.Error()
		} else {
			for e := range env0 {
				n0 += len(e.RR)
				if e.Error != nil {
					e0 = e.Error.Error()
				}
			}
		}
		k.Lock()
		x.res.Stats["cover.transfer_value_used_before"]++
		if e0 != "" || n0 != 3 {
			x.res.Fail("T1", "earlier-transfer-failed", "the small transfer that came before the one under test (three records in one envelope, a healthy link) delivered %d records and the error %q", n0, e0)
		}
		k.Unlock()
		t.Conn = &dns.Conn{Conn: x.cliConn}
	}
	asked := zone
	if sc.QCase {
		asked = "XFR.Example."
	}
	q := new(dns.Msg)
	if strings.HasPrefix(sc.Kind, "ixfr") {
		q.SetIxfr(asked, clientSerial, "ns1."+zone, "hostmaster."+zone)
	} else {
		q.SetAxfr(asked)
	}
	q.Id = x.qid
	if sc.Alg != "" && sc.ClientKey {
		t.TsigSecret = secrets()
		q.SetTsig(keyName, sc.Alg, uint16(sc.Fudge), time.Now().Unix())
	}
	if t.TsigSecret != nil && len(t.TsigSecret) > 0 && sc.RunSeed%4 == 0 {
		// the keys come through a provider of the application's own
		t.TsigProvider, t.TsigSecret = hmacProvider(t.TsigSecret), nil
		x.res.Bump("cover.transfer_tsig_provider")
	}
	if sc.EmptyKeys && t.TsigSecret == nil && t.TsigProvider == nil {
		t.TsigSecret = map[string]string{}
		x.res.Bump("fault.receiver_with_empty_secret_map")
	}
	k.Lock()
	x.inStart = time.Now()
	k.Unlock()
	env, err := t.In(q, "10.0.0.1:53")
	if dialling {
		k.Lock()
		x.res.Stats["oracle.T3_dial_outcome_reported"]++
		switch {
		case x.dials != 1:
			x.res.Fail("T3", "dial-count", "Transfer.In made %d connection attempts, want one", x.dials)
		case sc.Dial == "refused" && (err == nil || env != nil):
			x.res.Fail("T3", "error-hidden:dial-refused", "the connection attempt was refused, yet Transfer.In returned (%v, %v)", env != nil, err)
		}
		k.Unlock()
		if sc.Dial == "refused" {
			x.cliConn.Close() // nobody is coming: let the other side go home
			k.Lock()
			x.refused = true
			k.Unlock()
			return
		}
	}
	if err != nil {
		k.Lock()
		x.inErr = err.Error()
		k.Unlock()
		return
	}
	for e := range env {
		it := item{err: common.ErrStr(e.Error), t: time.Now(), rrs: e.RR}
		for _, rr := range e.RR {
			it.recs = append(it.recs, rr.String())
		}
		k.Lock()
		x.items = append(x.items, it)
		k.EffectLocked("env " + strconv.Itoa(len(it.recs)) + " " + errClass(it.err))
		k.Unlock()
		if sc.ConsumerMs > 0 {
			k.Sleep("consumer.work", time.Duration(sc.ConsumerMs)*time.Millisecond)
		}
		if sc.LocalClose > 0 && len(x.items) == sc.LocalClose && it.err == "" {
			// the application gives up on the transfer (a supervisor, a deadline of its own)
			k.Lock()
			x.localClosed = true
			k.BumpLocked("fault.transfer_closed_by_application")
			k.Unlock()
			t.Close()
		}
	}
	closedNow := x.cliConn.IsClosed()
	// what was delivered stays what it was: a record handed out earlier must not change when later envelopes are read
	k.Lock()
	for i := range x.items {
		for j, rr := range x.items[i].rrs {
			x.res.Stats["oracle.T1_delivered_records_stable"]++
			if now := rr.String(); now != x.items[i].recs[j] {
				x.res.Fail("T1", "delivered-record-changed", "record %d of envelope %d read %q when it was delivered and reads %q now that the transfer is over: it shares memory with something the receiver reused", j, i, x.items[i].recs[j], now)
			}
		}
	}
	x.chClosed, x.closedT, x.connClosedAtChClose = true, time.Now(), closedNow
	k.Unlock()
}

// hmacProvider is a TsigProvider with its own HMAC code (oracle.HMAC).
type hmacProvider map[string]string

//go:norace
func (p hmacProvider) Generate(msg []byte, t *dns.TSIG) ([]byte, error) {
	sec, ok := p[t.Hdr.Name]
	if !ok {
		return nil, dns.ErrSecret
	}
	raw, err := base64.StdEncoding.DecodeString(sec)
	if err != nil {
		return nil, err
	}
	m := oracle.HMAC(dns.CanonicalName(t.Algorithm), raw, msg)
	if m == nil {
		return nil, dns.ErrKeyAlg
	}
	return m, nil
}

//go:norace
func (p hmacProvider) Verify(msg []byte, t *dns.TSIG) error {
	m, err := p.Generate(msg, t)
	if err != nil {
		return err
	}
	if hex.EncodeToString(m) != strings.ToLower(t.MAC) {
		return dns.ErrSig
	}
	return nil
}

// dial answers the connection attempt of Transfer.In (socket seam).
//
//go:norace
func (x *run) dial(d *net.Dialer, ctx context.Context, network, addr string) (net.Conn, error) {
	x.k.Yield("dial."+network, 0)
	x.k.Lock()
	x.dials++
	x.k.Unlock()
	x.k.Sleep("dial.wait", 5*time.Millisecond)
	if x.sc.Dial == "refused" {
		x.k.Bump("fault.dial_refused")
		return nil, &net.OpError{Op: "dial", Net: network, Err: errors.New("connect: connection refused")}
	}
	return x.cliConn, nil
}

//go:norace
func errClass(e string) string {
	switch {
	case e == "":
		return "ok"
	case strings.Contains(e, "timeout"):
		return "timeout"
	case strings.Contains(e, "EOF"):
		return "eof"
	case strings.Contains(e, "reset"):
		return "reset"
	case strings.Contains(e, "bad xfr rcode"):
		return "rcode"
	case strings.Contains(e, "id mismatch"):
		return "id"
	case strings.Contains(e, "no SOA"):
		return "soa"
	case strings.Contains(e, "signature") || strings.Contains(e, "TSIG") || strings.Contains(e, "secret") || strings.Contains(e, "time"):
		return "tsig"
	}
	return "other"
}

// warmSender answers one AXFR question with one envelope of three records and hangs up when its peer does.
type warmSender struct {
	x *run
	c *simnet.StreamConn
}

//go:norace
func (w *warmSender) RunEvent(time.Time) {
	c := w.c
	c.SetDeadline(time.Now().Add(time.Hour))
	var hdr [2]byte
	if !readFull(c, hdr[:]) {
		return
	}
	qb := make([]byte, int(hdr[0])<<8|int(hdr[1]))
	if !readFull(c, qb) {
		return
	}
	q := new(dns.Msg)
	if q.Unpack(qb) != nil {
		return
	}
	m := new(dns.Msg)
	m.SetReply(q)
	s := &dns.SOA{Hdr: dns.RR_Header{Name: "warm.example.", Rrtype: dns.TypeSOA, Class: dns.ClassINET, Ttl: 60}, Ns: "ns.warm.example.", Mbox: "h.warm.example.", Serial: 1, Refresh: 1, Retry: 1, Expire: 1, Minttl: 1}
	m.Answer = []dns.RR{s, &dns.A{Hdr: dns.RR_Header{Name: "a.warm.example.", Rrtype: dns.TypeA, Class: dns.ClassINET, Ttl: 60}, A: []byte{192, 0, 2, 9}}, s}
	if t, _, ok := oracle.FindTSIG(qb); ok {
		// a signed request: two envelopes, chained as RFC 8945 wants them
		prior := append([]byte(nil), t.MAC...)
		for i, rrs := range [][]dns.RR{m.Answer[:2], m.Answer[2:]} {
			e := new(dns.Msg)
			e.SetReply(q)
			e.Answer = rrs
			b, err := e.Pack()
			if err != nil {
				return
			}
			b = oracle.SignTSIG(b, keyName, w.x.sc.Alg, secretGood, prior, i > 0, uint64(time.Now().Unix()), uint16(max(w.x.sc.Fudge, 1)))
			if st, _, ok := oracle.FindTSIG(b); ok {
				prior = append([]byte(nil), st.MAC...)
			}
			c.Write(oracle.Frame(b))
		}
	} else {
		b, err := m.Pack()
		if err != nil {
			return
		}
		c.Write(oracle.Frame(b))
	}
	var one [1]byte
	c.Read(one[:]) // until the receiver closes
	c.Close()
}

// scripted sender: builds the envelopes itself and signs them with the
// independent RFC 8945 signer.
type scriptedTask struct{ x *run }

//go:norace
func (s *scriptedTask) RunEvent(time.Time) {
	x, k, sc := s.x, s.x.k, s.x.sc
	defer func() {
		k.Lock()
		x.sndFin = true
		k.Unlock()
	}()
	c := x.sndConn
	c.SetDeadline(time.Now().Add(time.Hour))
	var hdr [2]byte
	if !readFull(c, hdr[:]) {
		return
	}
	qb := make([]byte, int(hdr[0])<<8|int(hdr[1]))
	if !readFull(c, qb) {
		return
	}
	q := new(dns.Msg)
	if q.Unpack(append([]byte(nil), qb...)) != nil {
		return
	}
	var prior []byte
	signed := false
	if t, _, ok := oracle.FindTSIG(qb); ok && sc.ServerKey {
		prior, signed = append([]byte(nil), t.MAC...), true
	}
	envs := envelopes(sc)
	if sc.Trailing {
		envs = append(envs, []dns.RR{rec("trailing", 1), soa(newSerial)})
	}
	for i, rrs := range envs {
		m := new(dns.Msg)
		m.SetReply(q)
		m.Authoritative = true
		m.Answer = rrs
		if sc.Rcode != 0 && sc.RcodeAt == i {
			if sc.Rcode > 15 {
				m.SetEdns0(1232, false)
			}
			m.Rcode = sc.Rcode
		}
		if sc.WrongID == i+1 {
			m.Id ^= 0x0100
		}
		b, err := m.Pack()
		if err != nil {
			return
		}
		if signed {
			clock := time.Now().Unix() + int64(sc.SkewS)
			if i > 0 && sc.StepBack > 0 {
				clock -= int64(sc.StepBack)
				k.Bump("fault.sender_clock_stepped_back")
			}
			b = oracle.SignTSIG(b, keyName, sc.Alg, secretGood, prior, i > 0, uint64(clock), uint16(max(sc.Fudge, 1)))
			if t, _, ok := oracle.FindTSIG(b); ok {
				prior = append([]byte(nil), t.MAC...)
			}
		}
		if len(b) > 65535 {
			k.Bump("fault.sender_cannot_frame_envelope")
			return // more than a stream can frame: this sender stops here (the receiver sees a transfer that never ends)
		}
		if _, err := c.Write(oracle.Frame(b)); err != nil {
			return
		}
		k.Yield("sender.next", 0)
		if sc.PaceMs > 0 {
			k.Sleep("sender.pace", time.Duration(sc.PaceMs)*time.Millisecond)
		}
	}
	// keep the connection open: a correct receiver ends the session itself
	k.Sleep("sender.linger", 30*time.Second)
	c.Close()
}

//go:norace
func readFull(c *simnet.StreamConn, p []byte) bool {
	for n := 0; n < len(p); {
		k, err := c.Read(p[n:])
		n += k
		if err != nil {
			return n == len(p) // (the last octets may come together with the end of the stream)
		}
	}
	return true
}

// real sender: Server + Transfer.Out
//
//go:norace
func (x *run) ServeDNS(w dns.ResponseWriter, r *dns.Msg) {
	if len(r.Question) == 1 && r.Question[0].Qtype == dns.TypeA {
		// the bystander's question
		m := new(dns.Msg)
		m.SetReply(r)
		m.Answer = append(m.Answer, &dns.A{Hdr: dns.RR_Header{Name: r.Question[0].Name, Rrtype: dns.TypeA, Class: dns.ClassINET, Ttl: 1}, A: []byte{192, 0, 2, 77}})
		w.WriteMsg(m)
		return
	}
	if x.sc.HijackLate && x.sc.Sender == "out" && x.sc.OutPaceMs > 0 {
		// Transfer.Out runs in a task of its own; the handler takes the connection over once the first
		// envelope has been handed to it and written, and returns. The rest of the zone follows at the
		// application's pace.
		x.k.Go("out", &outTask{x, w, r})
		if x.k.Wait("h.firstenv", 0, common.Flag{V: &x.firstFed}, 0) {
			x.k.WaitSteps("h.firstenv.written", 6, 50*time.Millisecond)
		}
		w.Hijack()
		x.k.Bump("fault.hijack_after_first_envelope")
		return
	}
	if x.sc.Hijack && x.sc.Sender == "out" {
		// the connection is the application's from here on: the zone is sent from a task of its own
		w.Hijack()
		x.k.Go("out", &outTask{x, w, r})
		x.k.Bump("fault.transfer_out_after_hijack")
		return
	}
	x.serveTransfer(w, r)
}

// outTask runs Transfer.Out on a hijacked connection and closes it when the zone has been written.
type outTask struct {
	x *run
	w dns.ResponseWriter
	r *dns.Msg
}

//go:norace
func (o *outTask) RunEvent(time.Time) {
	o.x.k.Yield("out.start", 0)
	o.x.serveTransfer(o.w, o.r)
	// the application's connection: it closes it when it is done - the socket itself, not through the writer
	// (on the pinned tree ResponseWriter.Close from another goroutine than the handler's races with the server's
	// look at the writer after the handler has returned; no listed statement is about that)
	ra := o.w.RemoteAddr().String()
	o.x.k.Lock()
	var sock *simnet.StreamConn
	for _, c := range o.x.n.Conns {
		if c.Role == "srv" && c.RemoteAddr().String() == ra {
			sock = c
		}
	}
	o.x.k.Unlock()
	if sock != nil {
		sock.Close()
	}
}

// twinTask is a second receiver: the same zone from the same server over a connection of its own (no
// middlebox: a healthy link), while the transfer under test runs. It must get the whole zone, without error.
type twinTask struct {
	x   *run
	idx int
}

//go:norace
func (t *twinTask) RunEvent(time.Time) {
	x, k, sc := t.x, t.x.k, t.x.sc
	defer func() {
		k.Announce()
		k.Lock()
		x.twinsDone++
		x.twinFin = x.twinsDone == 2
		k.Unlock()
	}()
	if t.idx > 0 {
		k.WaitSteps("twin.wait", 3+int(sc.RunSeed%23), 2*time.Millisecond)
	}
	c := x.n.Dial(x.l, false)
	tr := &dns.Transfer{Conn: &dns.Conn{Conn: c}, ReadTimeout: 30 * time.Second}
	q := new(dns.Msg)
	if strings.HasPrefix(sc.Kind, "ixfr") {
		q.SetIxfr(zone, clientSerial, "ns1."+zone, "hostmaster."+zone)
	} else {
		q.SetAxfr(zone)
	}
	q.Id = x.qid ^ uint16(0x4000<<uint(t.idx))
	if sc.Alg != "" && sc.ServerKey {
		tr.TsigSecret = secrets()
		q.SetTsig(keyName, sc.Alg, 300, time.Now().Unix())
	}
	want := 0
	for _, e := range envelopes(sc) {
		want += len(e)
	}
	env, err := tr.In(q, "10.0.0.1:53")
	got, cerr := 0, common.ErrStr(err)
	if err == nil {
		for e := range env {
			got += len(e.RR)
			if e.Error != nil && cerr == "" {
				cerr = e.Error.Error()
			}
		}
	}
	k.Lock()
	x.res.Stats["oracle.T1_second_receiver_served"]++
	if sc.BadFirst || sc.Rcode != 0 || sc.WrongID > 0 {
		// (the sender's own script is faulty: nothing to ask of this transfer)
	} else if cerr != "" || got != want {
		x.res.Fail("T1", "second-receiver-failed", "a second receiver that asked the same server for the same zone over a connection of its own, while another transfer was being sent, got %d of %d records and the error %q", got, want, cerr)
	}
	k.Unlock()
}

// foreignWriter is an application's own dns.ResponseWriter: it frames and writes what it is given, signs
// messages that carry a TSIG stub under the request's MAC, and switches to timers-only when it is told to.
type foreignWriter struct {
	x          *run
	c          net.Conn
	reqMAC     string
	timersOnly bool
	status     error
}

//go:norace
func (w *foreignWriter) LocalAddr() net.Addr { return w.c.LocalAddr() }

//go:norace
func (w *foreignWriter) RemoteAddr() net.Addr { return w.c.RemoteAddr() }

//go:norace
func (w *foreignWriter) TsigStatus() error { return w.status }

//go:norace
func (w *foreignWriter) TsigTimersOnly(b bool) { w.timersOnly = b }

//go:norace
func (w *foreignWriter) Hijack() {}

//go:norace
func (w *foreignWriter) Close() error { return w.c.Close() }

//go:norace
func (w *foreignWriter) Write(b []byte) (int, error) {
	if len(b) > 65535 {
		return 0, errors.New("foreign writer: message does not fit a stream frame")
	}
	if _, err := w.c.Write(oracle.Frame(b)); err != nil {
		return 0, err
	}
	return len(b), nil
}

//go:norace
func (w *foreignWriter) WriteMsg(m *dns.Msg) error {
	var out []byte
	var err error
	if t := m.IsTsig(); t != nil && w.status == nil {
		out, w.reqMAC, err = dns.TsigGenerate(m, secretGood, w.reqMAC, w.timersOnly)
	} else {
		out, err = m.Pack()
	}
	if err != nil {
		return err
	}
	_, err = w.Write(out)
	return err
}

// foreignTask is a server of the application's own making: it accepts one connection, reads the request,
// checks its signature and hands it to Transfer.Out with its own writer.
type foreignTask struct{ x *run }

//go:norace
func (f *foreignTask) RunEvent(time.Time) {
	x, k := f.x, f.x.k
	defer func() {
		k.Lock()
		x.serveRet = true
		k.Unlock()
	}()
	ac, err := x.l.Accept()
	if err != nil {
		return
	}
	c := ac.(*simnet.StreamConn)
	defer c.Close()
	c.SetDeadline(time.Now().Add(time.Hour))
	var hdr [2]byte
	if !readFull(c, hdr[:]) {
		return
	}
	qb := make([]byte, int(hdr[0])<<8|int(hdr[1]))
	if !readFull(c, qb) {
		return
	}
	req := new(dns.Msg)
	if req.Unpack(qb) != nil {
		return
	}
	w := &foreignWriter{x: x, c: c}
	if t := req.IsTsig(); t != nil {
		if x.sc.ServerKey {
			w.status = dns.TsigVerify(qb, secretGood, "", false)
		} else {
			w.status = dns.ErrSecret
		}
		w.reqMAC = t.MAC
	}
	k.Bump("cover.transfer_out_through_foreign_writer")
	x.serveTransfer(w, req)
	// stay until the receiver has gone
	buf := make([]byte, 64)
	for {
		if _, err := c.Read(buf); err != nil {
			break
		}
	}
}

// bystander asks the server ordinary questions over connections of its own while the transfer runs.
type bystander struct{ x *run }

//go:norace
func (b *bystander) RunEvent(time.Time) {
	x, k := b.x, b.x.k
	for i := 0; i < 3; i++ {
		k.WaitSteps("bystander.wait", 2+i, 5*time.Millisecond)
		if k.Aborting() || x.l.IsClosed() {
			return
		}
		c := x.n.Dial(x.l, false)
		co := &dns.Conn{Conn: c}
		c.SetDeadline(time.Now().Add(5 * time.Second))
		q := new(dns.Msg)
		q.SetQuestion("bystander"+strconv.Itoa(i)+"."+zone, dns.TypeA)
		if co.WriteMsg(q) == nil {
			if rep, err := co.ReadMsg(); err == nil {
				k.Lock()
				x.res.Stats["oracle.T1_bystander_served"]++
				if rep.Id != q.Id || len(rep.Answer) != 1 || len(rep.Question) != 1 || rep.Question[0].Name != q.Question[0].Name {
					x.res.Fail("T1", "bystander-got-foreign-octets", "a client that asked %s on a connection of its own, while a transfer was being sent on another, received: %s", q.Question[0].Name, strings.ReplaceAll(rep.String(), "\n", " | "))
				}
				k.Unlock()
			}
		}
		co.Close()
	}
}

//go:norace
func (x *run) serveTransfer(w dns.ResponseWriter, r *dns.Msg) {
	envs := envelopes(x.sc)
	ch := make(chan *dns.Envelope, len(envs))
	if x.sc.OutPaceMs > 0 {
		// the application produces the zone slowly
		ch = make(chan *dns.Envelope, len(envs)) // (room for all: a Transfer.Out that gives up must not leave the feeder stuck)
		x.k.Go("feeder", &feeder{x, ch, envs})
		x.k.Bump("fault.sender_paces_envelopes")
	} else {
		for _, rrs := range envs {
			ch <- &dns.Envelope{RR: rrs}
		}
		close(ch)
	}
	tr := new(dns.Transfer)
	if x.sc.Twin {
		tr = &x.sharedTr // one value for every outgoing transfer of the application
	}
	err := tr.Out(w, r, ch)
	x.k.Lock()
	if r.Id == x.qid {
		x.outErr, x.outDone = common.ErrStr(err), true
	}
	x.k.Unlock()
	// leave the connection to the client / relay to close
}

// feeder hands the envelopes to Transfer.Out one at a time, with a pause before each but the first.
type feeder struct {
	x    *run
	ch   chan *dns.Envelope
	envs [][]dns.RR
}

//go:norace
func (f *feeder) RunEvent(time.Time) {
	for i, rrs := range f.envs {
		if i > 0 {
			f.x.k.Sleep("feeder.pace", time.Duration(f.x.sc.OutPaceMs)*time.Millisecond)
		}
		if f.x.k.Aborting() {
			break
		}
		f.ch <- &dns.Envelope{RR: rrs}
		if i == 0 {
			f.x.k.Lock()
			f.x.firstFed = true
			f.x.k.Unlock()
		}
	}
	f.x.k.Lock()
	f.x.firstFed = true
	f.x.k.Unlock()
	close(f.ch)
}

type serveTask struct{ x *run }

//go:norace
func (s serveTask) RunEvent(time.Time) {
	s.x.srv.ActivateAndServe()
	s.x.k.Lock()
	s.x.serveRet = true
	s.x.k.Unlock()
}

type cliDone struct{ x *run }

//go:norace
func (c cliDone) Holds() bool { return c.x.cliFin && c.x.twinFin }

type lifeTask struct{ x *run }

//go:norace
func (l lifeTask) RunEvent(time.Time) {
	x := l.x
	x.k.Wait("life.wait", 0, cliDone{x}, 0)
	if x.srv != nil {
		for i := 0; i < 100; i++ {
			if x.srv.Shutdown() == nil {
				break
			}
			x.k.Sleep("life.retry", time.Millisecond)
		}
	}
	x.k.Lock()
	x.sndFin = true
	x.k.Unlock()
}

type doneCheck struct{ x *run }

//go:norace
func (d doneCheck) Check(time.Time) string {
	x := d.x
	if x.cliFin && x.twinFin && (x.srv == nil || x.serveRet) {
		return "done"
	}
	return ""
}

// compositions lists every way of cutting n records into consecutive envelopes.
func compositions(n int) [][]int {
	var out [][]int
	for mask := 0; mask < 1<<max(n-1, 0); mask++ {
		var cuts []int
		for i := 1; i < n; i++ {
			if mask&(1<<(i-1)) != 0 {
				cuts = append(cuts, i)
			}
		}
		out = append(out, cuts)
	}
	return out
}

func Run(t *testing.T, scAny any, verbose bool) *core.Result {
	sc := scAny.(*Scenario)
	res := &core.Result{Seed: sc.RunSeed, Verdict: core.OK, Stats: map[string]int{}}
	if sc.AllCuts {
		// every composition of the record sequence into envelopes, one simulated session each
		var digest uint64
		steps, simns := 0, int64(0)
		for _, cuts := range compositions(totalRecords(sc)) {
			c := *sc
			c.AllCuts, c.Cuts = false, cuts
			c.Ops = append([]common.FrameOp(nil), sc.Ops...)
			for i := range c.Ops { // the fault plan names envelopes: keep it inside this composition
				c.Ops[i].Env %= len(cuts) + 1
			}
			one := &core.Result{Seed: sc.RunSeed, Verdict: core.OK, Stats: res.Stats}
			leak := common.Bubble(t, func() { runIn(&c, one, false) })
			if leak != "" && one.Verdict == core.OK {
				one.Fail("T2", "goroutine-leak", "%s", leak)
			}
			digest = digest*1099511628211 ^ one.Digest
			steps += one.Steps
			simns += one.SimNS
			res.Bump("cover.compositions_swept")
			res.Class, res.Nontrivial = one.Class, res.Nontrivial || one.Nontrivial
			if one.Verdict != core.OK {
				res.Verdict, res.Oracle, res.Sig = one.Verdict, one.Oracle, one.Sig
				res.Msg = fmt.Sprintf("[envelope boundaries %v] %s", cuts, one.Msg)
				break
			}
		}
		res.Digest, res.Steps, res.SimNS = digest, steps, simns
		res.Bump("fault.all_envelope_compositions")
		return res
	}
	leak := common.Bubble(t, func() {
		if sc.UDP {
			runUDP(sc, res, verbose)
		} else {
			runIn(sc, res, verbose)
		}
	})
	if leak != "" && res.Verdict == core.OK {
		res.Fail("T2", "goroutine-leak", "%s", leak)
	}
	return res
}

// --- IXFR over UDP: the whole answer is one datagram

type udpRun struct {
	sc      *Scenario
	k       *kernel.K
	res     *core.Result
	srv     *dns.Server
	conn    *simnet.DgramConn
	sent    []string // the records the handler put into its answer
	items   []item
	inErr   string
	cliFin  bool
	served  bool
	closedC bool
}

//go:norace
func (u *udpRun) ServeDNS(w dns.ResponseWriter, r *dns.Msg) {
	m := new(dns.Msg)
	m.SetReply(r)
	m.Authoritative = true
	m.Answer = sequence(u.sc)
	if ts := r.IsTsig(); ts != nil && w.TsigStatus() == nil {
		m.SetTsig(ts.Hdr.Name, ts.Algorithm, ts.Fudge, time.Now().Unix())
	}
	var recs []string
	for _, rr := range m.Answer {
		recs = append(recs, rr.String())
	}
	err := w.WriteMsg(m)
	u.k.Lock()
	u.sent, u.served = recs, err == nil
	u.k.EffectLocked("udp answer " + strconv.Itoa(len(recs)) + " " + common.ErrStr(err))
	u.k.Unlock()
}

type udpServe struct{ u *udpRun }

//go:norace
func (s udpServe) RunEvent(time.Time) { s.u.srv.ActivateAndServe() }

type udpClient struct{ u *udpRun }

//go:norace
func (c udpClient) RunEvent(time.Time) {
	u, k, sc := c.u, c.u.k, c.u.sc
	defer func() {
		u.srv.Shutdown() // (the application's last act: the server goes down inside the simulation)
		k.Announce()
		k.Lock()
		u.cliFin = true
		k.Unlock()
	}()
	t := &dns.Transfer{Conn: &dns.Conn{Conn: u.conn}, ReadTimeout: time.Duration(sc.TimeoutMs) * time.Millisecond}
	asked := zone
	if sc.QCase {
		asked = "XFR.Example."
	}
	q := new(dns.Msg)
	q.SetIxfr(asked, clientSerial, "ns1."+zone, "hostmaster."+zone)
	q.Id = uint16(4000 + sc.RunSeed%1000)
	if sc.Alg != "" {
		t.TsigSecret = secrets()
		q.SetTsig(keyName, sc.Alg, uint16(sc.Fudge), time.Now().Unix())
	}
	env, err := t.In(q, "10.0.0.1:53")
	if err != nil {
		k.Lock()
		u.inErr = err.Error()
		k.Unlock()
		return
	}
	for e := range env {
		it := item{err: common.ErrStr(e.Error), t: time.Now()}
		for _, rr := range e.RR {
			it.recs = append(it.recs, rr.String())
		}
		k.Lock()
		u.items = append(u.items, it)
		k.EffectLocked("env " + strconv.Itoa(len(it.recs)) + " " + errClass(it.err))
		k.Unlock()
	}
	k.Lock()
	u.closedC = u.conn.IsClosed()
	k.Unlock()
}

type udpDone struct{ u *udpRun }

//go:norace
func (d udpDone) Check(time.Time) string {
	if d.u.cliFin {
		return "done"
	}
	return ""
}

//go:norace
func runUDP(sc *Scenario, res *core.Result, verbose bool) {
	k := kernel.New(kernel.Config{Seed: sc.RunSeed, Strategy: sc.Strategy, PCTDepth: sc.PCTDepth, PCTSpan: 100, Verbose: verbose, MaxSteps: 20000})
	kernel.SetCurrent(k)
	defer kernel.SetCurrent(nil)
	n := simnet.New(k)
	n.Dgram = simnet.DgramLink{MinDelay: time.Duration(sc.DelayMs) * time.Millisecond, Jitter: time.Duration(sc.DelayMs) * time.Millisecond}
	u := &udpRun{sc: sc, k: k, res: res}
	pc := n.ListenPacket()
	u.srv = &dns.Server{PacketConn: pc, Handler: u, ReadTimeout: time.Hour, UDPSize: 4096}
	if sc.Alg != "" {
		u.srv.TsigSecret = secrets()
	}
	u.conn = n.DialPacket(pc)
	start0 := time.Now()
	k.Go("serve", udpServe{u})
	k.Go("client", udpClient{u})
	out := k.Run(udpDone{u})
	res.Steps, res.SimNS, res.Digest = k.Steps, int64(time.Since(start0)), k.Digest()
	for name, v := range k.Stats {
		res.Stats[name] += v
	}
	if verbose {
		res.Log = k.Log
	}
	k.Abort()
	res.Bump("cover.ixfr_over_udp")
	res.Nontrivial = true
	res.Class = fmt.Sprintf("udp/%s/tsig=%v/recs=%d/%s", sc.Kind, sc.Alg != "", len(u.sent), core.Mode)
	if out != kernel.Finished {
		res.Fail("T6", "transfer-stuck", "IXFR over UDP: the run ended with %q before the receiver's channel was closed (answer sent: %v)", out, u.served)
		return
	}
	if u.inErr != "" {
		res.Fail("T1", "in-failed", "Transfer.In over a datagram connection failed to send the request: %s", u.inErr)
		return
	}
	if !u.served {
		return // the handler could not send its answer: nothing to judge on the receiver's side
	}
	// T1 / T2: one datagram holds the whole answer; the receiver delivers exactly its records, in order, and ends
	res.Bump("oracle.T1_exact_delivery_udp")
	var got []string
	for _, it := range u.items {
		if it.err != "" {
			res.Fail("T1", "error-on-complete-transfer", "IXFR over UDP: the answer (%d records in one datagram) is a complete, valid transfer, but the receiver reported %q", len(u.sent), it.err)
			return
		}
		got = append(got, it.recs...)
	}
	if strings.Join(got, "|") != strings.Join(u.sent, "|") {
		res.Fail("T1", "records-differ", "IXFR over UDP: the answer held %d records, the receiver delivered %d:\nsent: %v\ngot:  %v", len(u.sent), len(got), u.sent, got)
		return
	}
	if !u.closedC {
		res.Fail("T2", "connection-left-open", "IXFR over UDP: the transfer completed but the library did not close the connection")
	}
}

//go:norace
func runIn(sc *Scenario, res *core.Result, verbose bool) {
	k := kernel.New(kernel.Config{Seed: sc.RunSeed, Strategy: sc.Strategy, PCTDepth: sc.PCTDepth, PCTSpan: 200, Verbose: verbose, MaxSteps: 100000})
	kernel.SetCurrent(k)
	defer kernel.SetCurrent(nil)
	n := simnet.New(k)
	n.Stream = simnet.StreamLink{MinDelay: time.Duration(sc.DelayMs) * time.Millisecond, Jitter: time.Duration(sc.DelayMs) * time.Millisecond, SegMode: sc.SegMode, ShortRead: sc.ShortRead}
	n.CloseYields = core.Mode == "instr"
	if sc.RunSeed%8 == 0 {
		n.CloseErr = "cli" // closing the receiver's connection reports an error (it is closed all the same)
	}
	x := &run{sc: sc, k: k, n: n, res: res, qid: uint16(4000 + sc.RunSeed%1000)}
	if sc.Big > 0 {
		res.Bump("fault.envelope_at_frame_limit")
	}
	cli, relayC := n.Pair(true)
	x.cliConn = cli
	var relayS *simnet.StreamConn
	if sc.Sender == "out" {
		x.l = n.Listen()
		x.srv = &dns.Server{Listener: x.l, Handler: x, ReadTimeout: time.Hour, IdleTimeout: hour}
		if sc.Alg != "" && sc.ServerKey {
			x.srv.TsigSecret = secrets()
		}
		relayS = n.Dial(x.l, true)
		if sc.OutFailAt > 0 && relayS.Peer != nil {
			relayS.Peer.FailWriteNth = sc.OutFailAt
		}
		if sc.Foreign {
			x.srv = nil
			k.Go("serve", &foreignTask{x})
		} else {
			k.Go("serve", serveTask{x})
		}
		if sc.Hijack {
			k.Go("bystander", &bystander{x})
		}
		if sc.Twin {
			k.Go("twin", &twinTask{x, 0})
			k.Go("twin2", &twinTask{x, 1})
		} else {
			x.twinFin = true
		}
	} else {
		var snd *simnet.StreamConn
		relayS, snd = n.Pair(true)
		x.sndConn = snd
		x.twinFin = true
		k.Go("sender", &scriptedTask{x})
	}
	if sc.CutAt > 0 {
		cli.CutAfter(sc.CutAt, sc.CutRST)
	}
	if sc.NoDeadlines && sc.Dial == "" {
		cli.NoDeadlines = true
		res.Bump("fault.receiver_connection_without_deadlines")
	}
	x.relay = &common.Relay{K: k, ToClient: relayC, ToServer: relayS, Ops: sc.Ops, WrongSecret: secretBad, RightSecret: secretGood, KeyName: keyName, Alg: sc.Alg, HeldKey: heldKeyName, HeldSecret: heldSecret}
	if sc.FinWithLast {
		x.relay.FinAfter = len(envelopes(sc))
		n.Stream.EOFWithData = 75
	}
	x.relay.Start()
	start0 := time.Now()
	k.Go("client", &clientTask{x})
	k.Go("life", lifeTask{x})
	out := k.Run(doneCheck{x})
	res.Steps = k.Steps
	res.SimNS = int64(time.Since(start0))
	res.Digest = k.Digest()
	for name, v := range k.Stats {
		res.Stats[name] += v
	}
	if verbose {
		res.Log = k.Log
	}
	defer k.Abort()
	switch out {
	case kernel.StepCap:
		res.Verdict, res.Msg = core.Harness, "step cap reached"
		return
	case kernel.Quiescent:
		res.Fail("T6", "transfer-stuck", "the transfer cannot make progress (consumer is draining): parked %v", k.Parked())
		return
	}
	x.judge(start0)
}

//go:norace
func hour() time.Duration { return time.Hour }

func abs(v int) int {
	if v < 0 {
		return -v
	}
	return v
}

//go:norace
func (x *run) judge(start0 time.Time) {
	res, sc := x.res, x.sc
	if !x.inStart.IsZero() {
		start0 = x.inStart // the receiver's clock starts when the transfer under test is asked for (an earlier transfer with the same Transfer value may have come first)
	}
	if x.refused {
		res.Nontrivial = true
		res.Class = fmt.Sprintf("%s/dial-refused/%s", sc.Kind, core.Mode)
		return
	}
	if x.inErr != "" {
		res.Fail("T1", "in-failed", "Transfer.In failed to send the request: %s", x.inErr)
		return
	}
	delivered := x.relay.Out["s2c"]
	original := x.relay.In["s2c"]
	// What reached the receiver in time - decided from the link's arrival times
	// and the consumer's own pace, not from what the library chose to read: the
	// receiver re-arms its read timeout before every envelope, so envelope i is
	// in time when its last octet arrives within ReadTimeout of the instant the
	// receiver could start waiting for it (arrival of the previous envelope, or
	// the consumer taking it, whichever is later).
	{
		T := time.Duration(sc.TimeoutMs) * time.Millisecond
		prev := start0
		acc, whole := 0, 0
		for i, f := range delivered {
			acc += 2 + len(f)
			at, ok := x.cliConn.ArrivedAt(acc)
			if !ok {
				break
			}
			slack := at.Sub(prev.Add(T))
			if slack > -3*time.Millisecond && slack < 3*time.Millisecond {
				res.Bump("cover.not_judged_deadline_edge")
				x.alwaysChecks()
				return
			}
			if slack >= 0 {
				break // too late: the receiver's read had timed out by then
			}
			whole++
			prev = at
			if i < len(x.items) && x.items[i].t.After(prev) {
				prev = x.items[i].t
			}
		}
		if whole < len(delivered) {
			delivered = delivered[:whole]
			if sc.CutAt > 0 {
				res.Bump("fault.stream_cut_mid_transfer")
			}
		}
	}
	clientTSIG := (sc.Alg != "" && sc.ClientKey) || sc.EmptyKeys
	recvSecrets := secrets()
	if sc.EmptyKeys && !(sc.Alg != "" && sc.ClientKey) {
		recvSecrets = map[string]string{}
	}
	// sender side: what Transfer.Out put on the wire is an RFC-valid chain
	if sc.Sender == "out" && sc.Alg != "" && sc.ServerKey && sc.ClientKey && len(x.relay.In["c2s"]) > 0 {
		if qt, _, ok := oracle.FindTSIG(x.relay.In["c2s"][0]); ok {
			prior := qt.MAC
			off := 0
			for i, f := range original {
				// judged at the instant the envelope reached the middlebox, a link delay after it was written
				at := start0
				off += 2 + len(f)
				if t, ok := x.relay.ToServer.ArrivedAt(off); ok {
					at = t
				} else if it := x.relay.InT["s2c"]; i < len(it) {
					at = it[i]
				}
				v := oracle.VerifyTSIG(f, secrets(), prior, i > 0, uint64(at.Unix()))
				res.Bump("oracle.T4_out_chain")
				if v.Judgable && !v.Valid {
					res.Fail("T4", "out-chain-invalid", "envelope %d written by Transfer.Out does not verify under RFC 8945 (%s)", i, v.Reason)
					return
				}
				prior = v.MAC
			}
		}
	}
	// sender side: on a healthy link, with a receiver that reads at once, the application's own pace is the
	// only thing that takes time - Transfer.Out has no reason to run into a timeout of any kind
	if sc.Sender == "out" && sc.OutPaceMs > 0 && len(sc.Ops) == 0 && sc.CutAt == 0 {
		res.Bump("oracle.T4_out_not_timed_out")
		if strings.Contains(x.outErr, "timeout") {
			res.Fail("T4", "out-timeout-on-healthy-link", "Transfer.Out, fed one envelope every %d ms over a link without faults to a receiver that reads at once, returned %q after %d of %d envelopes had been written", sc.OutPaceMs, x.outErr, len(original), len(envelopes(sc)))
			return
		}
	}
	// sender side: a Transfer.Out that came back without an error has put every envelope it was handed on the
	// wire, whole - whatever happened to a write on the way is Out's to report
	if sc.Sender == "out" && x.outDone && x.outErr == "" {
		res.Bump("oracle.T4_out_nil_means_all_written")
		wrote, _ := oracle.Frames(x.relay.ToServer.Peer.Sent())
		if fed := len(envelopes(sc)); len(wrote) < fed {
			res.Fail("T4", "out-error-swallowed", "Transfer.Out was handed %d envelopes and returned nil, but only %d whole envelopes were written to the sender's socket (a write failed on the way: %v)", fed, len(wrote), sc.OutFailAt > 0)
			return
		}
	}
	// receiver side, healthy run: a sender that transmits a complete, valid zone over a link without faults, at its
	// own steady pace, to an application that takes the envelopes as they come - the receiver has no reason to
	// give up, whatever kind of connection it was handed. (The reference verdict below goes by what was
	// delivered, and a receiver that hangs up early has little delivered to it.)
	healthy := len(sc.Ops) == 0 && sc.CutAt == 0 && !sc.BadFirst && sc.Rcode == 0 && sc.WrongID == 0 && !sc.Trailing && sc.LocalClose == 0 &&
		sc.OutFailAt == 0 && sc.Big == 0 && sc.ConsumerMs == 0 && sc.PaceMs == 0 && sc.OutPaceMs == 0 && !sc.EmptyKeys && sc.StepBack == 0 &&
		(sc.Alg == "" || (sc.ClientKey && sc.ServerKey && abs(sc.SkewS) < max(sc.Fudge, 1))) && !x.localClosed
	if healthy {
		res.Bump("oracle.T1_healthy_transfer_completes")
		last := ""
		if len(x.items) > 0 {
			last = x.items[len(x.items)-1].err
		}
		if last != "" {
			res.Fail("T1", "healthy-transfer-failed", "a complete, valid transfer of %d envelope(s) sent over a link without faults ended with %q after %d item(s) (connection without deadlines: %v)", len(envelopes(sc)), last, len(x.items), sc.NoDeadlines)
			return
		}
	}
	// reference verdict over the delivered envelopes
	var envs []oracle.XEnv
	var recs [][]string
	tsigBadAt, judgable := -1, true
	var prior []byte
	reqKey, reqAlg := "", ""
	if len(x.relay.Out["c2s"]) > 0 {
		if qt, _, ok := oracle.FindTSIG(x.relay.Out["c2s"][0]); ok {
			prior = qt.MAC
			reqKey, reqAlg = qt.KeyName, qt.AlgName
		}
	}
	for i, f := range delivered {
		m := new(dns.Msg)
		e := oracle.XEnv{}
		if err := m.Unpack(append([]byte(nil), f...)); err != nil {
			e.DecodeErr = true
		} else {
			e.ID, e.Rcode = m.Id, m.Rcode
			var rs []string
			for _, rr := range m.Answer {
				xr := oracle.XRR{}
				if s, ok := rr.(*dns.SOA); ok {
					xr.SOA, xr.Serial = true, s.Serial
				}
				e.RRs = append(e.RRs, xr)
				rs = append(rs, rr.String())
			}
			recs = append(recs, rs)
		}
		if e.DecodeErr {
			recs = append(recs, nil)
		}
		if clientTSIG && tsigBadAt < 0 && !e.DecodeErr {
			now := uint64(start0.Unix())
			if i < len(x.items) {
				now = uint64(x.items[i].t.Unix())
			}
			if sc.ConsumerMs > 0 {
				// the envelope is verified when the receiver gets round to reading
				// it: on arrival, or when the consumer has taken the previous one
				vt := start0
				if ot := x.relay.OutT["s2c"]; i < len(ot) {
					vt = ot[i]
				}
				if i > 0 && i-1 < len(x.items) && x.items[i-1].t.After(vt) {
					vt = x.items[i-1].t
				}
				now = uint64(vt.Unix())
				if ts, _, ok := oracle.FindTSIG(f); ok {
					d := int64(now) - int64(ts.Time)
					if d < 0 {
						d = -d
					}
					if d >= int64(ts.Fudge)-1 && d <= int64(ts.Fudge)+1 {
						judgable = false // within a second of the fudge edge, and the instant is only known to a link delay
					}
				}
			}
			v := oracle.VerifyTSIG(f, recvSecrets, prior, i > 0, now)
			if !v.Judgable {
				judgable = false
			}
			if !v.Valid {
				tsigBadAt = i
			}
			// wrongly keyed: an answer is signed with the key and algorithm of its request (RFC 8945 5.3);
			// one that verifies under some other key the receiver happens to hold, or under another
			// algorithm, is not an answer to this request
			if et, _, ok := oracle.FindTSIG(f); ok && reqKey != "" && v.Valid && (et.KeyName != reqKey || et.AlgName != reqAlg) {
				res.Bump("oracle.T5_key_and_algorithm_of_the_request")
				tsigBadAt = i
			}
			prior = v.MAC
		}
		envs = append(envs, e)
	}
	if tsigBadAt >= 0 {
		envs = envs[:tsigBadAt+1]
		envs[tsigBadAt].DecodeErr = true // an envelope that fails verification ends the transfer with an error, like one that does not decode
	}
	model := oracle.XfrModel(strings.HasPrefix(sc.Kind, "ixfr"), x.qid, clientSerial, envs)
	faulty := len(sc.Ops) > 0 || sc.CutAt > 0
	res.Nontrivial = true
	res.Class = fmt.Sprintf("%s/%s/tsig=%v/envs=%d/%s/model=%s/%s", sc.Kind, sc.Sender, sc.Alg != "", min(len(original), 6), faultClass(sc), model.Err, core.Mode)
	if !judgable || !model.WellFormed {
		res.Bump("cover.not_judged_outside_rfc")
		x.alwaysChecks()
		return
	}
	// what the receiver reported
	good := 0
	for _, it := range x.items {
		if it.err == "" {
			good++
		}
	}
	lastErr := ""
	if len(x.items) > 0 {
		lastErr = x.items[len(x.items)-1].err
	}
	for i, it := range x.items {
		if it.err != "" && i != len(x.items)-1 {
			res.Fail("T3", "items-after-error", "the channel delivered %d more item(s) after an error item", len(x.items)-1-i)
			return
		}
	}
	if !x.alwaysChecks() {
		return
	}
	if x.localClosed {
		// the application closed the connection under the transfer: whatever it had
		// taken by then is right, and unless that already was the whole transfer the
		// channel must end with an error, never with a plain close
		res.Bump("oracle.T3_closed_by_application_reported")
		if good > model.Good {
			res.Fail("T3", "delivered-past-error", "the receiver delivered %d envelopes without error, the reference model stops after %d", good, model.Good)
			return
		}
		if !x.sameRecords(recs, good) {
			return
		}
		if !(model.Err == "" && good == model.Good) && lastErr == "" {
			res.Fail("T3", "error-hidden:closed-by-application", "the application closed the connection after %d envelope(s) of a transfer that needs %d; the channel was closed without an error, as if the transfer were complete", sc.LocalClose, model.Good)
		}
		return
	}
	if model.Err == "" {
		// T1 / T2: complete, exact, error-free
		res.Bump("oracle.T2_termination")
		switch {
		case lastErr != "":
			sig := "error-on-complete-transfer"
			if faulty {
				sig = "error-on-complete-transfer-under-faults"
			}
			res.Fail("T1", sig, "the delivered envelopes form a complete, valid transfer of %d envelope(s), but the receiver reported %q after %d", model.Good, lastErr, good)
			return
		case good != model.Good:
			res.Fail("T2", "wrong-termination-point", "the transfer is complete with envelope %d (closing SOA), the receiver delivered %d envelope(s) before closing the channel", model.Good, good)
			return
		}
		if !x.sameRecords(recs, good) {
			return
		}
		if !faulty {
			res.Bump("oracle.T1_exact_delivery")
		} else {
			res.Bump("oracle.T5_no_silent_success")
		}
		if !x.cliConn.IsClosed() {
			res.Fail("T2", "connection-left-open", "the transfer completed but the library did not close the connection")
			return
		}
		if core.Mode == "instr" {
			// the unmodified tree's build cannot order the two closures deterministically; the instrumented one can
			res.Bump("oracle.T2_closed_when_channel_closes")
			if !x.connClosedAtChClose {
				res.Fail("T2", "channel-closed-before-connection", "when the consumer saw the channel closed the connection was still open: the transfer is announced finished before the library has closed the connection")
				return
			}
		}
		return
	}
	// the model says the transfer must end with an error after model.Good envelopes
	res.Bump("oracle.T3_error_reported")
	if clientTSIG && tsigBadAt >= 0 {
		res.Bump("oracle.T4_tsig_chain")
	}
	if lastErr == "" {
		sig := "error-hidden:" + model.Err
		if model.Err == "rcode" && !strings.HasPrefix(sc.Kind, "ixfr") && model.Good > 0 {
			sig = "axfr-rcode-ignored-after-first-envelope"
		}
		what := map[string]string{"decode": "an envelope that does not decode or does not verify", "id": "an envelope with another ID", "rcode": "an envelope with a non-zero RCODE", "soa": "a first record that is not an SOA", "incomplete": "a stream that ended before the closing SOA"}[model.Err]
		res.Fail("T3", sig, "the delivered envelopes contain %s after %d good envelope(s), yet the receiver reported a complete, error-free transfer (%d envelopes)", what, model.Good, good)
		return
	}
	if good > model.Good {
		res.Fail("T3", "delivered-past-error", "the receiver delivered %d envelopes without error, the reference model stops with %q after %d", good, model.Err, model.Good)
		return
	}
	if good < model.Good && !faulty {
		res.Fail("T1", "lost-envelopes", "the receiver reported an error (%s) after %d envelopes; the reference model expects %d good envelopes before %q", lastErr, good, model.Good, model.Err)
		return
	}
	x.sameRecords(recs, good)
}

// alwaysChecks: termination, closure, liveness - whatever was delivered.
//
//go:norace
func (x *run) alwaysChecks() bool {
	res, sc := x.res, x.sc
	res.Bump("oracle.T6_terminates")
	if !x.chClosed {
		res.Fail("T6", "channel-not-closed", "the transfer's channel was never closed")
		return false
	}
	// bounded liveness: once the last octet has arrived, the channel closes within the read timeout + 1 s
	lastArrive := x.relay.LastForwardT
	maxDelay := 0
	for _, op := range sc.Ops {
		if op.Kind == "delay" && op.DelayS > maxDelay {
			maxDelay = op.DelayS
		}
	}
	bound := time.Duration(sc.TimeoutMs)*time.Millisecond + time.Second + time.Duration(10*sc.DelayMs)*time.Millisecond
	bound += time.Duration((len(x.items)+1)*sc.ConsumerMs) * time.Millisecond // the consumer's own time
	if !lastArrive.IsZero() && x.closedT.Sub(lastArrive) > bound {
		res.Fail("T6", "closure-late", "the channel closed %v after the last octet was forwarded to the receiver (read timeout %d ms)", x.closedT.Sub(lastArrive), sc.TimeoutMs)
		return false
	}
	return true
}

//go:norace
func (x *run) sameRecords(recs [][]string, good int) bool {
	for i := 0; i < good && i < len(recs) && i < len(x.items); i++ {
		if strings.Join(recs[i], "\n") != strings.Join(x.items[i].recs, "\n") {
			x.res.Fail("T1", "records-differ", "envelope %d delivered on the channel differs from the envelope that reached the receiver:\nchannel: %v\nwire:    %v", i, x.items[i].recs, recs[i])
			return false
		}
	}
	return true
}

func faultClass(sc *Scenario) string {
	var k []string
	for _, op := range sc.Ops {
		s := op.Kind
		if op.Kind == "flip" {
			s += "-" + op.Region
		}
		pos := "mid"
		if op.Env == 0 {
			pos = "first"
		} else if op.Env >= len(sc.Cuts) {
			pos = "last"
		}
		k = append(k, s+"@"+pos)
	}
	if sc.CutAt > 0 {
		k = append(k, "cut")
	}
	for _, f := range []struct {
		on bool
		s  string
	}{{sc.BadFirst, "badfirst"}, {sc.Rcode != 0, "rcode"}, {sc.WrongID != 0, "wrongid"}, {sc.Trailing, "trailing"}} {
		if f.on {
			k = append(k, f.s)
		}
	}
	if len(k) == 0 {
		return "benign"
	}
	return strings.Join(k, "+")
}

var _ = hex.EncodeToString

func init() {
	core.Register(&core.Prop{ID: "C15", Gen: Gen, Decode: Decode, Run: Run, Shrink: Shrink, Modes: []string{"pristine", "instr"}})
}
