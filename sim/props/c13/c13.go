// Package c13 simulates the server lifecycle: start, accept, request arrival,
// handler execution, Shutdown / ShutdownContext, misuse calls, under a seeded
// schedule (DESIGN section 4, C13).
package c13

import (
	"crypto/tls"
	"encoding/json"
	"errors"
	"fmt"
	"io"
	"net"
	"strconv"
	"strings"
	"testing"
	"time"

	"github.com/miekg/dns"
	"verifsim/core"
	"verifsim/kernel"
	"verifsim/oracle"
	"verifsim/props/common"
	"verifsim/simnet"
)

type HPlan struct {
	Pre      int    `json:"pre,omitempty"`      // step-waits before replying
	WaitShut bool   `json:"waitshut,omitempty"` // park until a shutdown has been called
	SleepMs  int    `json:"sleep,omitempty"`
	Reply    bool   `json:"reply,omitempty"`
	Post     int    `json:"post,omitempty"`
	End      string `json:"end,omitempty"` // "" | close (handler closes the connection) | hijack (handler takes the connection over, then closes it)
}

type COp struct {
	Kind string `json:"k"`           // q | partial | idle | close | reset
	N    int    `json:"n,omitempty"` // partial: octets sent; idle: ms
	H    HPlan  `json:"h,omitempty"`
	// Leave: q only - the client does not wait for the reply but closes ("close") or
	// resets ("reset") its end as soon as the query is written: the handler's reply meets a dead connection
	Leave string `json:"leave,omitempty"`
}

type Client struct {
	After int   `json:"after,omitempty"`
	Ops   []COp `json:"ops"`
}

type Scenario struct {
	RunSeed   uint64   `json:"run_seed"`
	Transport string   `json:"transport"` // udp | tcp
	Strategy  int      `json:"strategy"`
	PCTDepth  int      `json:"pct_depth,omitempty"`
	Decorate  bool     `json:"decorate,omitempty"`
	Long      bool     `json:"long_timeouts,omitempty"` // 1 h server timeouts: liveness oracle armed
	SegMode   int      `json:"segmode,omitempty"`
	ShortRead int      `json:"shortread,omitempty"`
	DelayMs   int      `json:"delay_ms,omitempty"`
	JitterMs  int      `json:"jitter_ms,omitempty"`
	MaxTCPQ   int      `json:"max_tcp_queries,omitempty"`
	Clients   []Client `json:"clients"`

	ServeAfter   int    `json:"serve_after,omitempty"`
	Start2       bool   `json:"start2,omitempty"`
	Early        bool   `json:"early_shutdown,omitempty"` // a Shutdown issued before the server is started
	FailStart    string `json:"fail_start,omitempty"`     // a ListenAndServe that cannot succeed (bogus network / TLS without certificate) is attempted first
	UDPSock      bool   `json:"udp_sock,omitempty"`       // udp: the server runs on a UDP socket (SessionUDP branch) where the build has that seam
	PostYield    bool   `json:"post_yield,omitempty"`     // the return of every transport operation is a scheduling point of its own
	Spare        bool   `json:"spare_listener,omitempty"` // a udp server is also given a Listener it does not serve on
	ShutKind     string `json:"shut_kind"`                // plain | ctx
	ShutAfter    int    `json:"shut_after"`
	CtxMs        int    `json:"ctx_ms,omitempty"`
	Transient    []int  `json:"transient,omitempty"`      // these accept / datagram-read attempts fail with a temporary, non-timeout error
	FatalAccept  int    `json:"fatal_accept,omitempty"`   // tcp / tls: from this Accept attempt on (1-based) the listener fails with a permanent, non-temporary error: the serve call may end with that error, everything else the property says still holds
	OwnErr       bool   `json:"own_closed_err,omitempty"` // tcp / tls: Accept on the closed listener fails with an error of the listener's own, not net.ErrClosed
	CloseErr     bool   `json:"close_err,omitempty"`      // tcp / tls: closing the listener reports an error (it is closed all the same)
	Listen       bool   `json:"listen,omitempty"`         // the server is started with ListenAndServe (socket seam of the instrumented build) instead of ActivateAndServe
	ReuseOpts    int    `json:"reuse_opts,omitempty"`     // ListenAndServe: bit 0 ReusePort, bit 1 ReuseAddr
	OwnReader    bool   `json:"own_reader,omitempty"`     // tcp / tls: the decorated reader does the reading of stream messages itself (length prefix, then body, straight from the connection) instead of handing on to the server's
	NoDeadlines  bool   `json:"no_deadlines,omitempty"`   // tcp: the server's connections are of a kind that does not support deadlines; Shutdown cannot interrupt their reads and has to wait for the clients to go - everything else it promises still holds
	SockoptFail  bool   `json:"sockopt_fail,omitempty"`   // tcp: the connections the server accepts refuse every TCP-only socket option
	CloseStallMs int    `json:"close_stall_ms,omitempty"` // tcp / tls, instrumented build: closing a connection takes up to this much simulated time
	Again        bool   `json:"again,omitempty"`          // when the shutdown has completed and the serve call has returned, the same Server value is started once more - on new sockets, with the same clients and handler plans - and shut down again: a second life, after the first is over (not a restart into a drain)
	TrialShut    bool   `json:"trial_shut,omitempty"`     // fail_start noreader: a Shutdown is issued while the start that cannot succeed is under way (no other start follows): it may be accepted or refused, it must come back
	ShutB        bool   `json:"shutdown_b,omitempty"`     // a second, concurrent Shutdown
	Shut3        bool   `json:"shutdown_3,omitempty"`     // a Shutdown after the first has returned
	DrainFail    string `json:"drain_fail,omitempty"`     // while the Shutdown is (or may be) waiting for handlers, a start that cannot succeed is attempted (bogus | tcp-tls: a network nobody knows / TLS without a certificate): it is refused, and that is all it does
}

func Gen(seed uint64, tier string) any {
	r := core.Rng(seed)
	sc := &Scenario{RunSeed: seed}
	sc.Transport = core.Pick(r, "udp", "tcp")
	if tier == "thorough" || core.Chance(r, 15) {
		sc.Transport = core.Pick(r, "udp", "tcp", "tls")
	}
	sc.Strategy = r.IntN(kernel.NumStrats)
	sc.PCTDepth = 1 + r.IntN(3)
	sc.Decorate = core.Chance(r, 50)
	sc.Long = core.Chance(r, 70)
	sc.SegMode = r.IntN(3)
	sc.ShortRead = core.Pick(r, 0, 0, 30, 60)
	sc.DelayMs = core.Pick(r, 0, 1, 5)
	sc.JitterMs = core.Pick(r, 0, 2, 20)
	sc.MaxTCPQ = core.Pick(r, 0, 0, 0, 1, 2, -1)
	maxc, maxo := 3, 2
	if tier == "thorough" {
		maxc, maxo = 5, 3
	}
	nc := r.IntN(maxc + 1)
	total := 0
	for i := 0; i < nc; i++ {
		c := Client{After: r.IntN(6)}
		no := 1 + r.IntN(maxo)
		for j := 0; j < no; j++ {
			var op COp
			switch x := r.IntN(100); {
			case x < 70:
				op.Kind = "q"
				op.H = HPlan{Pre: r.IntN(4), WaitShut: core.Chance(r, 45), Reply: core.Chance(r, 85), Post: r.IntN(3)}
				if core.Chance(r, 20) {
					op.H.SleepMs = core.Pick(r, 1, 50, 3000)
				}
				if core.Chance(r, 12) {
					op.H.End = core.Pick(r, "close", "hijack", "keep")
				}
				if core.Chance(r, 8) {
					op.Leave = core.Pick(r, "close", "reset", "reset")
				}
			case x < 80:
				op.Kind, op.N = "partial", r.IntN(20)
			case x < 88:
				op.Kind, op.N = "idle", core.Pick(r, 1, 100, 5000)
			case x < 95:
				op.Kind = "close"
			default:
				op.Kind = "reset"
			}
			c.Ops = append(c.Ops, op)
			total++
			if op.Kind == "close" || op.Kind == "reset" || op.Kind == "partial" || op.Leave != "" {
				break
			}
		}
		sc.Clients = append(sc.Clients, c)
	}
	sc.ServeAfter = core.Pick(r, 0, 0, 0, r.IntN(10))
	sc.Start2 = core.Chance(r, 20)
	sc.Early = !sc.Start2 && core.Chance(r, 12)
	if !sc.Start2 && !sc.Early && core.Chance(r, 12) {
		sc.FailStart = core.Pick(r, "bogus", "tcp-tls", "sockopt", "noreader", "inuse")
	}
	sc.CloseErr = sc.Transport != "udp" && core.Chance(r, 12)
	sc.OwnErr = sc.Transport != "udp" && core.Chance(r, 25)
	sc.Listen = core.Chance(r, 40)
	if sc.Listen {
		sc.ReuseOpts = r.IntN(4)
	}
	sc.UDPSock = sc.Transport == "udp" && core.Chance(r, 50)
	sc.PostYield = core.Chance(r, 35)

	sc.Spare = sc.Transport == "udp" && core.Chance(r, 15)
	sc.ShutKind = core.Pick(r, "plain", "plain", "ctx")
	sc.ShutAfter = r.IntN(10 + 40*total)
	if sc.ShutKind == "ctx" {
		sc.CtxMs = core.Pick(r, 1, 10, 1000, 60000, -1)
	}
	sc.ShutB = core.Chance(r, 20)
	sc.Shut3 = core.Chance(r, 20)
	if sc.Transport != "udp" {
		sc.OwnReader = core.Chance(r, 15)
		sc.SockoptFail = sc.Transport == "tcp" && core.Chance(r, 20)
		if sc.Transport == "tcp" && core.Chance(r, 8) {
			sc.NoDeadlines = true
		} else if core.Chance(r, 10) {
			sc.CloseStallMs = core.Pick(r, 1500, 5000, 20000)
		}
	}
	if core.Chance(r, 12) {
		sc.Transient = append(sc.Transient, r.IntN(3))
		if core.Chance(r, 40) {
			sc.Transient = append(sc.Transient, sc.Transient[0]+1+r.IntN(2))
		}
	}
	if !sc.Start2 && !sc.Early && sc.FailStart == "" && core.Chance(r, 15) {
		sc.Again = true
		if sc.ShutKind == "ctx" {
			sc.CtxMs = core.Pick(r, 1000, 1000, 60000) // (a context the first shutdown is likely to beat; it expires during the second life)
		}
	}
	if sc.FailStart == "noreader" && core.Chance(r, 50) {
		sc.TrialShut = true
	}
	if !sc.Start2 && !sc.Early && sc.FailStart == "" && !sc.Again && core.Chance(r, 10) {
		sc.DrainFail = core.Pick(r, "bogus", "tcp-tls")
	}
	if sc.Transport != "udp" && len(sc.Transient) == 0 && !sc.Start2 && !sc.Early && sc.FailStart == "" && !sc.Again && core.Chance(r, 6) {
		// (not together with a second start: the serve call that ends early would let the second one begin after the shutdown - a restart, which the property does not cover)
		sc.FatalAccept = 1 + r.IntN(3)
	}
	return sc
}

func Decode(raw json.RawMessage) (any, error) {
	sc := &Scenario{}
	err := json.Unmarshal(raw, sc)
	return sc, err
}

// Shrink proposes simpler scenarios.
func Shrink(x any) []any {
	sc := x.(*Scenario)
	var out []any
	cp := func() *Scenario {
		b, _ := json.Marshal(sc)
		n := &Scenario{}
		json.Unmarshal(b, n)
		return n
	}
	for i := range sc.Clients {
		n := cp()
		n.Clients = append(n.Clients[:i], n.Clients[i+1:]...)
		out = append(out, n)
	}
	for i, c := range sc.Clients {
		if len(c.Ops) > 1 {
			n := cp()
			n.Clients[i].Ops = n.Clients[i].Ops[:len(c.Ops)-1]
			out = append(out, n)
		}
		for j, op := range c.Ops {
			if op.H.Pre > 0 || op.H.Post > 0 || op.H.SleepMs > 0 {
				n := cp()
				n.Clients[i].Ops[j].H.Pre, n.Clients[i].Ops[j].H.Post, n.Clients[i].Ops[j].H.SleepMs = 0, 0, 0
				out = append(out, n)
			}
			if op.H.End != "" {
				n := cp()
				n.Clients[i].Ops[j].H.End = ""
				out = append(out, n)
			}
		}
		if c.After > 0 {
			n := cp()
			n.Clients[i].After = 0
			out = append(out, n)
		}
	}
	flag := func(f func(n *Scenario) *bool) {
		if *f(sc) {
			n := cp()
			*f(n) = false
			out = append(out, n)
		}
	}
	flag(func(n *Scenario) *bool { return &n.Start2 })
	flag(func(n *Scenario) *bool { return &n.Early })
	flag(func(n *Scenario) *bool { return &n.ShutB })
	flag(func(n *Scenario) *bool { return &n.Shut3 })
	flag(func(n *Scenario) *bool { return &n.Decorate })
	flag(func(n *Scenario) *bool { return &n.Spare })
	flag(func(n *Scenario) *bool { return &n.Listen })
	flag(func(n *Scenario) *bool { return &n.CloseErr })
	flag(func(n *Scenario) *bool { return &n.OwnErr })
	flag(func(n *Scenario) *bool { return &n.OwnReader })
	flag(func(n *Scenario) *bool { return &n.Again })
	flag(func(n *Scenario) *bool { return &n.NoDeadlines })
	if sc.FailStart != "" {
		n := cp()
		n.FailStart = ""
		out = append(out, n)
	}
	num := func(f func(n *Scenario) *int) {
		if v := *f(sc); v != 0 {
			n := cp()
			*f(n) = 0
			out = append(out, n)
			if v > 1 {
				n := cp()
				*f(n) = v / 2
				out = append(out, n)
			}
		}
	}
	num(func(n *Scenario) *int { return &n.SegMode })
	num(func(n *Scenario) *int { return &n.ShortRead })
	num(func(n *Scenario) *int { return &n.DelayMs })
	num(func(n *Scenario) *int { return &n.JitterMs })
	num(func(n *Scenario) *int { return &n.ServeAfter })
	num(func(n *Scenario) *int { return &n.ShutAfter })
	num(func(n *Scenario) *int { return &n.MaxTCPQ })
	num(func(n *Scenario) *int { return &n.CloseStallMs })
	if sc.Strategy != kernel.StratUniform {
		n := cp()
		n.Strategy = kernel.StratUniform
		out = append(out, n)
	}
	if sc.ShutKind == "ctx" {
		n := cp()
		n.ShutKind, n.CtxMs = "plain", 0
		out = append(out, n)
	}
	return out
}

// ---------------------------------------------------------------- run state

type opState struct {
	ci, oi     int
	plan       HPlan
	sentSeq    uint64
	entered    int
	enterSeq   uint64
	enterT     time.Time
	exited     int
	exitSeq    uint64
	exitT      time.Time
	wrote      bool
	writeErr   string
	writeSeq   uint64
	cliDone    bool
	cliOutcome string // reply | timeout | eof | err:<..> | badreply
	cliEndSeq  uint64
	cliEndT    time.Time
}

type call struct {
	kind      string // start | shutdown
	name      string
	callSeq   uint64
	callT     time.Time
	ret       bool
	retSeq    uint64
	retT      time.Time
	err       string
	notified  bool // start: NotifyStartedFunc fired from this call
	notifySeq uint64
	ctx       *common.Ctx
	inflight  int // shutdown: handlers in flight at return
	invFlight int // shutdown: calls of the application's MsgInvalidFunc in flight at return
	openConns int // shutdown: accepted connections the server had not closed yet at return
}

type run struct {
	sc  *Scenario
	k   *kernel.K
	n   *simnet.Net
	srv *dns.Server
	l   *simnet.Listener
	pc  *simnet.PacketConn
	uc  *simnet.UDPConn
	res *core.Result

	onUDPSock    bool
	viaListen    bool  // the real start goes through ListenAndServe
	listenErr    error // what the next listen attempt is answered with
	listens      int
	inTrial      bool               // a start that is expected to fail is in progress
	trialSockets []*simnet.Listener // listeners handed to start attempts that were expected to fail
	stuckIn      string             // set while a call that must not block is in progress
	trialOver    bool               // the start that cannot succeed, and the Shutdown that follows it, are over

	ops        map[string]*opState
	opList     []*opState
	calls      []*call
	notified   bool
	notifyN    int
	shutCalled bool
	cliClosed  map[int]uint64 // client index -> seq at which it closed/reset its conn
	cliFin     []bool
	lifeFin    bool
	shutBFin   bool
	drainFin   bool
	entered    int
	exited     int
	invEntered int // calls of the application's MsgInvalidFunc
	invExited  int
}

// invalidCB is the application's MsgInvalidFunc: a log line, a metric - it takes a while. The server that called it is
// not done before it has returned.
//
//go:norace
func (x *run) invalidCB(m []byte, err error) {
	k := x.k
	k.Lock()
	x.invEntered++
	k.BumpLocked("probe.invalid_callback_entered")
	k.Unlock()
	k.WaitSteps("invalid.cb", 4+int(x.sc.RunSeed%9), 3*time.Millisecond)
	k.Lock()
	x.invExited++
	k.Unlock()
}

//go:norace
func (x *run) tok(ci, oi int) string { return "c" + strconv.Itoa(ci) + "o" + strconv.Itoa(oi) + ".x." }

// --- handler

//go:norace
func (x *run) ServeDNS(w dns.ResponseWriter, r *dns.Msg) {
	k := x.k
	name := ""
	if len(r.Question) > 0 {
		name = strings.ToLower(r.Question[0].Name)
	}
	k.Lock()
	st := x.ops[name]
	if st == nil && (name == "partial.x." || name == "") {
		k.Unlock()
		return
	}
	if st == nil {
		x.res.Fail("X0", "unknown-request", "handler saw a request nobody sent: %q", name)
		k.Unlock()
		return
	}
	st.entered++
	st.enterSeq, st.enterT = k.Seq, time.Now()
	x.entered++
	k.EffectLocked("h.enter " + name)
	k.Unlock()
	p := st.plan
	k.Yield("h.enter", 0)
	if p.Pre > 0 {
		k.WaitSteps("h.pre", p.Pre, time.Millisecond)
	}
	if p.WaitShut {
		k.Wait("h.waitshut", 0, common.Flag{V: &x.shutCalled}, 0)
		k.WaitSteps("h.postshut", 1+p.Pre, time.Millisecond)
	}
	if p.SleepMs > 0 {
		k.Sleep("h.sleep", time.Duration(p.SleepMs)*time.Millisecond)
	}
	if p.Reply {
		m := new(dns.Msg)
		m.SetReply(r)
		m.Answer = append(m.Answer, &dns.TXT{Hdr: dns.RR_Header{Name: r.Question[0].Name, Rrtype: dns.TypeTXT, Class: dns.ClassINET}, Txt: []string{name}})
		err := w.WriteMsg(m)
		k.Lock()
		st.wrote = true
		st.writeErr = common.ErrStr(err)
		st.writeSeq = k.Seq
		k.EffectLocked("h.wrote " + name + " " + st.writeErr)
		k.Unlock()
	}
	if p.Post > 0 {
		k.WaitSteps("h.post", p.Post, time.Millisecond)
	}
	switch p.End {
	case "close":
		w.Close()
		k.Bump("probe.handler_closed_connection")
	case "hijack":
		w.Hijack()
		k.Yield("h.hijacked", 0)
		w.Close() // the connection is now the handler's to close
		k.Bump("probe.handler_hijacked_connection")
	case "keep":
		// the handler takes the connection over and keeps it: from now on it is
		// the application's, the server must leave it alone (also at Shutdown)
		if x.sc.Transport == "tcp" {
			w.Hijack()
			x.n.Freeze(w.RemoteAddr().String())
			k.Bump("probe.handler_kept_hijacked_connection")
		}
	}
	k.Lock()
	st.exited++
	st.exitSeq, st.exitT = k.Seq, time.Now()
	x.exited++
	k.EffectLocked("h.exit " + name)
	k.Unlock()
}

// --- lifecycle tasks

// ownReader is a DecorateReader product that reads stream messages itself: the application has its
// own framing code (metrics, a size policy) and does not hand on to the reader it was given. It sets
// no deadlines - those are the server's business.
type ownReader struct {
	k          *kernel.K
	dns.Reader // (datagrams are left to the reader it was given)
}

//go:norace
func (o *ownReader) ReadTCP(conn net.Conn, timeout time.Duration) ([]byte, error) {
	o.k.Yield("reader.own", 0)
	var pre [2]byte
	if _, err := io.ReadFull(conn, pre[:]); err != nil {
		return nil, err
	}
	m := make([]byte, int(pre[0])<<8|int(pre[1]))
	if _, err := io.ReadFull(conn, m); err != nil {
		return nil, err
	}
	return m, nil
}

//go:norace
func (o *ownReader) ReadPacketConn(conn net.PacketConn, timeout time.Duration) ([]byte, net.Addr, error) {
	return o.Reader.(dns.PacketConnReader).ReadPacketConn(conn, timeout)
}

// streamOnlyReader hides the PacketConnReader side of the reader it wraps.
type streamOnlyReader struct{ dns.Reader }

var errSockopt = errors.New("setsockopt: operation not permitted")
var errClose = errors.New("close tcp 10.0.0.1:53: input/output error")

// closeErrListener closes like the listener it wraps and then reports an error.
type closeErrListener struct {
	*simnet.Listener
	x *run
}

//go:norace
func (l closeErrListener) Close() error {
	l.Listener.Close()
	l.x.k.Bump("fault.listener_close_reports_error")
	return errClose
}

//go:norace
func (x *run) listener() net.Listener {
	if x.sc.CloseErr {
		return closeErrListener{x.l, x}
	}
	return x.l
}

var errInUse = errors.New("listen tcp 10.0.0.1:53: bind: address already in use")

// the socket seam: what ListenAndServe's listen calls are answered with

//go:norace
func (x *run) listenTCP(network, addr string, reuseport, reuseaddr bool) (net.Listener, error) {
	x.k.Yield("listen.tcp", 0)
	x.k.Lock()
	x.listens++
	err := x.listenErr
	if want := x.sc.ReuseOpts; err == nil && x.viaListen && (reuseport != (want&1 != 0) || reuseaddr != (want&2 != 0)) {
		x.res.Fail("S5", "listen-options", "ListenAndServe asked for a socket with reuseport=%v reuseaddr=%v, the server was configured with ReusePort=%v ReuseAddr=%v", reuseport, reuseaddr, want&1 != 0, want&2 != 0)
	}
	trial := x.inTrial || !x.viaListen || x.l == nil
	x.k.EffectLocked("listen " + network + " " + addr + " " + common.ErrStr(err))
	x.k.Unlock()
	if err != nil {
		return nil, err
	}
	if trial {
		// a listen call outside the start under test (a start that is expected to fail before it
		// gets this far): it gets a socket of its own, which it must not leave open when it fails
		l := x.n.Listen()
		x.k.Lock()
		x.trialSockets = append(x.trialSockets, l)
		x.k.Unlock()
		return l, nil
	}
	return x.listener(), nil
}

//go:norace
func (x *run) listenUDP(network, addr string, reuseport, reuseaddr bool) (net.PacketConn, error) {
	x.k.Yield("listen.udp", 0)
	x.k.Lock()
	x.listens++
	err := x.listenErr
	if err == nil && x.uc == nil {
		err = errors.New("listen: no datagram socket in this scenario")
	}
	x.k.EffectLocked("listen " + network + " " + addr + " " + common.ErrStr(err))
	x.k.Unlock()
	if err != nil {
		return nil, err
	}
	return common.ServerSocket(x.uc), nil
}

type serveTask struct {
	x     *run
	c     *call
	after int
}

//go:norace
func (s *serveTask) RunEvent(time.Time) {
	x, k := s.x, s.x.k
	k.Observe() // (a second life begins when the first is over: its calls have returned)
	defer k.Announce()
	if s.after > 0 {
		k.WaitSteps("life.wait", s.after, time.Millisecond)
	}
	if s.c.name == "start-1" && x.sc.FailStart == "sockopt" && !x.sc.Start2 && !x.sc.Early {
		if x.uc == nil || !x.onUDPSock {
			goto start
		}
	}
	if s.c.name == "start-1" && x.sc.FailStart == "inuse" && !x.viaListen {
		goto start
	}
	if s.c.name == "start-1" && x.sc.FailStart != "" && !x.sc.Start2 && !x.sc.Early {
		// a start that cannot succeed must leave the server stopped
		var err error
		x.inTrial = true
		if x.sc.FailStart == "noreader" {
			// a generic PacketConn with a decorated reader that cannot read from one:
			// the serve call gives up at once (on a socket of its own, which it closes)
			keepPC, keepL, keepDR := x.srv.PacketConn, x.srv.Listener, x.srv.DecorateReader
			x.srv.PacketConn, x.srv.Listener = x.n.ListenPacket(), nil
			x.srv.DecorateReader = func(r dns.Reader) dns.Reader { return streamOnlyReader{r} }
			err = x.srv.ActivateAndServe()
			x.srv.PacketConn, x.srv.Listener, x.srv.DecorateReader = keepPC, keepL, keepDR
			k.Bump("fault.start_with_unusable_reader")
		} else if x.sc.FailStart == "sockopt" && x.viaListen {
			// ListenAndServe opens a socket of its own, which then refuses the options the UDP
			// branch needs: the call must fail and must not leave that socket open
			real := x.uc
			x.uc = x.n.ListenUDP()
			x.uc.OptsErr = errSockopt
			err = x.srv.ListenAndServe()
			trial := x.uc
			x.uc = real
			k.Bump("fault.setsockopt_refused")
			if !trial.PacketConn.IsClosed() {
				k.Lock()
				x.res.Fail("S7", "socket-leaked-by-failed-start", "ListenAndServe failed (%v) but left the socket it had opened open", err)
				k.Unlock()
			}
		} else if x.sc.FailStart == "sockopt" {
			// the socket refuses the options the UDP branch needs
			x.uc.OptsErr = errSockopt
			err = x.srv.ActivateAndServe()
			x.uc.OptsErr = nil
			k.Bump("fault.setsockopt_refused")
		} else if x.sc.FailStart == "inuse" {
			// the address is taken: the listen call itself fails
			x.listenErr = errInUse
			err = x.srv.ListenAndServe()
			x.listenErr = nil
			k.Bump("fault.listen_address_in_use")
		} else {
			keepNet, keepTLS := x.srv.Net, x.srv.TLSConfig
			x.srv.Net, x.srv.TLSConfig = x.sc.FailStart, nil
			err = x.srv.ListenAndServe()
			x.srv.Net, x.srv.TLSConfig = keepNet, keepTLS
		}
		x.inTrial = false
		k.Lock()
		x.res.Stats["oracle.S5_failed_start"]++
		if err == nil {
			x.res.Fail("S5", "impossible-start-succeeded", "a start that cannot succeed (%s) returned nil", x.sc.FailStart)
		}
		for _, l := range x.trialSockets {
			x.res.Stats["oracle.S7_failed_start_closes_its_socket"]++
			if !l.IsClosed() {
				x.res.Fail("S7", "socket-leaked-by-failed-start", "a start that failed (%s: %v) had opened a listening socket and left it open", x.sc.FailStart, err)
			}
		}
		k.Unlock()
		x.stuckIn = fmt.Sprintf("Shutdown after a start that failed (%s: %v)", x.sc.FailStart, err)
		serr := x.srv.Shutdown()
		x.stuckIn = ""
		if serr == nil {
			k.Lock()
			x.res.Fail("S5", "shutdown-after-failed-start", "after a ListenAndServe that failed (%v), Shutdown returned %v instead of reporting that the server is not started", err, serr)
			k.Unlock()
		}
		if x.trialOnly() {
			k.Lock()
			x.trialOver = true
			k.Unlock()
			return // no other start follows: this life is about the Shutdown that met the failing one
		}
	}
start:
	k.Lock()
	if s.c.name == "start-1" {
		x.trialOver = true
	}
	s.c.callSeq, s.c.callT = k.Seq, time.Now()
	k.EffectLocked("call " + s.c.name)
	k.Unlock()
	var err error
	if x.viaListen {
		err = x.srv.ListenAndServe()
	} else {
		err = x.srv.ActivateAndServe()
	}
	k.Lock()
	s.c.ret, s.c.retSeq, s.c.retT, s.c.err = true, k.Seq, time.Now(), common.ErrStr(err)
	k.EffectLocked("ret " + s.c.name + " " + s.c.err)
	k.Unlock()
}

// trialOnly: the only start of this life is one that cannot succeed, and a Shutdown is issued while it is under way.
//
//go:norace
func (x *run) trialOnly() bool {
	return x.sc.TrialShut && x.sc.FailStart == "noreader" && !x.sc.Start2 && !x.sc.Early
}

//go:norace
func (x *run) notifyStarted() {
	k := x.k
	k.Lock()
	x.notified = true
	x.notifyN++
	// attribute to the start call that has not returned
	for _, c := range x.calls {
		if c.kind == "start" && !c.ret && !c.notified && c.callSeq > 0 {
			c.notified, c.notifySeq = true, k.Seq
			break
		}
	}
	k.EffectLocked("notify-started")
	k.Unlock()
}

//go:norace
func (x *run) shutdown(c *call, kind string, ctxMs int) {
	k := x.k
	k.Lock()
	c.callSeq, c.callT = k.Seq, time.Now()
	x.shutCalled = true
	k.EffectLocked("call " + c.name)
	k.Unlock()
	var err error
	if kind == "ctx" {
		if ctxMs < 0 && core.Mode != "pristine" {
			// with yields between the library's statements both cases of its select can be
			// ready at once, and which one Go takes is not ours to decide
			ctxMs = 1
		}
		c.ctx = common.NewCtx(k, time.Duration(ctxMs)*time.Millisecond, c.name)
		err = x.srv.ShutdownContext(c.ctx)
	} else {
		err = x.srv.Shutdown()
	}
	k.Lock()
	c.ret, c.retSeq, c.retT, c.err = true, k.Seq, time.Now(), common.ErrStr(err)
	c.inflight = x.entered - x.exited
	c.invFlight = x.invEntered - x.invExited
	for _, sc := range x.n.Conns {
		if sc.Role == "srv" && sc.Accepted && !sc.Frozen && !sc.IsClosed() {
			c.openConns++
		}
	}
	k.EffectLocked("ret " + c.name + " " + c.err)
	k.Unlock()
}

type lifeTask struct{ x *run }

type startSettled struct{ x *run }

//go:norace
func (s startSettled) Holds() bool {
	// both start calls are decided: one has returned (with an error) or the
	// server has announced itself twice (impossible on a correct server)
	n := 0
	for _, c := range s.x.calls {
		if c.kind == "start" && c.ret {
			n++
		}
	}
	return n >= 1
}

//go:norace
func (l *lifeTask) RunEvent(time.Time) {
	x, k, sc := l.x, l.x.k, l.x.sc
	k.Observe()
	defer x.fin(&x.lifeFin)
	if x.trialOnly() {
		// the Shutdown meets the start that cannot succeed at some point of its way; whether it is accepted
		// (the server counted as started just then) or refused, it has to come back
		k.WaitSteps("life.wait", sc.ShutAfter%14, time.Millisecond)
		c := x.newCall("shutdown", "shutdown-A")
		k.Bump("fault.shutdown_during_failing_start")
		x.shutdown(c, sc.ShutKind, max(sc.CtxMs, 1000))
		return
	}
	if sc.FailStart == "noreader" && !sc.Start2 && !sc.Early {
		// that failed start marks the server as started for a moment; a Shutdown
		// overlapping it would be a shutdown of another start than the one under test
		if !k.Wait("life.trial", 0, common.Flag{V: &x.trialOver}, 0) {
			return
		}
	}
	if sc.Early {
		c := x.newCall("shutdown", "shutdown-early")
		x.shutdown(c, "plain", 0)
	}
	if sc.Start2 && !sc.Early {
		// do not shut down before both starts are settled: a start that is
		// still waiting for the lock would otherwise legitimately restart the
		// server after the shutdown, which the property does not cover
		if !k.Wait("life.settle", 0, startSettled{x}, 0) {
			return
		}
	}
	k.WaitSteps("life.wait", sc.ShutAfter, 40*time.Millisecond)
	c := x.newCall("shutdown", "shutdown-A")
	x.shutdown(c, sc.ShutKind, sc.CtxMs)
	if refusedShutdown(c) && !x.anyShutdownOK() {
		// the server had not started yet: wait for it, then stop it
		if !k.Wait("life.waitstart", 0, common.Flag{V: &x.notified}, 0) {
			return
		}
		c2 := x.newCall("shutdown", "shutdown-A2")
		x.shutdown(c2, sc.ShutKind, sc.CtxMs)
	}
	if sc.Shut3 {
		k.WaitSteps("life.wait", 3, time.Millisecond)
		c3 := x.newCall("shutdown", "shutdown-3")
		x.shutdown(c3, "plain", 0)
	}
}

//go:norace
func (x *run) anyShutdownOK() bool {
	x.k.Lock()
	defer x.k.Unlock()
	for _, c := range x.calls {
		if c.kind == "shutdown" && c.ret && !refusedShutdown(c) {
			return true
		}
	}
	return false
}

// drainFailTask: once a Shutdown has been issued - and is, in many runs, still waiting for handlers - a start that cannot
// succeed is attempted. The server is not started at that moment, so the attempt is taken up, and refused for its own
// reasons; the Shutdown that is under way must not feel it.
type drainFailTask struct{ x *run }

//go:norace
func (s *drainFailTask) RunEvent(time.Time) {
	x, k := s.x, s.x.k
	k.Observe()
	defer x.fin(&x.drainFin)
	if !k.Wait("drainfail.wait", 0, common.Flag{V: &x.shutCalled}, 0) {
		return
	}
	k.WaitSteps("drainfail.steps", 2+int(x.sc.RunSeed%9), time.Millisecond)
	k.Lock()
	begun := x.notified
	k.Unlock()
	if !begun {
		return // that Shutdown came before the server had started: the start under test has yet to read its configuration
	}
	keepNet, keepTLS := x.srv.Net, x.srv.TLSConfig
	x.srv.Net, x.srv.TLSConfig = x.sc.DrainFail, nil
	t0 := time.Now()
	err := x.srv.ListenAndServe()
	x.srv.Net, x.srv.TLSConfig = keepNet, keepTLS
	k.Lock()
	k.BumpLocked("fault.failing_start_during_shutdown")
	x.res.Stats["oracle.S5_failed_start"]++
	if err == nil {
		x.res.Fail("S5", "impossible-start-succeeded", "a start that cannot succeed (%s), attempted after Shutdown had been called, returned nil", x.sc.DrainFail)
	} else if d := time.Since(t0); d > time.Second {
		x.res.Fail("S5", "start-refusal-slow", "a start that cannot succeed (%s) was refused only after %v of simulated time", x.sc.DrainFail, d)
	}
	k.Unlock()
}

type shutBTask struct{ x *run }

//go:norace
func (s *shutBTask) RunEvent(time.Time) {
	x, k := s.x, s.x.k
	k.Observe()
	defer x.fin(&x.shutBFin)
	if !k.Wait("shutB.wait", 0, common.Flag{V: &x.shutCalled}, 0) {
		return
	}
	k.WaitSteps("shutB.steps", int(x.sc.RunSeed%7), time.Millisecond)
	c := x.newCall("shutdown", "shutdown-B")
	x.shutdown(c, "plain", 0)
}

//go:norace
func (x *run) newCall(kind, name string) *call {
	x.k.Lock()
	defer x.k.Unlock()
	c := &call{kind: kind, name: name}
	x.calls = append(x.calls, c)
	return c
}

//go:norace
func (x *run) fin(b *bool) {
	x.k.Announce()
	x.k.Lock()
	*b = true
	x.k.Unlock()
}

// refusedShutdown: the call came back with an error of its own - not its context's, not what closing the
// listener reported: it declined to shut anything down. (Which words it uses is not the property's business.)
//
//go:norace
func refusedShutdown(c *call) bool {
	return c.err != "" && c.err != "context deadline exceeded" && c.err != "context canceled" && c.err != errClose.Error()
}

// --- clients

type clientTask struct {
	x  *run
	ci int
}

//go:norace
func (c *clientTask) RunEvent(time.Time) {
	x, k, sc := c.x, c.x.k, c.x.sc
	defer x.fin(&x.cliFin[c.ci])
	plan := sc.Clients[c.ci]
	if plan.After > 0 {
		k.WaitSteps("cli.wait", plan.After, time.Millisecond)
	}
	var conn interface {
		Read([]byte) (int, error)
		Write([]byte) (int, error)
		Close() error
		SetDeadline(time.Time) error
	}
	var sconn *simnet.StreamConn
	var co *dns.Conn
	if sc.Transport == "tls" {
		sconn = x.n.Dial(x.l, false)
		_, ccfg := common.TLSConfigs()
		tc := tls.Client(sconn, ccfg)
		conn = tc
		co = &dns.Conn{Conn: tc}
		sconn.SetDeadline(time.Now().Add(3 * time.Hour))
	} else if sc.Transport == "tcp" {
		sconn = x.n.Dial(x.l, false)
		conn = sconn
		co = &dns.Conn{Conn: sconn}
	} else {
		d := x.n.DialPacket(x.pc)
		conn = d
		co = &dns.Conn{Conn: d, UDPSize: 4096}
	}
	timeout := 10 * time.Second
	if sc.Long {
		timeout = 2 * time.Hour
	}
	closed := false
	for oi, op := range plan.Ops {
		switch op.Kind {
		case "q":
			st := x.ops[x.tok(c.ci, oi)]
			m := new(dns.Msg)
			m.SetQuestion(x.tok(c.ci, oi), dns.TypeTXT)
			m.Id = uint16(1000 + c.ci*16 + oi)
			conn.SetDeadline(time.Now().Add(timeout))
			k.Lock()
			st.sentSeq = k.Seq
			k.Unlock()
			out := ""
			if err := co.WriteMsg(m); err != nil {
				out = "err:write:" + err.Error()
			} else if op.Leave != "" {
				out = "left"
				k.Lock()
				x.cliClosed[c.ci] = k.Seq
				k.BumpLocked("fault.client_left_before_reply")
				k.Unlock()
				if op.Leave == "reset" && sconn != nil {
					sconn.Reset()
				} else {
					conn.Close()
				}
				closed = true
			} else {
				for {
					r, err := co.ReadMsg()
					if err != nil {
						out = classify(err)
						break
					}
					if r.Id != m.Id {
						continue // a stale reply of an earlier exchange on this socket
					}
					if len(r.Answer) == 1 {
						if t, ok := r.Answer[0].(*dns.TXT); ok && len(t.Txt) == 1 && t.Txt[0] == x.tok(c.ci, oi) {
							out = "reply"
							break
						}
					}
					out = "badreply"
					break
				}
			}
			k.Lock()
			st.cliDone, st.cliOutcome, st.cliEndSeq, st.cliEndT = true, out, k.Seq, time.Now()
			k.EffectLocked("cli " + x.tok(c.ci, oi) + " " + out)
			k.Unlock()
		case "partial":
			m := new(dns.Msg)
			m.SetQuestion("partial.x.", dns.TypeTXT)
			b, _ := m.Pack()
			var frame []byte
			if sc.Transport != "udp" {
				frame = append([]byte{byte(len(b) >> 8), byte(len(b))}, b...)
			} else {
				frame = b
			}
			n := op.N
			if n > len(frame)-1 {
				n = len(frame) - 1
			}
			if n > 0 {
				conn.SetDeadline(time.Now().Add(timeout))
				conn.Write(frame[:n])
			}
			x.k.Bump("probe.partial_request_sent")
		case "idle":
			k.Sleep("cli.idle", time.Duration(op.N)*time.Millisecond)
		case "close":
			k.Lock()
			x.cliClosed[c.ci] = k.Seq
			k.Unlock()
			conn.Close()
			closed = true
		case "reset":
			k.Lock()
			x.cliClosed[c.ci] = k.Seq
			k.Unlock()
			if sconn != nil {
				sconn.Reset()
			} else {
				conn.Close()
			}
			closed = true
		}
	}
	if !closed && sconn != nil && sc.Transport == "tls" {
		// read through the TLS layer until the server ends the session
		buf := make([]byte, 64)
		for {
			if _, err := conn.Read(buf); err != nil {
				break
			}
		}
		conn.Close()
	} else if !closed && sconn != nil {
		// stay connected until the server ends the connection (or a long
		// time passes): this is the idle / half-sent connection Shutdown has
		// to unblock
		sconn.SetDeadline(time.Now().Add(3 * time.Hour))
		buf := make([]byte, 64)
		for {
			if _, err := sconn.Read(buf); err != nil {
				break
			}
		}
		sconn.Close()
	}
}

//go:norace
func classify(err error) string {
	s := err.Error()
	switch {
	case strings.Contains(s, "timeout"):
		return "timeout"
	case s == "EOF" || strings.Contains(s, "unexpected EOF"):
		return "eof"
	}
	return "err:" + s
}

type doneCheck struct{ x *run }

//go:norace
func (d doneCheck) Check(time.Time) string {
	x := d.x
	if !x.lifeFin || (x.sc.ShutB && !x.shutBFin) || (x.sc.DrainFail != "" && !x.drainFin) {
		return ""
	}
	for _, f := range x.cliFin {
		if !f {
			return ""
		}
	}
	for _, c := range x.calls {
		if !c.ret {
			return ""
		}
	}
	if x.trialOnly() && !x.trialOver {
		return ""
	}
	return "done"
}

// Run executes one scenario.
func Run(t *testing.T, scAny any, verbose bool) *core.Result {
	sc := scAny.(*Scenario)
	res := &core.Result{Seed: sc.RunSeed, Verdict: core.OK, Stats: map[string]int{}}
	leak := common.Bubble(t, func() { runIn(sc, res, verbose) })
	if leak != "" {
		res.Fail("S7", "goroutine-leak", "%s", leak)
	}
	return res
}

//go:norace
func runIn(sc *Scenario, res *core.Result, verbose bool) {
	k := kernel.New(kernel.Config{Seed: sc.RunSeed, Strategy: sc.Strategy, PCTDepth: sc.PCTDepth, PCTSpan: 60 + sc.ShutAfter, Verbose: verbose, MaxSteps: 40000})
	kernel.SetCurrent(k)
	defer kernel.SetCurrent(nil)
	n := simnet.New(k)
	n.PostYield = sc.PostYield
	n.Stream = simnet.StreamLink{MinDelay: time.Duration(sc.DelayMs) * time.Millisecond, Jitter: time.Duration(sc.JitterMs) * time.Millisecond, SegMode: sc.SegMode, ShortRead: sc.ShortRead}
	n.Dgram = simnet.DgramLink{MinDelay: time.Duration(sc.DelayMs) * time.Millisecond, Jitter: time.Duration(sc.JitterMs) * time.Millisecond}
	n.CloseYields = core.Mode == "instr"
	srv := &dns.Server{MaxTCPQueries: sc.MaxTCPQ, UDPSize: 4096}
	start0 := time.Now()
	lives := 1
	if sc.Again {
		lives = 2
	}
	for life := 1; life <= lives; life++ {
		x := &run{sc: sc, k: k, n: n, res: res, ops: map[string]*opState{}, cliClosed: map[int]uint64{}, cliFin: make([]bool, len(sc.Clients))}
		srv.Handler, srv.NotifyStartedFunc = x, x.notifyStarted
		srv.Listener, srv.PacketConn = nil, nil
		x.srv = srv
		more := runLife(sc, res, k, n, x, life)
		if !more || res.Verdict != core.OK {
			break
		}
		if life < lives {
			res.Bump("cover.second_life_of_the_same_server")
		}
	}
	res.Steps = k.Steps
	res.SimNS = int64(time.Since(start0))
	res.Digest = k.Digest()
	for name, v := range k.Stats {
		res.Stats[name] += v
	}
	if verbose {
		res.Log = k.Log
	}
	k.Abort()
}

// runLife sets the sockets up, starts the tasks of one life of the server, runs the kernel until they are done
// and judges that life. It reports whether another life may follow: the shutdown completed, the serve call
// returned nil.
//
//go:norace
func runLife(sc *Scenario, res *core.Result, k *kernel.K, n *simnet.Net, x *run, life int) bool {
	srv := x.srv
	if sc.Long {
		srv.ReadTimeout = time.Hour
		srv.IdleTimeout = hourIdle
	}
	if sc.RunSeed%2 == 0 {
		srv.MsgInvalidFunc = x.invalidCB // (the other half of the runs leaves the default)
	}
	if sc.Decorate {
		slow := []time.Duration{0, 0, time.Millisecond, 50 * time.Millisecond}[sc.RunSeed%4]
		srv.DecorateReader = (&common.Decorator{K: k, Slow: slow}).Decorate
		srv.MsgAcceptFunc = (&common.YieldAccept{K: k, Slow: slow}).Accept
		if sc.RunSeed%3 == 0 {
			srv.DecorateWriter = (&common.WDecorator{K: k}).Decorate
		}
	}
	if sc.OwnReader && sc.Transport != "udp" {
		srv.DecorateReader = func(inner dns.Reader) dns.Reader { return &ownReader{k: k, Reader: inner} }
		res.Bump("cover.reader_that_supplants_the_servers")
	}
	n.SrvNoDeadlines = sc.NoDeadlines && sc.Transport == "tcp"
	n.SrvSockoptFail = sc.SockoptFail && sc.Transport == "tcp"
	if sc.Transport == "tcp" && sc.RunSeed%9 == 0 {
		n.CloseErr = "srv" // closing an accepted connection reports an error (it is closed all the same)
	}
	if sc.CloseStallMs > 0 && n.CloseYields && sc.Transport != "udp" {
		n.SrvCloseStall = time.Duration(sc.CloseStallMs) * time.Millisecond
	}
	// ListenAndServe needs the socket seam; for udp it insists on a UDP socket
	x.viaListen = sc.Listen && common.ListenSeam() && (sc.Transport != "udp" || (sc.UDPSock && common.UDPSeam))
	if common.ListenSeam() {
		// whatever start path asks for a socket, it gets a simulated one
		defer common.InstallSockets(&common.Sockets{ListenTCP: x.listenTCP, ListenUDP: x.listenUDP})()
	}
	if x.viaListen {
		srv.Addr = "10.0.0.1:53"
		srv.ReusePort, srv.ReuseAddr = sc.ReuseOpts&1 != 0, sc.ReuseOpts&2 != 0
		res.Bump("cover.started_with_ListenAndServe")
	}
	if sc.Transport == "tls" {
		x.l = n.Listen()
		scfg, _ := common.TLSConfigs()
		if x.viaListen {
			srv.Net, srv.TLSConfig = "tcp-tls", scfg
		} else {
			srv.Listener = tls.NewListener(x.listener(), scfg)
		}
	} else if sc.Transport == "tcp" {
		x.l = n.Listen()
		if x.viaListen {
			srv.Net = "tcp"
		} else {
			srv.Listener = x.listener()
		}
	} else {
		x.uc = n.ListenUDP()
		x.pc = x.uc.PacketConn
		srv.PacketConn = x.pc
		if sc.UDPSock && common.UDPSeam {
			srv.PacketConn = common.ServerSocket(x.uc)
			x.onUDPSock = true
			res.Bump("cover.server_on_udp_socket")
		}
		if x.viaListen {
			srv.Net, srv.PacketConn = "udp", nil
		}
		if sc.Spare {
			x.l = n.Listen()
			srv.Listener = x.l
		}
	}
	if x.pc != nil {
		x.pc.Transient = sc.Transient
	} else {
		x.l.Transient = sc.Transient
	}
	if x.l != nil {
		x.l.OwnClosedErr = sc.OwnErr
		if sc.Transport != "udp" && !sc.Start2 && !sc.Early && sc.FailStart == "" {
			x.l.FatalAt = sc.FatalAccept
		}
	}
	for ci, c := range sc.Clients {
		for oi, op := range c.Ops {
			if op.Kind == "q" {
				st := &opState{ci: ci, oi: oi, plan: op.H}
				x.ops[x.tok(ci, oi)] = st
				x.opList = append(x.opList, st)
			}
		}
	}
	c1 := &call{kind: "start", name: "start-1"}
	if !x.trialOnly() {
		x.calls = append(x.calls, c1)
	}
	k.Go("serve1", &serveTask{x: x, c: c1, after: sc.ServeAfter})
	if sc.Start2 && !sc.Early { // a start issued after an accepted shutdown is a restart, which the property does not cover
		c2 := &call{kind: "start", name: "start-2"}
		x.calls = append(x.calls, c2)
		k.Go("serve2", &serveTask{x: x, c: c2, after: int(sc.RunSeed % 5)})
	}
	k.Go("life", &lifeTask{x})
	if sc.ShutB {
		k.Go("shutB", &shutBTask{x})
	}
	if sc.DrainFail != "" {
		k.Go("drainfail", &drainFailTask{x})
	}
	for ci := range sc.Clients {
		k.Go("client"+strconv.Itoa(ci), &clientTask{x, ci})
	}
	out := k.Run(doneCheck{x})
	x.judge(out)
	if out != kernel.Finished || res.Verdict != core.OK {
		return false
	}
	// another life only after a shutdown that completed and a serve call that came back with nil
	for _, c := range x.calls {
		if c.kind == "shutdown" && c.ret && c.ctx != nil && c.err != "" {
			return false
		}
		if c.kind == "start" && c.callSeq > 0 && c.err != "" && c.retSeq > 0 && !strings.Contains(c.name, "start-2") {
			return false
		}
	}
	return true
}

//go:norace
func hourIdle() time.Duration { return time.Hour }

// ---------------------------------------------------------------- oracles

//go:norace
func (x *run) judge(outcome string) {
	res, sc, k := x.res, x.sc, x.k
	switch outcome {
	case kernel.StepCap:
		if res.Verdict == core.OK {
			res.Verdict, res.Msg = core.Harness, "step cap reached"
		}
		return
	case kernel.Quiescent:
		// S9: nothing can happen any more, yet a lifecycle call or a client
		// has not finished
		if x.stuckIn != "" {
			res.Fail("S5", "shutdown-blocks-after-failed-start", "%s never returned: shutting down a server that is not started blocks instead of returning an error", x.stuckIn)
			return
		}
		res.Fail("S9", "deadlock", "simulated deadlock: nothing enabled, nothing pending; unfinished: %s; parked: %v", x.unfinished(), k.Parked())
		return
	}
	if x.trialOnly() {
		// a life that consists of a start that cannot succeed and a Shutdown that met it: both came back (or
		// the kernel would have gone quiet above), and the Shutdown did so promptly - with nil when it caught
		// the server counted as started, with a refusal otherwise
		for _, c := range x.calls {
			if c.kind != "shutdown" {
				continue
			}
			res.Bump("oracle.S5_shutdown_meets_failing_start")
			if d := c.retT.Sub(c.callT); d > time.Second && (c.ctx == nil || c.err == "") {
				res.Fail("S5", "shutdown-slow-around-failed-start", "%s, issued while a start that cannot succeed was under way, came back only after %v of simulated time (%q)", c.name, d, c.err)
			}
			if c.ctx != nil && c.err == "context deadline exceeded" {
				res.Fail("S5", "shutdown-blocks-around-failed-start", "%s, issued while a start that cannot succeed was under way, waited until its context expired: nothing was there to wait for", c.name)
			}
		}
		res.Nontrivial = true
		res.Class = fmt.Sprintf("%s/%s/trial-only", sc.Transport, core.Mode)
		return
	}
	// classify calls
	var starts, shuts []*call
	for _, c := range x.calls {
		if c.callSeq == 0 && !c.ret {
			continue
		}
		if c.kind == "start" {
			starts = append(starts, c)
		} else {
			shuts = append(shuts, c)
		}
	}
	const fatalAcceptErr = "accept tcp 10.0.0.1:53: accept4: too many open files in system"
	// A call is classified by what it did, not by the text of its error: a start that comes back with an error
	// before any shutdown has been asked for was refused (the one that serves stays until then); a shutdown that
	// comes back with an error which is neither its context's nor the listener's was refused.
	firstShut := uint64(1 << 62)
	for _, c := range shuts {
		if c.callSeq < firstShut {
			firstShut = c.callSeq
		}
	}
	// S5 / S4 for starts: exactly one start serves, the others are refused
	served := 0
	for _, c := range starts {
		switch {
		case c.err == "":
			served++
			res.Bump("oracle.S4_serve_nil")
		case c.err == fatalAcceptErr:
			// the listener broke for good: the serve call reports that
			served++
			res.Bump("probe.serve_ended_by_fatal_accept_error")
			if sc.FatalAccept == 0 {
				res.Fail("S4", "serve-error", "%s returned %q although the listener never failed", c.name, c.err)
			}
		case c.retSeq < firstShut:
			res.Bump("oracle.S5_start_refused")
			if d := c.retT.Sub(c.callT); d > time.Second {
				res.Fail("S5", "start-refusal-slow", "%s was refused only after %v of simulated time", c.name, d)
			}
		default:
			res.Fail("S4", "serve-error", "%s returned %q after shutdown, want nil", c.name, c.err)
		}
	}
	if len(starts) > 0 && served != 1 {
		res.Fail("S5", "start-count", "%d of %d concurrent start calls served (want exactly 1): %s", served, len(starts), x.callsText())
	}
	if x.notifyN > 1 {
		res.Fail("S5", "double-start", "the server announced itself started %d times without a completed shutdown in between", x.notifyN)
	}
	// shutdowns: exactly one is accepted
	var acc *call
	nacc := 0
	for _, c := range shuts {
		if refusedShutdown(c) {
			res.Bump("oracle.S5_shutdown_refused")
			if d := c.retT.Sub(c.callT); d > time.Second {
				res.Fail("S5", "shutdown-refusal-slow", "%s was refused only after %v of simulated time", c.name, d)
			}
			continue
		}
		nacc++
		acc = c
	}
	if nacc != 1 {
		res.Fail("S5", "shutdown-count", "%d shutdown calls were accepted for one started server (want exactly 1): %s", nacc, x.callsText())
		return
	}
	// an early shutdown (issued before any start call) must have been refused
	for _, c := range shuts {
		if c.name == "shutdown-early" && !refusedShutdown(c) {
			first := uint64(1 << 62)
			for _, s := range starts {
				if s.callSeq < first {
					first = s.callSeq
				}
			}
			if c.retSeq < first {
				res.Fail("S5", "shutdown-before-start-accepted", "Shutdown returned %q before any start call had been made", c.err)
			}
		}
	}
	// a shutdown called after the accepted one has returned must be refused
	for _, c := range shuts {
		if c != acc && c.callSeq > acc.retSeq && !refusedShutdown(c) {
			res.Fail("S5", "shutdown-after-shutdown", "%s called after %s returned gave %q", c.name, acc.name, c.err)
		}
	}
	ctxExpired := acc.ctx != nil && acc.err != ""
	if sc.CloseErr && acc.err == errClose.Error() {
		// Shutdown may pass on what closing the listener reported; everything else it promises still holds
		res.Bump("probe.shutdown_returned_close_error")
		ctxExpired = false
	} else if acc.err != "" {
		if acc.ctx == nil || acc.err != "context deadline exceeded" {
			res.Fail("S1", "shutdown-error", "%s returned unexpected error %q", acc.name, acc.err)
		} else if !acc.ctx.Expired() {
			res.Fail("S1", "ctx-error-unexpired", "%s returned the context's error before the context expired", acc.name)
		}
		res.Bump("probe.shutdown_ctx_expired")
	}
	// S1 drain
	if !ctxExpired {
		res.Bump("oracle.S1_drain")
		if acc.inflight != 0 {
			res.Fail("S1", "return-with-handlers-in-flight", "%s returned nil with %d handler(s) still running", acc.name, acc.inflight)
		}
		res.Bump("oracle.S7_no_callback_left_running")
		if acc.invFlight != 0 && res.Verdict == core.OK {
			res.Fail("S7", "callback-running-after-shutdown", "%s returned nil while the server was still inside %d call(s) of the application's MsgInvalidFunc: a goroutine of the server is left running application code", acc.name, acc.invFlight)
		}
	} else if acc.inflight > 0 {
		res.Bump("probe.ctx_expired_with_handlers_in_flight")
	}
	// per request
	var lastExit time.Time
	for _, st := range x.opList {
		name := x.tok(st.ci, st.oi)
		if st.entered > 1 {
			res.Fail("X0", "handler-twice", "handler invoked %d times for %s", st.entered, name)
		}
		if st.entered == 0 {
			continue
		}
		if st.exitT.After(lastExit) {
			lastExit = st.exitT
		}
		if st.enterSeq < acc.callSeq && (st.exited == 0 || st.exitSeq > acc.callSeq) {
			res.Bump("probe.handler_in_flight_at_shutdown_call")
		}
		// S3: no handler starts after a completed shutdown - and whatever the call returned, a request that
		// was not even sent when it returned cannot have been read before: the server has stopped reading
		if ctxExpired && st.sentSeq > acc.retSeq && !x.n.SrvNoDeadlines { // (a read that cannot be interrupted is still there when the next request comes)
			res.Bump("oracle.S3_nothing_read_after_return")
			res.Fail("S3", "request-read-after-shutdown", "the request for %s was sent after %s had returned (%s), yet the server read it and started its handler: the server goes on serving", name, acc.name, acc.err)
		}
		if !ctxExpired {
			res.Bump("oracle.S3_no_late_start")
			if st.enterSeq > acc.retSeq {
				res.Fail("S3", "handler-after-shutdown", "handler for %s entered after %s had returned", name, acc.name)
			}
		}
		if !st.wrote {
			continue
		}
		if st.writeSeq > acc.callSeq {
			res.Bump("probe.reply_written_after_shutdown_call")
		}
		// S2: replies of running handlers are delivered
		gone, closedBefore := x.cliClosed[st.ci]
		cliGone := closedBefore && gone < st.writeSeq
		cliGaveUp := st.cliDone && st.cliEndSeq < st.writeSeq
		cliLeft := st.cliOutcome == "left" // never meant to read the reply
		excused := cliGone || cliGaveUp || cliLeft || (ctxExpired && acc.retSeq < st.writeSeq)
		if excused {
			res.Bump("oracle.S2_excused")
			continue
		}
		res.Bump("oracle.S2_delivery")
		if st.writeErr != "" {
			res.Fail("S2", "reply-write-failed", "handler for %s (entered at seq %d, shutdown called at %d, returned at %d) could not write its reply: %s", name, st.enterSeq, acc.callSeq, acc.retSeq, st.writeErr)
		} else if st.cliOutcome != "reply" {
			res.Fail("S2", "reply-not-delivered", "handler for %s wrote its reply without error but the client got %q", name, st.cliOutcome)
		}
	}
	// S10: a request the server's read returned is served: nothing that was read is dropped on the floor
	if x.pc != nil {
		read := map[string]int{}
		for _, d := range x.pc.Received {
			if len(d.Seen) > 12 {
				if q, _, _, err := oracle.Name(d.Seen, 12); err == nil {
					read[q]++
				}
			}
		}
		for _, st := range x.opList {
			name := x.tok(st.ci, st.oi)
			if read[name] > 0 {
				res.Bump("oracle.S10_read_request_served")
				if st.entered != read[name] {
					res.Fail("S10", "read-request-not-served", "the server read the request for %s %d time(s) from its socket but the handler ran %d time(s)", name, read[name], st.entered)
				}
			}
		}
	}
	// S6 bounded liveness
	if sc.Long {
		base := acc.callT
		if lastExit.After(base) {
			base = lastExit
		}
		res.Bump("oracle.S6_liveness")
		// (a server whose connections cannot be interrupted, or take their time to close, waits for them - rightly)
		waitsForConns := x.n.SrvNoDeadlines || x.n.SrvCloseStall > 0
		if !ctxExpired && !waitsForConns {
			if d := acc.retT.Sub(base); d > time.Second {
				res.Fail("S6", "shutdown-slow", "%s returned %v (simulated) after it was called and the last handler had exited: it waited for a timeout or for a client", acc.name, d)
			}
		}
		for _, c := range starts {
			if c.err == "" {
				b := base
				if ctxExpired || waitsForConns {
					continue
				}
				if d := c.retT.Sub(b); d > time.Second {
					res.Fail("S6", "serve-return-slow", "%s returned %v (simulated) after shutdown was called and the last handler had exited", c.name, d)
				}
			}
		}
	}
	if acc.ctx != nil {
		if dl, _ := acc.ctx.Deadline(); acc.retT.After(dl) {
			res.Fail("S6", "ctx-overrun", "%s returned %v after its context deadline", acc.name, acc.retT.Sub(dl))
		}
	}
	// S7 leaks (only meaningful after a complete shutdown)
	if !ctxExpired && core.Mode == "instr" {
		// in the instrumented build Close is a scheduling point, so "closed by the
		// time Shutdown returns" is decided by the schedule, not by luck
		res.Bump("oracle.S7_closed_at_return")
		if acc.openConns > 0 {
			res.Fail("S7", "conn-open-at-shutdown-return", "%s returned nil while %d accepted connection(s) had not been closed yet", acc.name, acc.openConns)
		}
	}
	if !ctxExpired {
		res.Bump("oracle.S7_leaks")
		if x.l != nil && !x.l.IsClosed() {
			res.Fail("S7", "listener-open", "listener still open after shutdown completed")
		}
		if x.pc != nil && !x.pc.IsClosed() {
			res.Fail("S7", "packetconn-open", "PacketConn still open after shutdown completed")
		}
		for _, c := range x.n.Conns {
			if c.Role == "srv" && c.Accepted && !c.Frozen && !c.IsClosed() {
				res.Fail("S7", "conn-open", "accepted connection #%d still open after shutdown completed", c.ID)
			}
		}
		for _, site := range []string{"srv.stream.", "listener.Accept", "pc.", "reader.", "h."} {
			if n := k.ParkedAt(site); n > 0 {
				res.Fail("S7", "task-parked", "%d server-side task(s) still parked at %s* after shutdown and serve returned: %v", n, site, k.Parked())
			}
		}
	}
	// S7: a connection the application took over is not the server's any more
	for _, c := range x.n.Conns {
		if c.Frozen {
			res.Bump("oracle.S7_hijacked_left_alone")
			if len(c.Touched) > 0 {
				res.Fail("S7", "hijacked-connection-touched", "the server operated on connection #%d at a later instant than the one at which its handler had hijacked it and returned (%v): the connection is still the server's", c.ID, c.Touched)
			}
		}
	}
	// probes
	if x.l != nil {
		for _, c := range x.n.Conns {
			if c.Role == "srv" && c.Accepted {
				res.Bump("probe.tcp_conn_served")
			}
		}
	}
	for _, c := range shuts {
		if refusedShutdown(c) {
			res.Bump("probe.shutdown_refused")
		}
	}
	for _, c := range starts {
		if c.err != "" && c.err != fatalAcceptErr && c.retSeq < firstShut {
			res.Bump("probe.start_refused")
		}
	}
	// class / non-triviality
	inflight := res.Stats["probe.handler_in_flight_at_shutdown_call"] > 0
	late := res.Stats["probe.reply_written_after_shutdown_call"] > 0
	res.Bump("cover.transport_" + sc.Transport)
	res.Nontrivial = x.entered > 0 || len(shuts) > 1 || len(starts) > 1
	res.Class = fmt.Sprintf("%s/%s/inflight=%v/late=%v/ctxexp=%v/start2=%v/shuts=%d/handlers=%d", sc.Transport, core.Mode, inflight, late, ctxExpired, len(starts) > 1, len(shuts), min(x.entered, 3))
}

//go:norace
func (x *run) unfinished() string {
	var u []string
	if !x.lifeFin {
		u = append(u, "lifecycle task")
	}
	for _, c := range x.calls {
		if c.callSeq > 0 && !c.ret {
			u = append(u, c.name)
		}
	}
	for i, f := range x.cliFin {
		if !f {
			u = append(u, "client"+strconv.Itoa(i))
		}
	}
	return strings.Join(u, ",")
}

//go:norace
func (x *run) callsText() string {
	var s []string
	for _, c := range x.calls {
		s = append(s, fmt.Sprintf("%s[call@%d ret@%d err=%q]", c.name, c.callSeq, c.retSeq, c.err))
	}
	return strings.Join(s, " ")
}

func init() {
	core.Register(&core.Prop{ID: "C13", Gen: Gen, Decode: Decode, Run: Run, Shrink: Shrink, Modes: []string{"pristine", "instr"}, Race: true})
}
