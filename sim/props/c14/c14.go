// Package c14 simulates server admission and routing: a Byzantine sender
// feeds the real Server arbitrary octets over UDP and TCP under default and
// random accept policies and every inbound message is accounted for exactly
// once (handled / rejected / ignored / reported); the real ServeMux is driven
// by concurrent Handle / HandleRemove / ServeDNS tasks and its history is
// checked against a sequential routing model with porcupine (DESIGN 4, C14).
package c14

import (
	"encoding/hex"
	"encoding/json"
	"fmt"
	"net"
	"reflect"
	"sort"
	"strconv"
	"strings"
	"testing"
	"time"

	"github.com/anishathalye/porcupine"
	"github.com/miekg/dns"
	"verifsim/core"
	"verifsim/gen"
	"verifsim/kernel"
	"verifsim/oracle"
	"verifsim/props/common"
	"verifsim/simnet"
)

type InMsg struct {
	Peer int    `json:"peer"`
	Hex  string `json:"hex"`
	Note string `json:"note,omitempty"`
}

type MuxOp struct {
	Task    int    `json:"task"`
	Kind    string `json:"kind"` // handle | remove | dispatch
	Pattern string `json:"pattern,omitempty"`
	H       int    `json:"h,omitempty"`
	QName   string `json:"qname,omitempty"`
	QType   uint16 `json:"qtype,omitempty"`
	Park    int    `json:"park,omitempty"` // dispatch: scheduling points the chosen handler takes before returning
}

type Scenario struct {
	RunSeed     uint64         `json:"run_seed"`
	Kind        string         `json:"kind"` // admission | mux
	Strategy    int            `json:"strategy"`
	PCTDepth    int            `json:"pct_depth,omitempty"`
	Transport   string         `json:"transport,omitempty"` // udp | tcp
	Policy      string         `json:"policy,omitempty"`    // default | random
	PolicyKey   uint64         `json:"policy_key,omitempty"`
	UDPSize     int            `json:"udp_size,omitempty"`
	Dup         int            `json:"dup,omitempty"`
	SegMode     int            `json:"segmode,omitempty"`
	ShortRead   int            `json:"shortread,omitempty"`
	Yield       bool           `json:"yield,omitempty"` // accept policy and reader take a scheduling point
	Peers       int            `json:"peers,omitempty"`
	StallAt     int            `json:"stall_at,omitempty"` // tcp, one peer: before its n-th frame (1-based) the peer sends only StallOctets of it, pauses longer than the server\'s read timeout, then carries on
	StallOctets int            `json:"stall_octets,omitempty"`
	PkgPolicy   bool           `json:"pkg_policy,omitempty"`      // the accept policy is installed as the package-wide default (dns.DefaultMsgAcceptFunc) and Server.MsgAcceptFunc is left unset
	Soak        string         `json:"soak,omitempty"`            // udp, rare: "idle" the server runs with its default read timeout (2 s) and nothing arrives for 2100 s before the traffic; "runts" 1100 one-octet datagrams arrive before it. Either way what comes afterwards is served like anything else
	DefaultMux  bool           `json:"default_mux,omitempty"`     // mux: the package-level Handle / HandleFunc / HandleRemove and DefaultServeMux instead of a ServeMux of the run's own
	NoInvalidFn bool           `json:"no_invalid_func,omitempty"` // Server.MsgInvalidFunc is left unset (the default configuration): reports cannot be observed, everything else can
	Trickle     bool           `json:"trickle,omitempty"`         // the stalled frame arrives in three pieces, 1.5 and 1 read timeouts apart (each piece makes progress, none arrives in time)
	CutAt       int            `json:"cut_at,omitempty"`          // tcp, one peer: its n-th frame (1-based) announces its full length but only CutOctets of the body are sent before the peer closes
	CutOctets   int            `json:"cut_octets,omitempty"`      // body octets sent (chosen on a question / record boundary as often as not)
	ShutCtxMs   int            `json:"shut_ctx_ms,omitempty"`     // with ShutAfter: the server is stopped with ShutdownContext and a context of this many milliseconds - which may well end before the messages in hand are through; a plain Shutdown follows
	ShutAfter   int            `json:"shut_after,omitempty"`      // udp: Shutdown is called after this many steps, while peers are still sending (0 = after they are done)
	Transient   []int          `json:"transient,omitempty"`       // these accept / datagram-read attempts fail with a temporary, non-timeout error
	UDPSock     bool           `json:"udp_sock,omitempty"`        // udp: the server runs on a UDP socket (SessionUDP branch) where the build has that seam
	PostYield   bool           `json:"post_yield,omitempty"`
	Pace        int            `json:"pace_ms,omitempty"`         // tcp: the server keeps its default timeouts (2 s for the first message of a connection, 8 s idle between messages) and every peer pauses this long before each frame after its first: long-lived connections, each message well inside the idle timeout
	Anonymous   bool           `json:"anonymous,omitempty"`       // udp: the socket is of a kind whose peers have no address (unixgram, unbound clients): reads report none, replies cannot be routed - they are collected where the socket refuses them
	MaxTCPQ     int            `json:"max_tcp_queries,omitempty"` // tcp: the server serves this many messages per connection (0: unlimited); what lies behind them in the stream is not read
	OwnReader   bool           `json:"own_reader,omitempty"`      // tcp: a DecorateReader product that does the framing of stream messages itself
	WriteFailAt int            `json:"write_fail_at,omitempty"`   // tcp, one peer: the n-th write on the server's side of its connection fails (nothing goes out); the server carries on - one reply is lost, none is wrong
	Again       bool           `json:"again,omitempty"`           // udp: when the server has been shut down it is given a larger UDPSize and a new socket and started again; the peers then send queries padded beyond the old size (and within the new one): a second life of the same Server value
	Async       bool           `json:"async,omitempty"`           // tcp: the handler answers every other accepted request from a task of its own, after it has returned (the server is reading - and rejecting - the messages behind it meanwhile); peers read what they are sent
	FinWithData bool           `json:"fin_with_data,omitempty"`   // tcp: peers end their sending right behind their last frame, and the read that returns the last octets returns io.EOF with them      // the return of every transport operation is a scheduling point of its own
	Msgs        []InMsg        `json:"msgs,omitempty"`
	Initial     map[string]int `json:"initial,omitempty"` // mux: patterns registered before the tasks start
	Ops         []MuxOp        `json:"ops,omitempty"`
}

var labels = []string{"a", "b", "c", "a\\.b", "c\\046a"} // the last two are single labels that contain a dot

func randName(r interface{ IntN(int) int }, depth int) string {
	if depth == 0 {
		return "."
	}
	s := ""
	for i := 0; i < depth; i++ {
		l := labels[r.IntN(len(labels))]
		if r.IntN(4) == 0 {
			l = strings.ToUpper(l)
		}
		s += l + "."
	}
	return s
}

func Gen(seed uint64, tier string) any {
	r := core.Rng(seed)
	sc := &Scenario{RunSeed: seed, Kind: "admission"}
	sc.Strategy = r.IntN(kernel.NumStrats)
	sc.PCTDepth = 1 + r.IntN(3)
	if core.Chance(r, 35) {
		sc.Kind = "mux"
		sc.DefaultMux = core.Chance(r, 25)
		sc.Initial = map[string]int{}
		for i := 0; i < r.IntN(4); i++ {
			sc.Initial[randName(r, r.IntN(4))] = 1 + r.IntN(6)
		}
		nt := 2 + r.IntN(3)
		nops := 4 + r.IntN(14)
		if tier == "thorough" {
			nops = 6 + r.IntN(30)
		}
		for i := 0; i < nops; i++ {
			op := MuxOp{Task: r.IntN(nt)}
			switch x := r.IntN(10); {
			case x < 3:
				op.Kind, op.Pattern, op.H = "handle", randName(r, r.IntN(4)), 1+r.IntN(6)
				if core.Chance(r, 20) {
					op.Pattern = strings.TrimSuffix(op.Pattern, ".") // not fully qualified
					if op.Pattern == "" {
						op.Pattern = "."
					}
				}
			case x < 5:
				op.Kind, op.Pattern = "remove", randName(r, r.IntN(4))
			default:
				op.Kind, op.QName = "dispatch", randName(r, r.IntN(5))
				op.QType = core.Pick(r, dns.TypeA, dns.TypeA, dns.TypeDS, dns.TypeDS, dns.TypeSOA, dns.TypeNS)
				op.Park = r.IntN(3)
			}
			sc.Ops = append(sc.Ops, op)
		}
		return sc
	}
	sc.Transport = core.Pick(r, "udp", "tcp")
	sc.Policy = core.Pick(r, "default", "default", "random")
	sc.PolicyKey = r.Uint64()
	sc.UDPSize = core.Pick(r, 512, 512, 1232, 4096)
	sc.Dup = core.Pick(r, 0, 0, 25)
	sc.SegMode = r.IntN(3)
	sc.ShortRead = core.Pick(r, 0, 40)
	sc.Yield = core.Chance(r, 40)
	sc.Peers = 1 + r.IntN(3)
	sc.UDPSock = sc.Transport == "udp" && core.Chance(r, 50)
	sc.PostYield = core.Chance(r, 35)
	sc.NoInvalidFn = core.Chance(r, 15)
	sc.PkgPolicy = core.Chance(r, 20)

	if sc.Transport == "udp" && core.Chance(r, 25) {
		sc.ShutAfter = 5 + r.IntN(60)
		sc.Dup = 0
		if core.Chance(r, 40) {
			sc.ShutCtxMs = core.Pick(r, 1, 1, 3, 20)
		}
	}
	n := 1 + r.IntN(12)
	if tier == "thorough" {
		n = 1 + r.IntN(40)
	}
	for i := 0; i < n; i++ {
		b, note := genPacket(r)
		if len(b) >= 2 {
			// unique ID per inbound message so that replies are attributable
			b[0], b[1] = byte((0x100+i)>>8), byte(0x100+i)
		}
		sc.Msgs = append(sc.Msgs, InMsg{Peer: r.IntN(sc.Peers), Hex: hex.EncodeToString(b), Note: note})
	}
	if sc.Transport == "tcp" && core.Chance(r, 15) {
		// a peer that stalls in the middle of a frame for longer than the read timeout
		sc.Peers = 1
		for i := range sc.Msgs {
			sc.Msgs[i].Peer = 0
		}
		sc.StallAt = 1 + r.IntN(len(sc.Msgs))
		b, _ := hex.DecodeString(sc.Msgs[sc.StallAt-1].Hex)
		sc.StallOctets = r.IntN(len(b) + 2)
		sc.Trickle = core.Chance(r, 40)
	}
	if sc.Transport == "udp" && sc.ShutAfter == 0 && core.Chance(r, map[bool]int{true: 3, false: 1}[tier == "thorough"]) {
		sc.Soak = core.Pick(r, "idle", "runts")
	}
	if sc.Transport == "tcp" && sc.StallAt == 0 && core.Chance(r, 15) {
		// a peer that goes away in the middle of a frame: the message it had begun is not a message the server received
		sc.Peers = 1
		for i := range sc.Msgs {
			sc.Msgs[i].Peer = 0
		}
		sc.CutAt = 1 + r.IntN(len(sc.Msgs))
		b, _ := hex.DecodeString(sc.Msgs[sc.CutAt-1].Hex)
		sc.CutOctets = r.IntN(len(b) + 1)
		if lay, err := oracle.Parse(b); err == nil && core.Chance(r, 70) {
			// where a decoder that trusts the counts less than the octets would stop cleanly
			cuts := []int{12}
			for _, q := range lay.Questions {
				cuts = append(cuts, q.End)
			}
			for _, rr := range lay.RRs {
				cuts = append(cuts, rr.RdEnd)
			}
			sc.CutOctets = cuts[r.IntN(len(cuts))]
		}
		if sc.CutOctets >= len(b) {
			sc.CutOctets = max(len(b)-1, 0)
		}
	}
	if sc.Transport == "tcp" && sc.StallAt == 0 && sc.CutAt == 0 {
		switch x := r.IntN(100); {
		case x < 12:
			sc.Pace = core.Pick(r, 2100, 2500, 4000, 6500)
			if len(sc.Msgs) > 8 {
				sc.Msgs = sc.Msgs[:8]
			}
		case x < 24:
			sc.FinWithData = true
		}
	}
	if sc.Transport == "udp" && sc.Soak == "" && core.Chance(r, 10) {
		sc.Anonymous, sc.UDPSock = true, false
	}
	if sc.Transport == "tcp" {
		sc.OwnReader = core.Chance(r, 15)
		if sc.StallAt == 0 && sc.CutAt == 0 && core.Chance(r, 12) {
			sc.MaxTCPQ = core.Pick(r, 1, 2, 3, 5)
		}
		if sc.Peers == 1 && !sc.Yield && core.Chance(r, 10) {
			sc.WriteFailAt = 1 + r.IntN(4)
		}
	}
	if sc.Transport == "tcp" && sc.StallAt == 0 && sc.CutAt == 0 && !sc.FinWithData && sc.WriteFailAt == 0 && sc.MaxTCPQ == 0 && core.Chance(r, 20) {
		// (not with peers that end their sending early: the server closes such a connection as soon as it has
		// read the end, and a reply still to be written by another task meets that close - a stream's writer
		// belongs to its connection)
		sc.Async = true
	}
	if sc.Transport == "udp" && sc.Soak == "" && sc.ShutCtxMs == 0 && sc.UDPSize < 4096 && core.Chance(r, 12) {
		sc.Again = true
	}
	if core.Chance(r, 12) {
		sc.Transient = append(sc.Transient, r.IntN(3))
		if core.Chance(r, 40) {
			sc.Transient = append(sc.Transient, sc.Transient[0]+1+r.IntN(2))
		}
	}
	return sc
}

// genPacket makes one inbound packet: valid, header variant, or damaged.
func genPacket(r interface {
	IntN(int) int
	Uint64() uint64
}) ([]byte, string) {
	rr := core.Rng(r.Uint64())
	rc := gen.Random(rr, core.Pick(rr, 0, 0, 1, 3))
	rc.Response = false
	rc.QName = fmt.Sprintf("t%d.%s", rr.IntN(1000), core.Pick(rr, "test.", "Test.", "other.", "sub.test.", "oThEr.", "SUB.tesT."))
	note := "valid"
	switch rr.IntN(10) {
	case 0:
		rc.Opcode, note = rr.IntN(16), "opcode"
	case 1:
		rc.Response, note = true, "qr"
	case 2: // NOTIFY with one answer
		rc.Opcode, rc.Answer, rc.Ns, rc.Extra, note = 4, []gen.RRRef{{I: 0}}, nil, nil, "notify"
	case 3: // IXFR-style: one authority record
		rc.QType, rc.Answer, rc.Ns, rc.Extra, note = dns.TypeIXFR, nil, []gen.RRRef{{I: 0}}, nil, "ixfr"
	case 4:
		rc.Answer, rc.Ns = nil, nil
		rc.Extra = make([]gen.RRRef, rr.IntN(4))
		for i := range rc.Extra {
			rc.Extra[i] = gen.RRRef{I: 3 + i}
		}
		note = "additional"
	}
	m := rc.Build()
	if rr.IntN(12) == 0 {
		m.Question = append(m.Question, dns.Question{Name: "second.test.", Qtype: dns.TypeA, Qclass: dns.ClassINET})
		note = "two-questions"
	}
	if rr.IntN(14) == 0 {
		// two OPT records (RFC 6891 allows one): odd, but nothing a decoder cannot read - and within what the
		// default policy lets through
		m.Extra = []dns.RR{&dns.OPT{Hdr: dns.RR_Header{Name: ".", Rrtype: dns.TypeOPT, Class: 1232}}, &dns.OPT{Hdr: dns.RR_Header{Name: ".", Rrtype: dns.TypeOPT, Class: 4096}}}
		note = "two-opt"
	}
	b, err := m.Pack()
	if err != nil {
		b = []byte{0, 0, 1, 0, 0, 1, 0, 0, 0, 0, 0, 0, 1, 'x', 0, 0, 1, 0, 1}
	}
	switch x := rr.IntN(100); {
	case x < 45:
	case x < 55: // truncate
		b, note = b[:rr.IntN(len(b)+1)], note+"+trunc"
	case x < 60:
		b, note = b[:core.Pick(rr, 0, 1, 2, 11, 12, 13)%(len(b)+1)], note+"+trunc-short"
	case x < 72: // bit flips
		for i := 0; i < 1+rr.IntN(3); i++ {
			b[rr.IntN(len(b))] ^= 1 << uint(rr.IntN(8))
		}
		note += "+flip"
	case x < 80: // section-count lie
		f := 4 + 2*rr.IntN(4)
		v := core.Pick(rr, 0, 1, 2, 3, 255, 65535)
		b[f], b[f+1] = byte(v>>8), byte(v)
		note += "+count-lie"
	case x < 86: // compression pointer rewrite inside the question name
		if len(b) > 14 {
			p := 12 + rr.IntN(min(len(b)-13, 20))
			b[p], b[p+1] = 0xc0|byte(rr.IntN(2)), byte(rr.IntN(256))
			note += "+pointer"
		}
	case x < 91: // splice
		o, _ := gen.Random(rr, 2).Build().Pack()
		if len(o) > 12 {
			cut := rr.IntN(len(b) + 1)
			b = append(append([]byte(nil), b[:cut]...), o[rr.IntN(len(o)):]...)
			note += "+splice"
		}
	case x < 96: // header only
		b, note = b[:12], note+"+header-only"
	default: // trailing garbage
		b, note = append(b, byte(rr.IntN(256)), byte(rr.IntN(256)), 0), note+"+trailing"
	}
	return b, note
}

func Decode(raw json.RawMessage) (any, error) {
	sc := &Scenario{}
	err := json.Unmarshal(raw, sc)
	return sc, err
}

func Shrink(x any) []any {
	sc := x.(*Scenario)
	var out []any
	cp := func() *Scenario {
		b, _ := json.Marshal(sc)
		n := &Scenario{}
		json.Unmarshal(b, n)
		return n
	}
	if l := len(sc.Msgs); l > 1 {
		n := cp()
		n.Msgs = n.Msgs[:l/2]
		out = append(out, n)
		n = cp()
		n.Msgs = n.Msgs[l/2:]
		out = append(out, n)
	}
	for i := range sc.Msgs {
		if len(sc.Msgs) > 1 && len(sc.Msgs) <= 12 {
			n := cp()
			n.Msgs = append(n.Msgs[:i], n.Msgs[i+1:]...)
			out = append(out, n)
		}
	}
	if l := len(sc.Ops); l > 1 {
		n := cp()
		n.Ops = n.Ops[:l/2]
		out = append(out, n)
		n = cp()
		n.Ops = n.Ops[l/2:]
		out = append(out, n)
		for i := range sc.Ops {
			if l <= 16 {
				n := cp()
				n.Ops = append(n.Ops[:i], n.Ops[i+1:]...)
				out = append(out, n)
			}
		}
	}
	for _, p := range core.SortedKeys(sc.Initial) {
		n := cp()
		delete(n.Initial, p)
		out = append(out, n)
	}
	num := func(f func(n *Scenario) *int) {
		if *f(sc) != 0 {
			n := cp()
			*f(n) = 0
			out = append(out, n)
		}
	}
	num(func(n *Scenario) *int { return &n.SegMode })
	num(func(n *Scenario) *int { return &n.ShortRead })
	num(func(n *Scenario) *int { return &n.Dup })
	num(func(n *Scenario) *int { return &n.Strategy })
	if sc.Yield {
		n := cp()
		n.Yield = false
		out = append(out, n)
	}
	if sc.Policy == "random" {
		n := cp()
		n.Policy = "default"
		out = append(out, n)
	}
	return out
}

// ---------------------------------------------------------------- admission

// policyOf is the random accept policy: a pure function of the header.
//
//go:norace
func policyOf(key uint64, id, bits, qd, an, ns, ar uint16) int {
	h := key ^ uint64(bits)<<32 ^ uint64(qd)<<16 ^ uint64(an)<<8 ^ uint64(ns)<<4 ^ uint64(ar) ^ uint64(id)<<48
	h *= 0x9e3779b97f4a7c15
	h ^= h >> 29
	return int(h % 7 % 4) // accept is the most frequent outcome
}

type adm struct {
	sc  *Scenario
	k   *kernel.K
	n   *simnet.Net
	res *core.Result
	srv *dns.Server
	mux *dns.ServeMux
	l   *simnet.Listener
	pc  *simnet.PacketConn

	byID     map[uint16][]byte // inbound message octets by their (unique) ID
	handled  map[uint16]int
	invalid  []string // octets given to MsgInvalidFunc
	peerFin  []bool
	lifeFin  bool
	serveRet bool
	serveErr string

	dgramBase  int  // datagrams the net had seen when this life began (the judge looks at the later ones)
	ctxExpired bool // the ShutdownContext that stopped the server gave up waiting: replies of handlers still at work may be lost
}

//go:norace
func (a *adm) accept(dh dns.Header) dns.MsgAcceptAction {
	if a.sc.Yield {
		a.k.Yield("accept", 0)
		if a.sc.RunSeed%3 == 0 {
			a.k.Sleep("accept.stall", time.Duration(a.sc.RunSeed%5)*time.Millisecond)
		}
	}
	if a.sc.Policy == "random" {
		switch policyOf(a.sc.PolicyKey, dh.Id, dh.Bits, dh.Qdcount, dh.Ancount, dh.Nscount, dh.Arcount) {
		case 1:
			return dns.MsgReject
		case 2:
			return dns.MsgIgnore
		case 3:
			return dns.MsgRejectNotImplemented
		}
		return dns.MsgAccept
	}
	return libDefaultAccept(dh)
}

// the library's own default policy, taken before any run replaces the package variable
var libDefaultAccept = dns.DefaultMsgAcceptFunc

//go:norace
func (a *adm) invalidFunc(m []byte, err error) {
	if a.sc.Yield {
		// a callback that takes its time before it looks at the octets it was given
		// (logging, metrics): they must still be the ones that were received
		a.k.Yield("invalid.enter", 0)
		a.k.WaitSteps("invalid.slow", 1+int(a.sc.RunSeed%3), time.Millisecond)
	}
	a.k.Lock()
	a.invalid = append(a.invalid, string(m))
	a.k.EffectLocked("invalid " + strconv.Itoa(len(m)))
	a.k.Unlock()
}

// ServeDNS is the server's Handler: it records the invocation, checks the
// request against the harness's decode of the octets, then lets the real
// multiplexer route it.
//
//go:norace
func (a *adm) ServeDNS(w dns.ResponseWriter, r *dns.Msg) {
	k := a.k
	k.Lock()
	a.handled[r.Id]++
	b := a.byID[r.Id]
	k.EffectLocked("handler " + strconv.Itoa(int(r.Id)))
	k.Unlock()
	if b == nil {
		k.Lock()
		a.res.Fail("D1", "handler-unknown-message", "handler invoked with a request (id %d) that was never sent", r.Id)
		k.Unlock()
	} else {
		seen := b
		if a.sc.Transport == "udp" && len(seen) > a.sc.UDPSize {
			seen = seen[:a.sc.UDPSize]
		}
		exp := new(dns.Msg)
		if err := exp.Unpack(append([]byte(nil), seen...)); err != nil {
			k.Lock()
			a.res.Fail("D1", "handler-on-undecodable", "handler invoked for message id %d whose octets do not decode (%v)", r.Id, err)
			k.Unlock()
		} else if !reflect.DeepEqual(r, exp) {
			k.Lock()
			a.res.Fail("D1", "handler-request-differs", "handler saw a request that differs from the decode of the octets received (id %d)", r.Id)
			k.Unlock()
		}
	}
	k.Yield("h.enter", 0)
	if a.sc.Yield && a.sc.Transport == "udp" {
		// a handler that takes a while: other datagrams are read meanwhile, into whatever buffer the server
		// hands out next - the request this handler holds must stay what it was
		k.WaitSteps("h.hold", 2+int(r.Id%4), time.Millisecond)
		if exp := a.byID[r.Id]; exp != nil {
			seen := exp
			if len(seen) > a.sc.UDPSize {
				seen = seen[:a.sc.UDPSize]
			}
			em := new(dns.Msg)
			if em.Unpack(append([]byte(nil), seen...)) == nil {
				k.Lock()
				a.res.Stats["oracle.D1_request_stable_while_handled"]++
				if !reflect.DeepEqual(r, em) {
					a.res.Fail("D1", "handler-request-changed", "the request a handler was given (id %d) changed while the handler held it: it shares memory with a receive buffer the server reused", r.Id)
				}
				k.Unlock()
			}
		}
	}
	a.mux.ServeDNS(w, r)
}

type recHandler struct{ a *adm }

func qname(m *dns.Msg) string {
	if len(m.Question) == 0 {
		return ""
	}
	return m.Question[0].Name
}

//go:norace
func (h recHandler) ServeDNS(w dns.ResponseWriter, r *dns.Msg) {
	// the handler the multiplexer chose is handed the decoded request as well - the multiplexer routes, it does not edit
	if b := h.a.byID[r.Id]; b != nil {
		seen := b
		if h.a.sc.Transport == "udp" && len(seen) > h.a.sc.UDPSize {
			seen = seen[:h.a.sc.UDPSize]
		}
		exp := new(dns.Msg)
		if exp.Unpack(append([]byte(nil), seen...)) == nil {
			h.a.k.Lock()
			h.a.res.Stats["oracle.D1_routed_request_is_the_decoded_one"]++
			if !reflect.DeepEqual(r, exp) {
				h.a.res.Fail("D1", "routed-request-differs", "the handler the multiplexer chose for message id %d was handed a request that differs from the decode of the octets received: asked %q, handed %q", r.Id, qname(exp), qname(r))
			}
			h.a.k.Unlock()
		}
	}
	m := new(dns.Msg)
	m.SetReply(r)
	if h.a.sc.Async && h.a.sc.Transport == "tcp" && r.Id%2 == 0 {
		h.a.k.Go("async", &lateReply{h.a, w, m, 1 + int(r.Id%3)})
		h.a.k.Bump("cover.reply_from_another_task")
		return
	}
	w.WriteMsg(m)
}

// lateReply writes a reply from a task of its own, a few steps after the handler has returned.
type lateReply struct {
	a     *adm
	w     dns.ResponseWriter
	m     *dns.Msg
	steps int
}

//go:norace
func (l *lateReply) RunEvent(time.Time) {
	l.a.k.WaitSteps("async.wait", l.steps, time.Millisecond)
	l.w.WriteMsg(l.m)
}

type peerTask struct {
	a  *adm
	pi int
}

//go:norace
func (p *peerTask) RunEvent(time.Time) {
	a, k := p.a, p.a.k
	defer a.fin(&a.peerFin[p.pi])
	var sconn *simnet.StreamConn
	var dconn *simnet.DgramConn
	if a.sc.Transport == "tcp" {
		sconn = a.n.Dial(a.l, true)
		sconn.SetDeadline(time.Now().Add(time.Hour))
		if a.sc.WriteFailAt > 0 && sconn.Peer != nil {
			k.Lock()
			sconn.Peer.FailWriteNth, sconn.Peer.FailWriteZero = a.sc.WriteFailAt, true
			k.Unlock()
		}
	} else {
		dconn = a.n.DialPacket(a.pc)
	}
	if dconn != nil && p.pi == 0 {
		switch a.sc.Soak {
		case "idle":
			k.Sleep("peer.soak", 2100*time.Second)
			k.Bump("fault.long_idle_before_traffic")
		case "runts":
			for i := 0; i < 1100; i++ {
				dconn.Write([]byte{0x3c})
				if i%50 == 49 {
					k.Sleep("peer.soak", 5*time.Millisecond)
				}
			}
			k.Sleep("peer.soak", time.Second)
			k.Bump("fault.flood_of_runt_datagrams")
		}
	}
	sentFrames := 0
	for _, im := range a.sc.Msgs {
		if im.Peer != p.pi {
			continue
		}
		b, _ := hex.DecodeString(im.Hex)
		if sconn != nil {
			fr := oracle.Frame(b)
			sentFrames++
			if a.sc.Pace > 0 && sentFrames > 1 {
				k.Sleep("peer.pace", time.Duration(a.sc.Pace)*time.Millisecond)
				k.Bump("fault.long_pause_between_messages_of_a_connection")
			}
			if a.sc.StallAt == sentFrames {
				k.Bump("fault.peer_stalls_mid_frame")
				if a.sc.Trickle && len(fr) >= 8 {
					n1, n2 := 2+(len(fr)-2)/3, 2+2*(len(fr)-2)/3
					sconn.Write(fr[:n1])
					k.Sleep("peer.trickle", stallTimeout*3/2)
					sconn.Write(fr[n1:n2])
					k.Sleep("peer.trickle", stallTimeout)
					fr = fr[n2:]
					k.Bump("fault.peer_trickles_frame")
				} else {
					if n := min(a.sc.StallOctets, len(fr)); n > 0 {
						if _, err := sconn.Write(fr[:n]); err != nil {
							break
						}
						fr = fr[n:]
					}
					k.Sleep("peer.stall", 3*stallTimeout)
				}
			}
			if a.sc.CutAt == sentFrames {
				// announce the whole message, send part of it, go away
				k.Bump("fault.peer_closes_mid_frame")
				sconn.Write(fr[:min(2+a.sc.CutOctets, len(fr)-1)])
				// (it stays long enough for everything it sent before to be served and answered, and
				// closes rather than resets: a reset would take octets still in flight with it)
				k.Sleep("peer.cut", 2*time.Second)
				sconn.Close()
				return
			}
			if len(fr) > 0 {
				if _, err := sconn.Write(fr); err != nil {
					break
				}
			}
		} else {
			dconn.Write(b)
		}
		k.Yield("peer.next", 0)
	}
	if sconn != nil && a.sc.FinWithData {
		sconn.CloseWrite()
		k.Bump("fault.peer_ends_sending_behind_last_frame")
	}
	// leave the server time to work through everything, then go away
	if sconn != nil && a.sc.Async {
		// (a peer that reads what it is sent: the replies written by other tasks reach it before it leaves)
		sconn.SetDeadline(time.Now().Add(2 * time.Second))
		buf := make([]byte, 4096)
		for {
			if _, err := sconn.Read(buf); err != nil {
				break
			}
		}
		sconn.Close()
		return
	}
	k.Sleep("peer.linger", 2*time.Second)
	if sconn != nil {
		sconn.Close()
	}
}

//go:norace
func (a *adm) fin(b *bool) {
	a.k.Announce()
	a.k.Lock()
	*b = true
	a.k.Unlock()
}

type admServe struct{ a *adm }

//go:norace
func (s admServe) RunEvent(time.Time) {
	s.a.k.Observe() // (a second life begins when the first is over)
	defer s.a.k.Announce()
	err := s.a.srv.ActivateAndServe()
	s.a.k.Lock()
	s.a.serveRet, s.a.serveErr = true, common.ErrStr(err)
	s.a.k.Unlock()
}

type admPeersDone struct{ a *adm }

//go:norace
func (d admPeersDone) Holds() bool {
	for _, f := range d.a.peerFin {
		if !f {
			return false
		}
	}
	return true
}

type admLife struct{ a *adm }

//go:norace
func (l admLife) RunEvent(time.Time) {
	a := l.a
	a.k.Observe()
	defer a.fin(&a.lifeFin)
	if a.sc.ShutAfter > 0 && a.sc.Transport == "udp" {
		// stop the server while datagrams are still arriving: whatever its read returned must still be accounted for
		a.k.WaitSteps("life.steps", a.sc.ShutAfter, 5*time.Millisecond)
		a.k.Bump("fault.shutdown_during_traffic")
	} else {
		if !a.k.Wait("life.wait", 0, admPeersDone{a}, 0) {
			return
		}
		a.k.Sleep("life.grace", time.Second)
	}
	if a.sc.ShutCtxMs > 0 && a.sc.ShutAfter > 0 {
		// a context that may end before the messages in hand are through: they are still the server's to finish
		for i := 0; i < 100; i++ {
			ctx := common.NewCtx(a.k, time.Duration(a.sc.ShutCtxMs)*time.Millisecond, "shutdown")
			err := a.srv.ShutdownContext(ctx)
			if err == nil {
				return
			}
			if ctx.Expired() && err == ctx.Err() {
				a.k.Lock()
				a.ctxExpired = true // (the socket is closed under the handlers still at work: their replies may not get out)
				a.k.BumpLocked("fault.shutdown_context_expired_during_traffic")
				a.k.Unlock()
				return
			}
			a.k.Sleep("life.retry", time.Millisecond) // (not started yet)
		}
		return
	}
	for i := 0; i < 100; i++ {
		if err := a.srv.Shutdown(); err == nil {
			break
		}
		a.k.Sleep("life.retry", time.Millisecond)
	}
}

type admDone struct{ a *adm }

//go:norace
func (d admDone) Check(time.Time) string {
	if d.a.lifeFin && d.a.serveRet && (admPeersDone{d.a}).Holds() {
		return "done"
	}
	return ""
}

//go:norace
func runAdmission(sc *Scenario, res *core.Result, verbose bool) {
	k := kernel.New(kernel.Config{Seed: sc.RunSeed, Strategy: sc.Strategy, PCTDepth: sc.PCTDepth, PCTSpan: 150, Verbose: verbose, MaxSteps: 60000})
	kernel.SetCurrent(k)
	defer kernel.SetCurrent(nil)
	n := simnet.New(k)
	n.PostYield = sc.PostYield
	n.Stream = simnet.StreamLink{MinDelay: time.Millisecond, Jitter: 2 * time.Millisecond, SegMode: sc.SegMode, ShortRead: sc.ShortRead}
	n.Dgram = simnet.DgramLink{MinDelay: time.Millisecond, Jitter: 3 * time.Millisecond, Dup: sc.Dup}
	defer k.Abort()
	srv := &dns.Server{ReadTimeout: time.Hour, IdleTimeout: hour, MaxTCPQueries: -1}
	start0 := time.Now()
	finish := func() {
		res.Steps = k.Steps
		res.SimNS = int64(time.Since(start0))
		res.Digest = k.Digest()
		for name, v := range k.Stats {
			res.Stats[name] += v
		}
		if verbose {
			res.Log = k.Log
		}
	}
	if !runAdmLife(sc, res, k, n, srv, verbose) || !sc.Again || res.Verdict != core.OK {
		finish()
		return
	}
	// the second life: the same Server value, a larger receive buffer, a new socket, larger queries
	sc2 := *sc
	sc2.UDPSize, sc2.ShutAfter, sc2.Again = 4096, 0, false
	sc2.Msgs = nil
	for i, im := range sc.Msgs {
		b, _ := hex.DecodeString(im.Hex)
		if m := new(dns.Msg); len(b) >= 12 && m.Unpack(append([]byte(nil), b...)) == nil && len(m.Extra) < 2 && !m.Response && m.Opcode == dns.OpcodeQuery && len(m.Question) == 1 {
			// padded beyond the old size with one NULL record in the additional section
			pad := sc.UDPSize + 50 + 97*i%1500 - len(b)
			if pad > 0 {
				m.Extra = append(m.Extra, &dns.NULL{Hdr: dns.RR_Header{Name: ".", Rrtype: dns.TypeNULL, Class: dns.ClassINET}, Data: strings.Repeat("P", pad)})
			}
			m.Id = uint16(0x300 + i)
			if nb, err := m.Pack(); err == nil && len(nb) <= 4096 {
				b = nb
			}
		} else if len(b) >= 2 {
			b = append([]byte(nil), b...)
			b[0], b[1] = byte((0x300+i)>>8), byte(0x300+i)
		}
		sc2.Msgs = append(sc2.Msgs, InMsg{Peer: im.Peer, Hex: hex.EncodeToString(b), Note: im.Note + "+second-life"})
	}
	res.Bump("cover.second_life_with_larger_udpsize")
	runAdmLife(&sc2, res, k, n, srv, verbose)
	finish()
}

// runAdmLife runs one life of the server: sockets, tasks, the kernel until they are done, the judge. It reports
// whether the life ended in good order.
//
//go:norace
func runAdmLife(sc *Scenario, res *core.Result, k *kernel.K, n *simnet.Net, srv *dns.Server, verbose bool) bool {
	a := &adm{sc: sc, k: k, n: n, res: res, byID: map[uint16][]byte{}, handled: map[uint16]int{}, peerFin: make([]bool, sc.Peers), dgramBase: len(n.Dgrams)}
	a.mux = dns.NewServeMux()
	if sc.RunSeed%3 == 0 {
		a.mux = new(dns.ServeMux) // "The zero ServeMux is empty and ready for use"
		res.Bump("cover.zero_value_serve_mux")
	}
	a.mux.Handle("test.", recHandler{a})
	a.srv = srv
	srv.Handler, srv.MsgAcceptFunc, srv.MsgInvalidFunc, srv.UDPSize = a, a.accept, a.invalidFunc, sc.UDPSize
	srv.Listener, srv.PacketConn = nil, nil
	if sc.PkgPolicy {
		// an application that replaces the library's default policy for all its servers
		keep := dns.DefaultMsgAcceptFunc
		dns.DefaultMsgAcceptFunc, a.srv.MsgAcceptFunc = a.accept, nil
		defer func() { dns.DefaultMsgAcceptFunc = keep }()
		res.Bump("cover.package_wide_accept_policy")
	}
	if sc.NoInvalidFn {
		a.srv.MsgInvalidFunc = nil
		res.Bump("cover.default_invalid_func")
	}
	srv.MaxTCPQueries = -1
	if sc.MaxTCPQ > 0 {
		srv.MaxTCPQueries = sc.MaxTCPQ
	}
	srv.DecorateReader, srv.DecorateWriter = nil, nil
	if sc.OwnReader && sc.Transport == "tcp" {
		srv.DecorateReader = func(inner dns.Reader) dns.Reader { return &common.OwnReader{K: k, Reader: inner} }
		res.Bump("cover.reader_that_supplants_the_servers")
	} else if sc.Yield {
		a.srv.DecorateReader = (&common.Decorator{K: k}).Decorate
	}
	if sc.Yield && sc.RunSeed%3 == 0 {
		a.srv.DecorateWriter = (&common.WDecorator{K: k}).Decorate
	}
	if sc.StallAt > 0 {
		a.srv.ReadTimeout, a.srv.IdleTimeout = stallTimeout, shortIdle
	}
	if sc.Soak == "idle" {
		a.srv.ReadTimeout = 0 // the library's default: the read loop wakes every two seconds
	}
	if sc.Pace > 0 && sc.StallAt == 0 {
		a.srv.ReadTimeout, a.srv.IdleTimeout = 0, nil // the library's defaults
	}
	if sc.FinWithData {
		n.Stream.EOFWithData = 70
	}
	if sc.Transport == "tcp" {
		a.l = n.Listen()
		a.srv.Listener = a.l
	} else {
		uc := n.ListenUDP()
		a.pc = uc.PacketConn
		a.srv.PacketConn = a.pc
		if sc.UDPSock && common.UDPSeam {
			a.srv.PacketConn = common.ServerSocket(uc)
			res.Bump("cover.server_on_udp_socket")
		}
	}
	if a.pc != nil && sc.Anonymous && a.srv.PacketConn == net.PacketConn(a.pc) {
		a.pc.Anonymous = true
		res.Bump("cover.peers_without_address")
	}
	if a.pc != nil {
		a.pc.Transient = sc.Transient
	} else {
		a.l.Transient = sc.Transient
	}
	for _, im := range sc.Msgs {
		b, _ := hex.DecodeString(im.Hex)
		if len(b) >= 2 {
			a.byID[uint16(b[0])<<8|uint16(b[1])] = b
		}
	}
	k.Go("serve", admServe{a})
	k.Go("life", admLife{a})
	for i := 0; i < sc.Peers; i++ {
		k.Go("peer"+strconv.Itoa(i), &peerTask{a, i})
	}
	out := k.Run(admDone{a})
	switch out {
	case kernel.StepCap:
		if res.Verdict == core.OK {
			res.Verdict, res.Msg = core.Harness, "step cap reached"
		}
		return false
	case kernel.Quiescent:
		res.Fail("D1", "stuck", "the run cannot make progress: parked %v", k.Parked())
		return false
	}
	a.judge()
	return res.Verdict == core.OK && !a.ctxExpired
}

//go:norace
func hour() time.Duration { return time.Hour }

const stallTimeout = 300 * time.Millisecond

//go:norace
func shortIdle() time.Duration { return stallTimeout }

type repl struct {
	h   oracle.Header
	raw []byte
}

//go:norace
func (a *adm) judge() {
	res, sc := a.res, a.sc
	if res.Verdict != core.OK {
		return
	}
	if a.serveErr != "" {
		res.Fail("D1", "serve-error", "ActivateAndServe returned %s", a.serveErr)
		return
	}
	// what did the server's reads return?
	var inbound [][]byte
	if sc.Transport == "udp" {
		for _, d := range a.pc.Received {
			if d.TruncRead && len(d.Data) <= sc.UDPSize {
				res.Fail("D1", "datagram-truncated-by-recycled-buffer", "a %d-octet datagram was cut to %d octets by the server's read although UDPSize is %d", len(d.Data), len(d.Seen), sc.UDPSize)
				return
			}
			inbound = append(inbound, d.Seen)
		}
	} else {
		for _, c := range a.n.Conns {
			if c.Role == "cli" {
				frames, _ := oracle.Frames(c.Sent())
				// a stream message the server received is one its reads took off the socket in full
				if c.Peer != nil {
					whole, end := 0, 0
					for _, f := range frames {
						end += 2 + len(f)
						if end > c.Peer.ReadTotal {
							break
						}
						whole++
					}
					frames = frames[:whole]
				}
				inbound = append(inbound, frames...)
			}
		}
	}
	// what did it write back?
	replies := map[uint16][]repl{}
	add := func(b []byte) {
		h, ok := oracle.ParseHeader(b)
		if !ok {
			res.Fail("D2", "reply-malformed", "the server wrote %d octets that are not a DNS message", len(b))
			return
		}
		replies[h.ID] = append(replies[h.ID], repl{h, b})
	}
	if sc.Transport == "udp" {
		for _, d := range a.n.Dgrams[a.dgramBase:] {
			if d.From.S == "10.0.0.1:53" && !d.Injected && d.CopyOf == 0 {
				add(d.Orig)
			}
		}
		for _, b := range a.pc.Unroutable {
			add(b) // (a reply to a peer without an address: the server made it, the socket had nowhere to send it)
		}
	} else {
		for _, c := range a.n.Conns {
			if c.Role == "srv" {
				frames, rest := oracle.Frames(c.Sent())
				if len(rest) != 0 {
					res.Fail("D2", "partial-frame", "the server left a partial frame on connection #%d", c.ID)
				}
				for _, f := range frames {
					add(f)
				}
			}
		}
	}
	// expectations
	wantInvalid := map[string]int{}
	wantHandled := map[uint16]int{}
	type exp struct {
		copies int
		disp   string
		either bool
		opcode int
		rd, cd bool
		q      string
	}
	want := map[uint16]*exp{}
	for _, b := range inbound {
		if len(b) < 12 {
			wantInvalid[string(b)]++
			res.Bump("cover.disp_short")
			continue
		}
		h, _ := oracle.ParseHeader(b)
		var act string
		if sc.Policy == "random" {
			act = []string{oracle.ActAccept, oracle.ActReject, oracle.ActIgnore, oracle.ActNotImp}[policyOf(sc.PolicyKey, h.ID, h.Flags, uint16(h.QD), uint16(h.AN), uint16(h.NS), uint16(h.AR))]
		} else {
			act = oracle.DefaultAccept(h)
		}
		e := want[h.ID]
		if e == nil {
			e = &exp{opcode: h.Opcode, rd: h.RD, cd: h.CD}
			want[h.ID] = e
		}
		e.copies++
		decodes := new(dns.Msg).Unpack(append([]byte(nil), b...)) == nil
		switch act {
		case oracle.ActEither:
			e.either = true
			if decodes {
				e.disp = "handle"
			} else {
				e.disp = "invalid+formerr"
			}
		case oracle.ActAccept:
			if decodes {
				e.disp = "handle"
			} else {
				e.disp = "invalid+formerr"
				wantInvalid[string(b)]++
			}
		default:
			e.disp = act
		}
		res.Bump("cover.disp_" + e.disp)
		if e.disp == "handle" && !e.either {
			wantHandled[h.ID] += 1
		}
	}
	// a write that failed on the server's side of the connection (injected: nothing went out) costs one reply
	lostReplies := 0
	if sc.WriteFailAt > 0 && a.k.Stats["fault.writeerr"] > 0 {
		lostReplies = 1
	}
	short := func(have, want int) bool {
		if lostReplies > 0 && have == want-1 {
			lostReplies--
			return true
		}
		return false
	}
	// D1 conservation
	res.Bump("oracle.D1_conservation")
	gotInvalid := map[string]int{}
	for _, s := range a.invalid {
		gotInvalid[s]++
	}
	eitherInvalid := map[string]bool{}
	for id, e := range want {
		if e.either {
			eitherInvalid[string(inboundSeen(a, id))] = true
		}
	}
	for _, s := range core.SortedKeys(wantInvalid) {
		n := wantInvalid[s]
		if sc.NoInvalidFn {
			break // the library's default callback (a no-op) is in place: nothing to observe
		}
		if gotInvalid[s] != n {
			res.Fail("D1", "invalid-not-reported", "a message of %d octets that cannot be handled was received %d time(s) but reported to MsgInvalidFunc %d time(s): %x", len(s), n, gotInvalid[s], trunc(s))
			return
		}
	}
	for _, s := range core.SortedKeys(gotInvalid) {
		n := gotInvalid[s]
		if wantInvalid[s] != n && !eitherInvalid[s] {
			res.Fail("D1", "invalid-unexpected", "MsgInvalidFunc was called %d time(s) (expected %d) for %d octets: %x", n, wantInvalid[s], len(s), trunc(s))
			return
		}
	}
	for _, id := range core.SortedKeys(want) {
		e := want[id]
		got := a.handled[id]
		reps := replies[id]
		count := func(rcode int) int {
			n := 0
			for _, r := range reps {
				if r.h.Rcode == rcode {
					n++
				}
			}
			return n
		}
		if e.either {
			// NSCOUNT == 1 under the default policy: handled or FORMERR, once per copy
			if a.ctxExpired {
				continue
			}
			if got+count(1) != e.copies && got != e.copies && !short(got+count(1), e.copies) {
				res.Fail("D1", "either-disposition", "message id %d (one authority record) arrived %d time(s): handler ran %d time(s), %d FORMERR replies", id, e.copies, got, count(1))
				return
			}
			continue
		}
		res.Bump("oracle.D1_message_accounted")
		switch e.disp {
		case "handle":
			if got != e.copies {
				res.Fail("D1", "handler-count", "message id %d passed the policy and decodes; it arrived %d time(s) but the handler ran %d time(s)", id, e.copies, got)
				return
			}
			if len(reps) != e.copies && !(a.ctxExpired && len(reps) < e.copies) && !short(len(reps), e.copies) {
				res.Fail("D1", "reply-count", "message id %d was handled %d time(s) but %d replies carry its id", id, got, len(reps))
				return
			}
		case "invalid+formerr", oracle.ActReject, oracle.ActNotImp:
			rc := 1
			if e.disp == oracle.ActNotImp {
				rc = 4
			}
			if got != 0 {
				res.Fail("D1", "handler-on-rejected", "message id %d must be refused (%s) but the handler ran %d time(s)", id, e.disp, got)
				return
			}
			if (len(reps) != e.copies || count(rc) != e.copies) && !(a.ctxExpired && len(reps) < e.copies && count(rc) == len(reps)) && !(count(rc) == len(reps) && short(len(reps), e.copies)) {
				res.Fail("D3", "reject-reply", "message id %d (%s, %d copy/ies): expected %d reply/ies with rcode %d, got %d replies (%d with that rcode)", id, e.disp, e.copies, e.copies, rc, len(reps), count(rc))
				return
			}
		case oracle.ActIgnore:
			if got != 0 || len(reps) != 0 {
				res.Fail("D3", "answered-ignored", "message id %d must be ignored (QR set or policy) but handler ran %d time(s) and %d replies were written", id, got, len(reps))
				return
			}
		}
		// D2 / D5 reply skeletons
		for _, r := range reps {
			res.Bump("oracle.D2_reply_skeleton")
			if !r.h.QR {
				res.Fail("D2", "reply-without-qr", "reply to message id %d does not have QR set", id)
				return
			}
			if r.h.Rcode == 1 || r.h.Rcode == 4 {
				if e.disp != "handle" && (r.h.AN != 0 || r.h.NS != 0 || r.h.AR != 0) {
					res.Fail("D2", "reject-reply-has-records", "the %s reply to message id %d carries %d/%d/%d answer/authority/additional records", e.disp, id, r.h.AN, r.h.NS, r.h.AR)
					return
				}
			}
			if r.h.Rcode == 5 && e.disp == "handle" {
				res.Bump("oracle.D5_refused_echo")
				lay, err := oracle.Parse(r.raw)
				in, ierr := oracle.Parse(inboundSeen(a, id))
				if seen := inboundSeen(a, id); len(seen) == 12 {
					// nothing but a header came in: whatever question the reply carries is not this request's
					res.Bump("oracle.D5_refused_nothing_to_echo")
					if err != nil || len(lay.Questions) != 0 {
						q := "?"
						if err == nil {
							q = lay.Questions[0].Name
						}
						res.Fail("D5", "refused-foreign-question", "message id %d was a bare header (no question octets), yet the REFUSED reply to it carries a question (%s): not this request's", id, q)
						return
					}
					continue
				}
				if ierr != nil || len(in.Questions) < 1 {
					res.Bump("cover.d5_skipped_unwalkable_request")
					continue
				}
				if err != nil || len(lay.Questions) != 1 {
					res.Fail("D5", "refused-shape", "REFUSED reply to message id %d is malformed or has no question", id)
					return
				}
				if lay.H.Opcode != e.opcode || (e.opcode == 0 && (lay.H.RD != e.rd || lay.H.CD != e.cd)) {
					res.Fail("D5", "refused-echo-bits", "REFUSED reply to message id %d: opcode/RD/CD %d/%v/%v, request had %d/%v/%v", id, lay.H.Opcode, lay.H.RD, lay.H.CD, e.opcode, e.rd, e.cd)
					return
				}
				if lay.Questions[0].Name != in.Questions[0].Name || lay.Questions[0].Type != in.Questions[0].Type {
					res.Fail("D5", "refused-echo-question", "REFUSED reply to message id %d echoes %s/%d, request asked %s/%d", id, lay.Questions[0].Name, lay.Questions[0].Type, in.Questions[0].Name, in.Questions[0].Type)
					return
				}
			}
		}
	}
	for _, id := range core.SortedKeys(replies) {
		if want[id] == nil {
			res.Fail("D2", "reply-with-foreign-id", "the server wrote a reply with id %d that matches no received message", id)
			return
		}
	}
	for _, id := range core.SortedKeys(a.handled) {
		n := a.handled[id]
		if want[id] == nil && n > 0 {
			res.Fail("D1", "handler-unknown-message", "handler ran for id %d which matches no received message", id)
			return
		}
	}
	res.Nontrivial = len(inbound) > 0
	res.Class = fmt.Sprintf("admission/%s/%s/%s/dup=%v/yield=%v", core.Mode, sc.Transport, sc.Policy, sc.Dup > 0, sc.Yield)
	seen := map[string]bool{}
	for _, im := range sc.Msgs {
		b, _ := hex.DecodeString(im.Hex)
		d := "short"
		if len(b) >= 12 {
			if e := want[uint16(b[0])<<8|uint16(b[1])]; e != nil {
				d = e.disp
			} else {
				d = "not-read"
			}
		}
		c := sc.Transport + "/" + sc.Policy + "/" + im.Note + "/" + d
		if !seen[c] {
			seen[c] = true
			res.Classes = append(res.Classes, c)
		}
	}
}

//go:norace
func inboundSeen(a *adm, id uint16) []byte {
	b := a.byID[id]
	if a.sc.Transport == "udp" && len(b) > a.sc.UDPSize {
		b = b[:a.sc.UDPSize]
	}
	return b
}

func trunc(s string) []byte {
	if len(s) > 48 {
		s = s[:48]
	}
	return []byte(s)
}

// ---------------------------------------------------------------- mux

type muxRun struct {
	sc      *Scenario
	k       *kernel.K
	res     *core.Result
	mux     *dns.ServeMux
	hist    []porcupine.Operation
	taskFin []bool
	hs      [8]idHandler
}

type muxIn struct {
	Kind    string
	Pattern string
	H       int
	QName   string
	QType   uint16
}

type muxOut struct{ H int }

type idHandler struct {
	r  *muxRun
	id int
}

type dispatchCtx struct {
	got     int
	sawName string
	park    int
	k       *kernel.K
}

// fakeWriter is the ResponseWriter of a direct dispatch; it records what the
// multiplexer writes itself (the REFUSED reply).
type fakeWriter struct {
	ctx   *dispatchCtx
	wrote []*dns.Msg
}

//go:norace
func (f *fakeWriter) LocalAddr() net0 { return simnet.Addr{N: "udp", S: "10.0.0.1:53"} }

//go:norace
func (f *fakeWriter) RemoteAddr() net0 { return simnet.Addr{N: "udp", S: "10.0.0.9:999"} }

//go:norace
func (f *fakeWriter) WriteMsg(m *dns.Msg) error { f.wrote = append(f.wrote, m.Copy()); return nil }

//go:norace
func (f *fakeWriter) Write(b []byte) (int, error) { return len(b), nil }

//go:norace
func (f *fakeWriter) Close() error { return nil }

//go:norace
func (f *fakeWriter) TsigStatus() error { return nil }

//go:norace
func (f *fakeWriter) TsigTimersOnly(bool) {}

//go:norace
func (f *fakeWriter) Hijack() {}

type net0 = net.Addr

//go:norace
func (h idHandler) ServeDNS(w dns.ResponseWriter, r *dns.Msg) {
	fw := w.(*fakeWriter)
	fw.ctx.got = h.id
	fw.ctx.sawName = qname(r)
	for i := 0; i < fw.ctx.park; i++ {
		fw.ctx.k.Yield("mux.handler", 0)
	}
}

type muxTask struct {
	r  *muxRun
	ti int
}

//go:norace
func (t *muxTask) RunEvent(time.Time) {
	r, k := t.r, t.r.k
	for _, op := range r.sc.Ops {
		if op.Task != t.ti {
			continue
		}
		k.Yield("mux.op", 0)
		k.Lock()
		call := int64(k.Seq)*2 + 0
		k.Unlock()
		out := muxOut{}
		switch op.Kind {
		case "handle":
			switch h := &r.hs[op.H]; {
			case r.sc.DefaultMux && op.H%2 == 0:
				dns.Handle(op.Pattern, h)
			case r.sc.DefaultMux:
				dns.HandleFunc(op.Pattern, h.ServeDNS)
			case op.H%3 == 0:
				r.mux.HandleFunc(op.Pattern, h.ServeDNS)
			default:
				r.mux.Handle(op.Pattern, h)
			}
		case "remove":
			if r.sc.DefaultMux {
				dns.HandleRemove(op.Pattern)
			} else {
				r.mux.HandleRemove(op.Pattern)
			}
		case "dispatch":
			req := new(dns.Msg)
			req.SetQuestion(op.QName, op.QType)
			req.Id = uint16(7000 + len(r.hist))
			req.CheckingDisabled = op.Park%2 == 1
			req.RecursionDesired = op.Park != 2
			ctx := &dispatchCtx{got: 0, park: op.Park, k: k}
			fw := &fakeWriter{ctx: ctx}
			r.mux.ServeDNS(fw, req)
			out.H = ctx.got
			if qname(req) != op.QName || (ctx.got != 0 && ctx.sawName != op.QName) {
				k.Lock()
				r.res.Fail("D4", "dispatch-edited-request", "the multiplexer was asked to route a request for %q; afterwards the request says %q and the handler was shown %q: it routes by the name ignoring case, it does not rewrite it", op.QName, qname(req), ctx.sawName)
				k.Unlock()
			}
			if ctx.got == 0 {
				out.H = oracle.Refused
				k.Lock()
				r.res.Stats["oracle.D5_refused_echo"]++
				if len(fw.wrote) != 1 {
					r.res.Fail("D4", "refused-reply-count", "no handler matched %s but the multiplexer wrote %d replies", op.QName, len(fw.wrote))
				} else if m := fw.wrote[0]; m.Rcode != dns.RcodeRefused || !m.Response || m.Id != req.Id || m.Opcode != req.Opcode ||
					m.RecursionDesired != req.RecursionDesired || m.CheckingDisabled != req.CheckingDisabled || len(m.Question) != 1 || m.Question[0] != req.Question[0] || m.Question[0].Name != op.QName {
					r.res.Fail("D5", "refused-echo", "REFUSED reply for %s does not echo the request: %s", op.QName, strings.ReplaceAll(m.String(), "\n", " | "))
				}
				k.Unlock()
			} else if len(fw.wrote) != 0 {
				k.Lock()
				r.res.Fail("D4", "reply-beside-handler", "a handler was invoked for %s and the multiplexer also wrote a reply itself", op.QName)
				k.Unlock()
			}
		}
		k.Lock()
		ret := int64(k.Seq)*2 + 1
		r.hist = append(r.hist, porcupine.Operation{ClientId: t.ti, Input: muxIn{op.Kind, op.Pattern, op.H, op.QName, op.QType}, Call: call, Output: out, Return: ret})
		k.EffectLocked("muxop " + op.Kind + " " + strconv.Itoa(out.H))
		k.Unlock()
	}
	k.Lock()
	r.taskFin[t.ti] = true
	k.Unlock()
}

type muxDone struct{ r *muxRun }

//go:norace
func (d muxDone) Check(time.Time) string {
	for _, f := range d.r.taskFin {
		if !f {
			return ""
		}
	}
	return "done"
}

func encodeState(m map[string]int) string {
	var ks []string
	for k := range m {
		ks = append(ks, k)
	}
	sort.Strings(ks)
	var sb strings.Builder
	for _, k := range ks {
		sb.WriteString(k)
		sb.WriteByte('=')
		sb.WriteString(strconv.Itoa(m[k]))
		sb.WriteByte(';')
	}
	return sb.String()
}

func decodeState(s string) map[string]int {
	m := map[string]int{}
	for _, kv := range strings.Split(s, ";") {
		if kv == "" {
			continue
		}
		i := strings.LastIndexByte(kv, '=')
		v, _ := strconv.Atoi(kv[i+1:])
		m[kv[:i]] = v
	}
	return m
}

func muxModel(initial map[string]int) porcupine.Model {
	return porcupine.Model{
		Init: func() interface{} { return encodeState(initial) },
		Step: func(state, input, output interface{}) (bool, interface{}) {
			st := decodeState(state.(string))
			in := input.(muxIn)
			switch in.Kind {
			case "handle":
				st[oracle.Canon(in.Pattern)] = in.H
				return true, encodeState(st)
			case "remove":
				delete(st, oracle.Canon(in.Pattern))
				return true, encodeState(st)
			}
			got := output.(muxOut).H
			for _, h := range oracle.Route(st, in.QName, in.QType) {
				if h == got {
					return true, state
				}
			}
			return false, state
		},
		Equal: func(a, b interface{}) bool { return a.(string) == b.(string) },
		DescribeOperation: func(input, output interface{}) string {
			in := input.(muxIn)
			if in.Kind == "dispatch" {
				return fmt.Sprintf("dispatch(%s,%d)->%d", in.QName, in.QType, output.(muxOut).H)
			}
			return fmt.Sprintf("%s(%s,%d)", in.Kind, in.Pattern, in.H)
		},
	}
}

//go:norace
func runMux(sc *Scenario, res *core.Result, verbose bool) (hist []porcupine.Operation, initial map[string]int) {
	k := kernel.New(kernel.Config{Seed: sc.RunSeed, Strategy: sc.Strategy, PCTDepth: sc.PCTDepth, PCTSpan: 80, Verbose: verbose, MaxSteps: 20000})
	kernel.SetCurrent(k)
	defer kernel.SetCurrent(nil)
	r := &muxRun{sc: sc, k: k, res: res, mux: dns.NewServeMux()}
	if sc.RunSeed%3 == 0 {
		r.mux = &dns.ServeMux{} // "The zero ServeMux is empty and ready for use"
		res.Bump("cover.zero_value_serve_mux")
	}
	for i := range r.hs {
		r.hs[i] = idHandler{r, i}
	}
	if sc.DefaultMux {
		// the process-wide multiplexer: emptied again when the run is over
		r.mux = dns.DefaultServeMux
		res.Bump("cover.default_serve_mux")
		defer func() {
			for p := range sc.Initial {
				dns.HandleRemove(p)
			}
			for _, op := range sc.Ops {
				if op.Kind == "handle" {
					dns.HandleRemove(op.Pattern)
				}
			}
		}()
	}
	initial = map[string]int{}
	for _, p := range core.SortedKeys(sc.Initial) { // two spellings of one name may both be there: the order decides
		h := sc.Initial[p]
		r.mux.Handle(p, &r.hs[h])
		initial[oracle.Canon(p)] = h
	}
	nt := 0
	for _, op := range sc.Ops {
		if op.Task+1 > nt {
			nt = op.Task + 1
		}
	}
	r.taskFin = make([]bool, nt)
	for i := 0; i < nt; i++ {
		k.Go("mux"+strconv.Itoa(i), &muxTask{r, i})
	}
	out := k.Run(muxDone{r})
	res.Steps = k.Steps
	res.Digest = k.Digest()
	if verbose {
		res.Log = k.Log
	}
	k.Abort()
	switch out {
	case kernel.StepCap:
		res.Verdict, res.Msg = core.Harness, "step cap reached"
		return nil, nil
	case kernel.Quiescent:
		res.Fail("D4", "mux-deadlock", "multiplexer tasks cannot make progress: parked %v", k.Parked())
		return nil, nil
	}
	return r.hist, initial
}

func Run(t *testing.T, scAny any, verbose bool) *core.Result {
	sc := scAny.(*Scenario)
	res := &core.Result{Seed: sc.RunSeed, Verdict: core.OK, Stats: map[string]int{}}
	if sc.Kind == "mux" {
		var hist []porcupine.Operation
		var initial map[string]int
		leak := common.Bubble(t, func() { hist, initial = runMux(sc, res, verbose) })
		if leak != "" && res.Verdict == core.OK {
			res.Verdict, res.Msg = core.Harness, leak
		}
		if res.Verdict != core.OK || hist == nil {
			return res
		}
		// D4: the recorded history is linearizable with respect to the routing model
		verdict, info := porcupine.CheckOperationsVerbose(muxModel(initial), hist, 10*time.Second)
		_ = info
		overlap := 0
		for i := range hist {
			for j := range hist {
				if i < j && hist[i].Call < hist[j].Return && hist[j].Call < hist[i].Return {
					overlap++
				}
			}
		}
		switch verdict {
		case porcupine.Ok:
			res.Bump("oracle.D4_routing_linearizable")
		case porcupine.Unknown:
			res.Bump("cover.porcupine_unknown") // inconclusive, never reported
		case porcupine.Illegal:
			var lines []string
			m := muxModel(initial)
			for _, op := range hist {
				lines = append(lines, fmt.Sprintf("[%d,%d] task%d %s", op.Call, op.Return, op.ClientId, m.DescribeOperation(op.Input, op.Output)))
			}
			res.Fail("D4", "routing-not-linearizable", "no sequential order of the multiplexer operations explains the dispatches (initial %s):\n%s", encodeState(initial), strings.Join(lines, "\n"))
		}
		res.Add("cover.mux_ops", len(hist))
		res.Add("cover.mux_overlapping_pairs", overlap)
		res.Nontrivial = len(hist) > 0
		res.Class = fmt.Sprintf("mux/%s/ops=%d/overlap=%v", core.Mode, len(hist)/8*8, overlap > 0)
		return res
	}
	leak := common.Bubble(t, func() { runAdmission(sc, res, verbose) })
	if leak != "" && res.Verdict == core.OK {
		res.Fail("D1", "goroutine-leak", "%s", leak)
	}
	return res
}

func init() {
	core.Register(&core.Prop{ID: "C14", Gen: Gen, Decode: Decode, Run: Run, Shrink: Shrink, Modes: []string{"pristine", "instr"}, Race: true})
}
