// Package c18 simulates SIG(0) transaction signatures: a signer signs
// arbitrary messages, a link delays, flips and truncates the signed octets,
// a verifier checks them under the simulated wall clock (DESIGN 4, C18).
package c18

import (
	"crypto"
	"crypto/ecdsa"
	"crypto/rsa"
	"encoding/binary"
	"encoding/json"
	"errors"
	"fmt"
	"io"
	"runtime/debug"
	"sort"
	"strconv"
	"strings"
	"sync"
	"testing"
	"time"

	"github.com/miekg/dns"
	"verifsim/core"
	"verifsim/gen"
	"verifsim/kernel"
	"verifsim/oracle"
	"verifsim/props/common"
)

type Delivery struct {
	Fault  string `json:"fault"`            // none | flip | trunc | wrongkey | othername
	Region string `json:"region,omitempty"` // flip: id flags counts question body sigowner sighdr sigfixed signer signature
	Frac   int    `json:"frac,omitempty"`   // position inside the region / message, per mille
	Bit    int    `json:"bit,omitempty"`
	Time   string `json:"time"`              // before | incept | mid | expire | after | at
	At     int    `json:"at,omitempty"`      // seconds after inception for "at"
	FracMs int    `json:"frac_ms,omitempty"` // the verification happens this many milliseconds into that second
}

type Scenario struct {
	RunSeed    uint64     `json:"run_seed"`
	Parallel   int        `json:"parallel,omitempty"`    // >0: that many signer/verifier pairs work concurrently, each with its own key (Deliveries are ignored)
	Leftovers  bool       `json:"leftovers,omitempty"`   // the SIG record handed to Sign is a recycled one: every field Sign is documented to fill in itself still holds something
	Resign     bool       `json:"resign,omitempty"`      // the signer uses its SIG record a second time (a template kept between messages); the second output is what travels
	Poison     bool       `json:"poison,omitempty"`      // between packing the message and signing it, some other compressed message fails to pack half way (a name that is not fully qualified)
	NearLimit  int        `json:"near_limit,omitempty"`  // > 0: the padding is adjusted until message + SIG record is this many octets short of 65535 (1 = fits exactly)
	Siege      int        `json:"siege,omitempty"`       // before every delivery that is to verify, this many forgeries naming the same signer (one signature bit flipped each, in time, well-formed) are verified and refused
	Twins      bool       `json:"twins,omitempty"`       // parallel: pairs 0 and 1 sign the very same message at the same instant under the same signer name and key tag - with different keys (a rollover); each key's device takes a scheduling point inside its Sign
	Flaky      int        `json:"flaky,omitempty"`       // the key is a device that fails its first n requests (a token that lost its session, a throttled KMS) and works from then on
	ThirdParty int        `json:"third_party,omitempty"` // the message that travels is signed by an independent implementation (own digest construction, standard library crypto): 1 ECDSA with the smaller s, 2 with the larger s, 3 as it comes
	Glitch     bool       `json:"glitch,omitempty"`      // the key is a device whose first answer is damaged (one bit of the signature flipped, no error): whatever Sign makes of that, the application signs again and that second attempt is judged like any other
	TrailSIG   bool       `json:"trail_sig,omitempty"`   // the message's additional section ends in a SIG record of its own - one that covers an RRset (a dynamic update that carries signed data): part of the message like any other record
	EscOwner   int        `json:"esc_owner,omitempty"`   // the verifier's KEY record spells its owner with a decimal escape for one letter (\101 for e) - the same domain name, the matching key; 2: the signer spells its own name that way too
	OwnSIG     bool       `json:"own_sig,omitempty"`     // the verifier checks the delivered octets with the SIG object that signed (the way the library's own test does): that object holds the genuine signature, whatever the octets say
	Spare      bool       `json:"spare,omitempty"`       // the message's sections are slices with room to spare, and what lies in that room belongs to someone else (another message built on the same array)
	SharedMsg  bool       `json:"shared_msg,omitempty"`  // parallel: all pairs also sign one and the same message object (no EDNS: packing it writes nothing), each with its own key; a private record in its answer section takes a scheduling point while it is packed
	Msg        gen.Recipe `json:"msg"`
	Key        int        `json:"key"`
	EpochS     int        `json:"epoch_s"`    // bubble is slept forward by this much first
	InceptOff  int        `json:"incept_off"` // inception relative to signing time (signer clock skew), seconds
	ValidFor   int        `json:"valid_for"`  // expiration - inception, seconds
	Deliveries []Delivery `json:"deliveries"`
}

var regions = []string{"id", "flags", "counts", "question", "body", "sigowner", "sighdr", "sigfixed", "signer", "signature"}

func Gen(seed uint64, tier string) any {
	r := core.Rng(seed)
	sc := &Scenario{RunSeed: seed}
	size := core.Pick(r, 0, 2, 6, 12, 30)
	if tier == "thorough" && core.Chance(r, 10) {
		size = 120
	}
	sc.Msg = *gen.Random(r, size)
	switch r.IntN(12) {
	case 0: // around the 255/256 additional-record boundary
		n := core.Pick(r, 254, 255, 256, 257, 300)
		sc.Msg.Extra = nil
		for i := 0; i < n; i++ {
			sc.Msg.Extra = append(sc.Msg.Extra, gen.RRRef{I: core.Pick(r, 3, 5, 7), Z: 0})
		}
		sc.Msg.EDNS = 0
	case 1: // many compressible names
		sc.Msg.Compress = true
		for i := 0; i < 4+r.IntN(10); i++ {
			sc.Msg.Answer = append(sc.Msg.Answer, gen.RRRef{I: core.Pick(r, 11, 12, 13, 9, 10), Z: 0})
		}
	case 2:
		// the last two land within a SIG record's length of the 64 KiB limit (uncompressed / compressed owner names)
		sc.Msg.Pad = core.Pick(r, 100, 1000, 20000, 60000, 56700+r.IntN(800), 60700+r.IntN(900))
		if core.Chance(r, 50) {
			sc.Msg.Compress = true
		}
	}
	sc.Key = r.IntN(12)
	if core.Chance(r, 4) {
		sc.Key = 12 + r.IntN(2) // the 4096-bit RSA keys: slow, used sparingly
	}
	if core.Chance(r, 5) {
		sc.Key = 14 // the key whose key tag is 0
	}
	if core.Chance(r, 4) {
		sc.Key = 15 // RSASHA1-NSEC3-SHA1
	}
	if core.Chance(r, 5) {
		sc.Key = 16 + r.IntN(2) // RSA moduli of 1031 and 1284 bits
	}
	if core.Chance(r, 8) {
		sc.Parallel = 2 + r.IntN(3)
		sc.Twins = core.Chance(r, 50)
	}
	if core.Chance(r, 6) {
		sc.Siege = core.Pick(r, 3, 8, 9, 20)
	}
	if core.Chance(r, 6) {
		sc.NearLimit = core.Pick(r, 1, 2, 50, 130, 384, 385, 450)
		sc.Msg.Pad, sc.Msg.Compress = 60000, core.Chance(r, 30)
	}
	sc.Poison = core.Chance(r, 20)
	sc.Resign = core.Chance(r, 25)
	sc.OwnSIG = core.Chance(r, 20)
	sc.Glitch = sc.Flaky == 0 && core.Chance(r, 6)
	if core.Chance(r, 8) {
		sc.EscOwner = 1 + r.IntN(3)
	}
	sc.TrailSIG = core.Chance(r, 8)
	sc.Spare = core.Chance(r, 25)
	sc.SharedMsg = sc.Parallel > 0 && core.Chance(r, 50)
	if core.Chance(r, 30) {
		sc.ThirdParty = 1 + r.IntN(3)
	}
	sc.Leftovers = core.Chance(r, 15)
	if core.Chance(r, 12) {
		sc.Flaky = core.Pick(r, 1, 1, 2, 5)
	}
	sc.EpochS = core.Pick(r, 0, 1, 86400*365, 86400*365*20)
	sc.InceptOff = core.Pick(r, 0, -300, 300, -1, 1, -86400)
	sc.ValidFor = core.Pick(r, 600, 600, 2, 1, 0, 86400*30, -1, -300) // negative: expiration before inception, nothing is ever inside
	if sc.ValidFor >= 0 && sc.InceptOff+sc.ValidFor < 0 {
		sc.ValidFor = 86400 * 30 // keep most windows reachable from the signing instant
	}
	nd := 1 + r.IntN(6)
	for i := 0; i < nd; i++ {
		d := Delivery{Fault: "none", Time: "mid"}
		switch x := r.IntN(100); {
		case x < 25:
			d.Time = core.Pick(r, "before", "incept", "expire", "after", "at", "later")
			d.At = r.IntN(max(sc.ValidFor, 0) + 1)
			if d.Time == "later" {
				// well outside, at distances where truncated or modular arithmetic would fold back into the window
				d.At = core.Pick(r, 65536, 65536*2, 1<<24, 86400*365) + r.IntN(max(sc.ValidFor, 0)+2)
			}
		case x < 60:
			d.Fault, d.Region, d.Frac, d.Bit = "flip", core.Pick(r, regions...), r.IntN(1000), r.IntN(8)
		case x < 80:
			d.Fault, d.Frac = "trunc", r.IntN(1000)
			if core.Chance(r, 30) {
				d.Frac = core.Pick(r, 0, 1, 2, 998, 999)
			}
		case x < 87:
			d.Fault = "wrongkey"
		case x < 91:
			d.Fault = "othername"
		case x < 92:
			d.Fault = "parentname"
		case x < 93:
			d.Fault, d.Frac = core.Pick(r, "lookalike", "keyalg", "keyalg", "sigpad", "appendrr", "appendrr"), r.IntN(1000)
		case x < 94:
			d.Fault = "damagedkey"
		case x < 96:
			d.Fault = "sweep"
		case x < 97:
			d.Fault = "rollover"
		}
		if d.Fault != "none" && core.Chance(r, 10) {
			d.Time = core.Pick(r, "incept", "expire")
		}
		if core.Chance(r, 30) {
			d.FracMs = core.Pick(r, 1, 250, 500, 999)
		}
		sc.Deliveries = append(sc.Deliveries, d)
	}
	return sc
}

func Decode(raw json.RawMessage) (any, error) {
	sc := &Scenario{}
	err := json.Unmarshal(raw, sc)
	return sc, err
}

func Shrink(x any) []any {
	sc := x.(*Scenario)
	var out []any
	cp := func() *Scenario {
		b, _ := json.Marshal(sc)
		n := &Scenario{}
		json.Unmarshal(b, n)
		return n
	}
	for i := range sc.Deliveries {
		if len(sc.Deliveries) > 1 {
			n := cp()
			n.Deliveries = append(n.Deliveries[:i], n.Deliveries[i+1:]...)
			out = append(out, n)
		}
	}
	half := func(get func(*Scenario) *[]gen.RRRef) {
		if l := len(*get(sc)); l > 0 {
			n := cp()
			*get(n) = (*get(n))[:l/2]
			out = append(out, n)
			if l > 1 {
				n := cp()
				*get(n) = (*get(n))[l/2:]
				out = append(out, n)
				n = cp()
				*get(n) = (*get(n))[:l-1]
				out = append(out, n)
			}
		}
	}
	half(func(s *Scenario) *[]gen.RRRef { return &s.Msg.Answer })
	half(func(s *Scenario) *[]gen.RRRef { return &s.Msg.Ns })
	half(func(s *Scenario) *[]gen.RRRef { return &s.Msg.Extra })
	if sc.Msg.Pad > 0 {
		n := cp()
		n.Msg.Pad /= 2
		out = append(out, n)
	}
	if sc.Msg.EDNS != 0 {
		n := cp()
		n.Msg.EDNS = 0
		out = append(out, n)
	}
	if sc.EpochS != 0 {
		n := cp()
		n.EpochS = 0
		out = append(out, n)
	}
	if sc.Resign {
		n := cp()
		n.Resign = false
		out = append(out, n)
	}
	if sc.Leftovers {
		n := cp()
		n.Leftovers = false
		out = append(out, n)
	}
	if sc.Flaky > 0 {
		n := cp()
		n.Flaky--
		out = append(out, n)
	}
	if sc.InceptOff != 0 {
		n := cp()
		n.InceptOff = 0
		out = append(out, n)
	}
	if sc.Msg.Flags != 0 || sc.Msg.Response || sc.Msg.Rcode != 0 {
		n := cp()
		n.Msg.Flags, n.Msg.Response, n.Msg.Rcode = 0, false, 0
		out = append(out, n)
	}
	return out
}

type keyPair struct {
	key     *dns.KEY
	priv    crypto.Signer
	loadErr string   // the library refused to read this (valid, supported) key pair
	other   *dns.KEY // same public key, different owner
	parent  *dns.KEY // same public key, owned by the parent domain of the signer's name
}

var (
	keysOnce sync.Once
	keys     []keyPair
)

// sigLen is the length of the signatures a key makes (RSA: the modulus; ECDSA: two field elements; Ed25519: 64).
func sigLen(k crypto.Signer) int {
	switch pk := k.Public().(type) {
	case *rsa.PublicKey:
		return pk.Size()
	case *ecdsa.PublicKey:
		return 2 * ((pk.Curve.Params().BitSize + 7) / 8)
	}
	return 64
}

func loadKeys() {
	for _, kt := range gen.KeyText {
		rr, err := dns.NewRR(kt.Pub)
		if err != nil {
			panic(err)
		}
		k := rr.(*dns.KEY)
		p, err := k.NewPrivateKey(kt.Priv)
		if err != nil {
			// a supported key the library refuses: reported by the runs that draw it
			keys = append(keys, keyPair{key: k, loadErr: err.Error()})
			continue
		}
		o := dns.Copy(k).(*dns.KEY)
		o.Hdr.Name = "someone-else.example."
		par := dns.Copy(k).(*dns.KEY)
		if i := strings.IndexByte(k.Hdr.Name, '.'); i > 0 {
			par.Hdr.Name = k.Hdr.Name[i+1:]
		}
		keys = append(keys, keyPair{key: k, priv: p.(crypto.Signer), other: o, parent: par})
	}
}

func Run(t *testing.T, scAny any, verbose bool) *core.Result {
	sc := scAny.(*Scenario)
	keysOnce.Do(loadKeys)
	res := &core.Result{Seed: sc.RunSeed, Verdict: core.OK, Stats: map[string]int{}}
	if sc.Parallel > 0 {
		common.Bubble(t, func() { runParallel(sc, res, verbose) })
		return res
	}
	common.Bubble(t, func() { runIn(sc, res, verbose) })
	return res
}

type hasher struct{ h uint64 }

func (x *hasher) add(s string) {
	if x.h == 0 {
		x.h = 1469598103934665603
	}
	for i := 0; i < len(s); i++ {
		x.h ^= uint64(s[i])
		x.h *= 1099511628211
	}
	x.h ^= 0xfe
	x.h *= 1099511628211
}

func runIn(sc *Scenario, res *core.Result, verbose bool) {
	var hs hasher
	logf := func(format string, a ...any) {
		s := fmt.Sprintf(format, a...)
		hs.add(s)
		if verbose {
			res.Log = append(res.Log, fmt.Sprintf("@%d %s", time.Now().Unix(), s))
		}
	}
	defer func() { res.Digest = hs.h }()
	start := time.Now()
	defer func() { res.SimNS = int64(time.Since(start)) }()
	kp := keys[sc.Key%len(keys)]
	algName := dns.AlgorithmToString[kp.key.Algorithm]
	if kp.loadErr != "" {
		res.Fail("Q2", "supported-key-refused", "the library refuses the %s key pair %s (generated by the library itself): %s", algName, kp.key.Hdr.Name, kp.loadErr)
		return
	}
	time.Sleep(time.Duration(sc.EpochS) * time.Second)

	m := sc.Msg.Build()
	if sc.TrailSIG {
		m.Extra = append(m.Extra, &dns.SIG{RRSIG: dns.RRSIG{Hdr: dns.RR_Header{Name: "signed.example.", Rrtype: dns.TypeSIG, Class: dns.ClassINET, Ttl: 300}, TypeCovered: dns.TypeA, Algorithm: dns.RSASHA256,
			Labels: 2, OrigTtl: 300, Expiration: 1700003600, Inception: 1700000000, KeyTag: 4711, SignerName: "example.", Signature: "c2lnbmF0dXJlIG9mIGFuIFJSc2V0IGluIHRoZSBtZXNzYWdl"}})
		res.Bump("cover.message_ends_in_a_sig_record_of_its_own")
	}
	packed, perr := m.Pack()
	if sc.NearLimit > 0 && perr == nil {
		// steer the packed size to the very edge of what can still be signed with this key
		rc := sc.Msg
		want := 65535 - (1 + 10 + 18 + len(kp.key.Hdr.Name) + len(rawPrefix(sc)) + 1 + sigLen(kp.priv)) - (sc.NearLimit - 1)
		for i := 0; i < 6 && perr == nil && len(packed) != want; i++ {
			rc.Pad += want - len(packed)
			if rc.Pad < 1 {
				break
			}
			m = rc.Build()
			packed, perr = m.Pack()
		}
		if perr == nil && len(packed) == want {
			res.Bump("cover.message_at_the_signable_limit")
		}
	}
	if perr != nil {
		// not a signable message (too large, unpackable record): outside the property
		res.Bump("cover.unpackable_recipe")
		logf("recipe does not pack: %v", perr)
		return
	}
	signT := time.Now().Unix()
	incept := uint32(signT + int64(sc.InceptOff))
	expire := incept + uint32(sc.ValidFor)
	sig := &dns.SIG{}
	sig.Algorithm = kp.key.Algorithm
	sig.KeyTag = kp.key.KeyTag()
	sig.SignerName = kp.key.Hdr.Name
	sig.Inception, sig.Expiration = incept, expire
	vkey := kp.key
	if sc.EscOwner > 0 {
		ek := dns.Copy(kp.key).(*dns.KEY)
		ek.Hdr.Name = escapeOne(ek.Hdr.Name)
		vkey = ek
		if sc.EscOwner == 2 {
			sig.SignerName = ek.Hdr.Name
		}
		if sc.EscOwner == 3 {
			// a name with characters that unpacking spells with a backslash and that an application may well
			// write without one: signer and KEY spell it the same, raw
			ek.Hdr.Name = rawPrefix(sc) + kp.key.Hdr.Name
			sig.SignerName = ek.Hdr.Name
		}
		res.Bump("cover.key_owner_spelled_with_an_escape")
	}
	if sc.Leftovers {
		// Sign asks for algorithm, key tag, signer name and the window; the rest is its own business
		sig.Hdr = dns.RR_Header{Name: "left.over.example.", Rrtype: dns.TypeRRSIG, Class: dns.ClassINET, Ttl: 3600, Rdlength: 77}
		sig.TypeCovered, sig.Labels, sig.OrigTtl = dns.TypeSOA, 3, 86400
		sig.Signature = "bGVmdG92ZXI="
		res.Bump("fault.sig_record_with_leftovers")
	}
	arBefore := int(binary.BigEndian.Uint16(packed[10:]))
	var spare [][]dns.RR
	sentinel := &dns.TXT{Hdr: dns.RR_Header{Name: "not.yours.example.", Rrtype: dns.TypeTXT, Class: dns.ClassINET, Ttl: 1}, Txt: []string{"belongs to another message"}}
	if sc.Spare {
		// every section gets room for two more records, and that room is in use - by a sibling slice of the
		// application's: Sign may read the message, the array behind its slices is not Sign's to write to
		for _, sec := range []*[]dns.RR{&m.Answer, &m.Ns, &m.Extra} {
			full := make([]dns.RR, len(*sec)+2)
			copy(full, *sec)
			full[len(*sec)], full[len(*sec)+1] = sentinel, sentinel
			*sec = full[:len(*sec)]
			spare = append(spare, full)
		}
		res.Bump("fault.sections_with_occupied_spare_room")
	}
	if sc.Poison {
		// an unrelated message that shares names with this one and cannot be packed: whatever packing
		// state it leaves behind must not reach the message that is signed next
		bad := new(dns.Msg)
		bad.SetQuestion("host.example.org.", dns.TypeMX)
		bad.Compress = true
		for _, q := range m.Question {
			bad.Question = append(bad.Question, q)
		}
		bad.Answer = append(bad.Answer, &dns.MX{Hdr: dns.RR_Header{Name: "host.example.org.", Rrtype: dns.TypeMX, Class: dns.ClassINET, Ttl: 60}, Preference: 10, Mx: "mail.example.org."},
			&dns.MX{Hdr: dns.RR_Header{Name: "www.example.org.", Rrtype: dns.TypeMX, Class: dns.ClassINET, Ttl: 60}, Preference: 20, Mx: "not-fully-qualified"})
		if _, perr := bad.Pack(); perr != nil {
			res.Bump("fault.failed_pack_before_sign")
		}
	}

	// --- Q1: signing succeeds, output = packed message || one SIG, ARCOUNT+1
	var signer crypto.Signer = kp.priv
	if sc.Flaky > 0 {
		signer = &flakySigner{Signer: kp.priv, failures: sc.Flaky}
	}
	if sc.Glitch {
		signer = &glitchSigner{Signer: kp.priv}
	}
	signed, err := sig.Sign(signer, m)
	res.Bump("oracle.Q1_sign")
	if gs, ok := signer.(*glitchSigner); ok && gs.glitched {
		// what the device returned was damaged, and Sign may have passed it on or noticed: not judged. The
		// device is fine from now on, and so must everything be that has to do with this key
		res.Bump("fault.signing_device_returned_a_damaged_signature")
		if after, aerr := m.Pack(); aerr != nil || string(after) != string(packed) {
			res.Fail("Q1", "sign-changed-message", "after a SIG.Sign whose key returned a damaged signature (err=%v) the caller's message packs differently: Sign altered the message it was given", err)
			return
		}
		logf("first attempt with a glitching key: err=%v", err)
		signed, err = sig.Sign(kp.priv, m)
	}
	if fs, ok := signer.(*flakySigner); ok && fs.failed > 0 {
		// the key refused at least once during that call. Sign may report that or may have asked again,
		// but what it returns without an error must be judged like any other output; if it gave up,
		// the application signs again now that the device answers
		res.Bump("fault.signing_key_failed_transiently")
		if err != nil {
			if after, aerr := m.Pack(); aerr != nil || string(after) != string(packed) {
				res.Fail("Q1", "sign-changed-message", "after a SIG.Sign that failed because the key did (%v) the caller's message packs differently: Sign altered the message it was given", err)
				return
			}
			logf("sign failed with the key: %v", err)
			signed, err = sig.Sign(kp.priv, m)
		} else {
			res.Bump("cover.sign_succeeded_after_key_failure")
		}
	}
	// signing, successful or not, leaves the caller's message as it was
	if after, aerr := m.Pack(); aerr != nil || string(after) != string(packed) {
		res.Fail("Q1", "sign-changed-message", "after SIG.Sign (err=%v) the caller's message packs to %d octets, before it was %d: Sign altered the message it was given", err, len(after), len(packed))
		return
	}
	for i, full := range spare {
		res.Bump("oracle.Q1_sign_keeps_to_the_message")
		if full[len(full)-2] != dns.RR(sentinel) || full[len(full)-1] != dns.RR(sentinel) {
			res.Fail("Q1", "sign-wrote-behind-the-message", "after SIG.Sign the array behind section %d of the caller's message holds %v in the slot behind the section's last record, where a record of another message was: Sign wrote to memory that is not part of the message it was given", i+1, full[len(full)-2])
			return
		}
	}
	sigRRLen := 1 + 10 + 18 + len(kp.key.Hdr.Name) + len(rawPrefix(sc)) + 1 + sigLen(kp.priv) // owner, fixed part, SIG RDATA up to the signer name, the signature of this very key
	if err != nil {
		if len(packed)+sigRRLen > 65535 {
			res.Bump("cover.too_large_to_sign")
			logf("too large to sign: %v", err)
			return
		}
		res.Fail("Q1", "sign-failed:"+err.Error(), "SIG.Sign (%s, compress=%v, %d octets packed, %d records) failed: %v", algName, sc.Msg.Compress, len(packed), len(m.Answer)+len(m.Ns)+len(m.Extra), err)
		logf("sign failed: %v", err)
		return
	}
	if sc.Resign {
		// the same SIG record signs the message again, as an application that keeps a template would
		res.Bump("oracle.Q1_sign_again_with_same_record")
		signed2, err2 := sig.Sign(kp.priv, m)
		if err2 != nil {
			res.Fail("Q1", "resign-failed:"+err2.Error(), "signing a second time with the same SIG record failed: %v", err2)
			return
		}
		if len(signed2) != len(signed) {
			res.Fail("Q1", "resign-output-differs", "signing the same message a second time with the same SIG record produced %d octets instead of %d: the record's previous signature leaked into the new one", len(signed2), len(signed))
			return
		}
		signed = signed2
	}
	logf("signed %s compress=%v len=%d", algName, sc.Msg.Compress, len(packed))
	// Q1: what Sign produced is a signature in the eyes of an implementation that shares nothing with it
	res.Bump("oracle.Q1_signature_valid_independently")
	if ok, judgable := oracle.VerifySIG0(signed, kp.priv.Public()); judgable && !ok {
		res.Fail("Q1", "signature-invalid-for-others", "the SIG record that SIG.Sign (%s) appended is not a valid RFC 2931 signature of the message under the key it was made with (independent computation of the signed data and the standard library's verification)", algName)
		return
	}
	if sc.ThirdParty > 0 {
		// the message is signed by another implementation instead: same key, same fields, own code.
		// For ECDSA it emits the signature with the smaller or the larger s - both are valid.
		if d, _, _, perr := oracle.SIG0Parts(signed); perr == nil && len(d) > 18+len(packed) {
			signerWire := d[18 : len(d)-len(packed)]
			if third, terr := oracle.SignSIG0(packed, kp.key.Algorithm, kp.key.KeyTag(), signerWire, incept, expire, kp.priv, sc.ThirdParty); terr == nil {
				signed = third
				res.Bump("fault.signed_by_another_implementation")
			}
		}
	}
	lay, perr2 := oracle.Parse(signed)
	if perr2 != nil || lay.End != len(signed) || len(lay.RRs) == 0 {
		res.Fail("Q1", "signed-octets-malformed", "the signed octets are not a well-formed message (own parser: %v, end %d of %d)", perr2, lay.End, len(signed))
		return
	}
	srr := lay.RRs[len(lay.RRs)-1]
	switch {
	case lay.H.AR != arBefore+1:
		res.Fail("Q1", "arcount", "ARCOUNT is %d after signing, want %d", lay.H.AR, arBefore+1)
	case srr.Type != 24 || srr.Owner != "." || srr.Class != 255 || srr.TTL != 0:
		res.Fail("Q1", "sig-record-shape", "last record is type %d owner %q class %d ttl %d, want SIG . ANY 0", srr.Type, srr.Owner, srr.Class, srr.TTL)
	case srr.Start != len(packed):
		res.Fail("Q1", "sig-not-appended", "SIG record starts at %d, packed message has %d octets", srr.Start, len(packed))
	case string(signed[:10]) != string(packed[:10]) || string(signed[12:srr.Start]) != string(packed[12:]):
		res.Fail("Q1", "message-octets-changed", "the octets before the SIG record differ from the packed message")
	}
	if res.Verdict != core.OK {
		return
	}
	// region map of the signed octets
	_, _, signerEnd, nerr := oracle.Name(signed, srr.RdStart+18)
	if nerr != nil {
		res.Fail("Q1", "sig-rdata-malformed", "cannot walk SIG RDATA")
		return
	}
	reg := map[string][2]int{
		"id": {0, 2}, "flags": {2, 4}, "counts": {4, 12},
		"sigowner": {srr.Start, srr.NameEnd}, "sighdr": {srr.NameEnd, srr.RdStart},
		"sigfixed": {srr.RdStart, srr.RdStart + 18}, "signer": {srr.RdStart + 18, signerEnd}, "signature": {signerEnd, srr.RdEnd},
	}
	if len(lay.Questions) > 0 {
		reg["question"] = [2]int{lay.Questions[0].Start, lay.Questions[len(lay.Questions)-1].End}
	}
	if len(lay.RRs) > 1 {
		reg["body"] = [2]int{lay.RRs[0].Start, srr.Start}
	}

	// deliveries in order of their verification time (the clock is monotonic)
	type planned struct {
		d  Delivery
		at int64
	}
	var plan []planned
	for _, d := range sc.Deliveries {
		var at int64
		switch d.Time {
		case "before":
			at = int64(incept) - 1
		case "incept":
			at = int64(incept)
		case "expire":
			at = int64(expire)
		case "after":
			at = int64(expire) + 1
		case "at":
			at = int64(incept) + int64(d.At)
		case "later":
			at = int64(incept) + int64(d.At)
		default:
			at = int64(incept) + int64(sc.ValidFor)/2
		}
		plan = append(plan, planned{d, at})
	}
	sort.SliceStable(plan, func(i, j int) bool { return plan[i].at < plan[j].at })

	for _, p := range plan {
		d := p.d
		if now := time.Now().Unix(); p.at > now {
			time.Sleep(time.Duration(p.at-now)*time.Second - time.Duration(time.Now().Nanosecond()))
		}
		if d.FracMs > 0 && time.Now().Nanosecond()/1e6 < d.FracMs {
			// somewhere inside that second, not on the tick
			time.Sleep(time.Duration(d.FracMs)*time.Millisecond - time.Duration(time.Now().Nanosecond()))
		}
		now := uint32(time.Now().Unix())
		inWindow := now >= incept && now <= expire
		tclass := "in"
		switch {
		case now < incept:
			tclass = "before"
		case now > expire:
			tclass = "after"
		case now == incept:
			tclass = "at-inception"
		case now == expire:
			tclass = "at-expiration"
		}
		buf := append([]byte(nil), signed...)
		key := vkey
		tampered, covered := false, true
		desc := d.Fault
		if d.Fault == "sweep" {
			// every single-bit alteration and every truncation >= header size of the
			// signed octets, at an instant inside the window (skipped for large
			// messages and for the slow verifiers)
			alg := kp.key.Algorithm
			if inWindow && len(signed) <= 400 && alg != dns.ECDSAP384SHA384 && sc.Key < 12 {
				res.Bump("fault.exhaustive_sweep")
				for p := 0; p < 8*len(signed); p++ {
					c := append([]byte(nil), signed...)
					c[p/8] ^= 1 << uint(p%8)
					vrr := &dns.SIG{}
					vrr.Hdr = dns.RR_Header{Name: ".", Rrtype: dns.TypeSIG, Class: dns.ClassANY}
					vrr.Algorithm, vrr.KeyTag, vrr.SignerName = sig.Algorithm, sig.KeyTag, sig.SignerName
					um := new(dns.Msg)
					if um.Unpack(append([]byte(nil), c...)) == nil && len(um.Extra) > 0 {
						if s, ok := um.Extra[len(um.Extra)-1].(*dns.SIG); ok {
							vrr = s
						}
					}
					if sc.OwnSIG {
						vrr = sig
					}
					verr, pan := verify(vrr, kp.key, c)
					if pan != "" {
						res.Fail("Q4", "verify-panic:"+firstLine(pan), "SIG.Verify panicked with bit %d of octet %d flipped: %s", p%8, p/8, pan)
						return
					}
					res.Bump("oracle.Q3_sweep_positions")
					covered := !(p/8 >= srr.Start && p/8 < srr.RdStart)
					if covered && verr == nil {
						res.Fail("Q3", "tampered-verified:flip:sweep", "verification succeeded with bit %d of octet %d of the signed octets flipped (%s, %d octets)", p%8, p/8, algName, len(signed))
						return
					}
				}
				for k := 12; k < len(signed); k++ {
					vrr := &dns.SIG{}
					vrr.Hdr = dns.RR_Header{Name: ".", Rrtype: dns.TypeSIG, Class: dns.ClassANY}
					vrr.Algorithm, vrr.KeyTag, vrr.SignerName = sig.Algorithm, sig.KeyTag, sig.SignerName
					vrr.Inception, vrr.Expiration = sig.Inception, sig.Expiration
					if sc.OwnSIG {
						vrr = sig
					}
					verr, pan := verify(vrr, kp.key, append([]byte(nil), signed[:k]...))
					if pan != "" {
						res.Fail("Q4", "verify-panic:"+firstLine(pan), "SIG.Verify panicked on the first %d of %d signed octets: %s", k, len(signed), pan)
						return
					}
					res.Bump("oracle.Q4_sweep_positions")
					if verr == nil {
						res.Fail("Q3", "tampered-verified:trunc:sweep", "verification succeeded on the first %d of %d signed octets", k, len(signed))
						return
					}
				}
			}
			continue
		}
		switch d.Fault {
		case "flip":
			rg, ok := reg[d.Region]
			if !ok || rg[1] <= rg[0] {
				rg, d.Region = reg["flags"], "flags"
			}
			pos := rg[0] + (rg[1]-rg[0])*d.Frac/1000
			buf[pos] ^= 1 << uint(d.Bit&7)
			tampered = true
			covered = d.Region != "sigowner" && d.Region != "sighdr"
			desc = fmt.Sprintf("flip %s@%d bit %d", d.Region, pos, d.Bit&7)
			res.Bump("fault.bitflip_" + d.Region)
		case "trunc":
			k := 12 + (len(buf)-12)*d.Frac/1000
			if k >= len(buf) {
				k = len(buf) - 1
			}
			buf = buf[:k:k]
			tampered = true
			desc = fmt.Sprintf("truncate to %d of %d", k, len(signed))
			res.Bump("fault.truncate")
		case "wrongkey":
			key = keys[(sc.Key^1)%len(keys)].key // the other key of the same algorithm
			tampered = true
			res.Bump("fault.wrong_key")
		case "othername":
			key = kp.other
			tampered = true
			res.Bump("fault.key_other_owner")
		case "rollover":
			// one KEY object: used for a good verification first, then its key material is
			// replaced in place (a rollover) by another key of the same algorithm
			rk := dns.Copy(kp.key).(*dns.KEY)
			if _, pan := verify(sig, rk, append([]byte(nil), signed...)); pan != "" {
				res.Fail("Q4", "verify-panic:"+firstLine(pan), "SIG.Verify panicked: %s", pan)
				return
			}
			rk.PublicKey = keys[(sc.Key^1)%len(keys)].key.PublicKey
			key = rk
			tampered = true
			res.Bump("fault.key_rolled_over_in_place")
		case "damagedkey":
			// the right owner, but the key material does not parse (cut short / wrong size for the algorithm): not the matching key
			dk := dns.Copy(kp.key).(*dns.KEY)
			if n := len(dk.PublicKey); n > 8 {
				dk.PublicKey = dk.PublicKey[:(n/2)&^3]
			}
			key = dk
			tampered = true
			res.Bump("fault.key_material_damaged")
		case "keyalg":
			// the same key material published under another algorithm number: another KEY record, not the signer's
			ak := dns.Copy(kp.key).(*dns.KEY)
			switch ak.Algorithm {
			case dns.RSASHA1:
				ak.Algorithm = []uint8{dns.RSASHA1NSEC3SHA1, dns.RSASHA256}[d.Frac%2] // (5 and 7 are the same signature scheme under two numbers: two algorithms all the same)
			case dns.RSASHA1NSEC3SHA1:
				ak.Algorithm = []uint8{dns.RSASHA1, dns.RSASHA256}[d.Frac%2]
			case dns.RSASHA256:
				ak.Algorithm = dns.RSASHA512
			case dns.RSASHA512:
				ak.Algorithm = dns.RSASHA1
			default:
				ak.Hdr.Name = "x" + ak.Hdr.Name // (no sibling algorithm for this key type: another owner instead)
			}
			key = ak
			tampered = true
			res.Bump("fault.key_other_algorithm_number")
		case "sigpad":
			// an ECDSA signature re-encoded with a zero octet in front of r and of s (RDLENGTH adjusted): not the
			// fixed-length form RFC 6605 prescribes, and not the octets that were signed for
			if alg := kp.key.Algorithm; (alg == dns.ECDSAP256SHA256 || alg == dns.ECDSAP384SHA384) && len(buf) == len(signed) {
				sg := reg["signature"]
				half := (sg[1] - sg[0]) / 2
				nb := append([]byte(nil), buf[:sg[0]]...)
				nb = append(nb, 0)
				nb = append(nb, buf[sg[0]:sg[0]+half]...)
				nb = append(nb, 0)
				nb = append(nb, buf[sg[0]+half:]...)
				rl := srr.RdStart - 2
				binary.BigEndian.PutUint16(nb[rl:], binary.BigEndian.Uint16(nb[rl:])+2)
				buf = nb
				tampered = true
				desc = "signature halves prefixed with a zero octet"
				res.Bump("fault.ecdsa_signature_padded")
			}
		case "appendrr":
			// a record of the sender's choosing behind the SIG - with ARCOUNT raised to own up to it, or without:
			// more than one octet altered, each of them a message octet
			rr := []byte{0, 0, 1, 0, 1, 0, 0, 0, 60, 0, 4, 203, 0, 113, 66} // . 60 IN A 203.0.113.66
			if d.Frac%3 == 1 {
				rr = []byte{0, 0, 41, 16, 0, 0, 0, 0, 0, 0, 0} // an OPT record
			}
			if len(buf)+len(rr) <= 65535 {
				buf = append(append([]byte(nil), buf...), rr...)
				if d.Frac%3 != 2 {
					binary.BigEndian.PutUint16(buf[10:], binary.BigEndian.Uint16(buf[10:])+1)
				}
				tampered = true
				desc = fmt.Sprintf("a record appended behind the SIG (variant %d)", d.Frac%3)
				res.Bump("fault.record_appended_behind_the_sig")
			}
		case "lookalike":
			// a KEY whose owner only looks like the signer's name: a letter replaced by a code point
			// that folds to it under Unicode rules (KELVIN SIGN for k, LONG S for s), raw in the name
			lk := dns.Copy(kp.key).(*dns.KEY)
			switch {
			case strings.ContainsAny(lk.Hdr.Name, "kK"):
				lk.Hdr.Name = strings.Replace(strings.Replace(lk.Hdr.Name, "k", "\u212a", 1), "K", "\u212a", 1)
			case strings.ContainsAny(lk.Hdr.Name, "sS"):
				lk.Hdr.Name = strings.Replace(strings.Replace(lk.Hdr.Name, "s", "\u017f", 1), "S", "\u017f", 1)
			default:
				lk.Hdr.Name = "x" + lk.Hdr.Name
			}
			key = lk
			tampered = true
			res.Bump("fault.key_lookalike_owner")
		case "parentname":
			key = kp.parent // a key of an enclosing domain is not the signer's key
			tampered = true
			res.Bump("fault.key_parent_owner")
		}
		if tclass != "in" {
			res.Bump("fault.time_" + tclass)
		}
		// the receiver takes the SIG from the message when it decodes, else its template
		vrr := &dns.SIG{}
		vrr.Hdr = dns.RR_Header{Name: ".", Rrtype: dns.TypeSIG, Class: dns.ClassANY}
		vrr.Algorithm, vrr.KeyTag, vrr.SignerName = sig.Algorithm, sig.KeyTag, sig.SignerName
		um := new(dns.Msg)
		if uerr := um.Unpack(buf); uerr == nil && len(um.Extra) > 0 {
			if s, ok := um.Extra[len(um.Extra)-1].(*dns.SIG); ok {
				vrr = s
			}
		}
		if sc.OwnSIG {
			vrr = sig
			res.Bump("cover.verified_with_the_sig_object_that_signed")
		}
		if sc.Siege > 0 && !tampered && inWindow {
			// someone else has been sending forgeries in this signer's name: each is refused, and none of that
			// may cost the genuine message its verification
			sg := reg["signature"]
			for i := 0; i < sc.Siege && sg[1] > sg[0]; i++ {
				f := append([]byte(nil), signed...)
				f[sg[0]+i%(sg[1]-sg[0])] ^= 1 << uint(i%8)
				frr := &dns.SIG{}
				fm := new(dns.Msg)
				if fm.Unpack(append([]byte(nil), f...)) == nil && len(fm.Extra) > 0 {
					if s, ok := fm.Extra[len(fm.Extra)-1].(*dns.SIG); ok {
						frr = s
					}
				}
				ferr, fpan := verify(frr, kp.key, f)
				res.Bump("fault.forgery_before_genuine_message")
				if fpan != "" {
					res.Fail("Q4", "verify-panic:"+firstLine(fpan), "SIG.Verify panicked on a forgery: %s", fpan)
					return
				}
				if ferr == nil {
					res.Fail("Q3", "tampered-verified:flip:signature", "a message with bit %d of a signature octet flipped verified", i%8)
					return
				}
			}
		}
		verr, pan := verify(vrr, key, buf)
		out := "ok"
		if verr != nil {
			out = "error"
		}
		logf("deliver %s t=%s -> %s", desc, tclass, out)
		res.Classes = append(res.Classes, fmt.Sprintf("%s/c=%v/%s/%s/%s/%s", algName, sc.Msg.Compress, d.Fault, d.Region, tclass, out))
		if pan != "" {
			res.Bump("oracle.Q4_no_panic")
			res.Fail("Q4", "verify-panic:"+firstLine(pan), "SIG.Verify panicked on %s (%d octets): %s", desc, len(buf), pan)
			return
		}
		switch {
		case !tampered && inWindow:
			res.Bump("oracle.Q2_verifies")
			if verr != nil {
				sigName := "verify-failed"
				if lay.H.AR >= 257 {
					sigName = "verify-failed-arcount-ge-256"
				}
				if sc.Siege > 0 {
					sigName = "verify-failed-after-forgeries"
				}
				if sc.EscOwner > 0 {
					sigName = "verify-failed-key-owner-spelled-with-escape"
				}
				res.Fail("Q2", sigName, "an untampered %s-signed message (%d octets, ARCOUNT %d) inside its validity window does not verify: %v", algName, len(buf), lay.H.AR, verr)
				return
			}
		case !tampered && !inWindow:
			res.Bump("oracle.Q3_time_window")
			if verr == nil {
				res.Fail("Q3", "verified-outside-window", "message verified at now=%d outside [%d, %d]", now, incept, expire)
				return
			}
		case tampered && covered:
			res.Bump("oracle.Q3_tamper_rejected")
			if verr == nil {
				res.Fail("Q3", "tampered-verified:"+d.Fault+":"+d.Region, "verification succeeded although the delivered octets / key differ from what was signed (%s)", desc)
				return
			}
		default:
			res.Bump("oracle.Q4_no_panic")
		}
		if d.Fault == "trunc" {
			res.Bump("oracle.Q4_no_panic")
		}
	}
	res.Nontrivial = true
	res.Class = fmt.Sprintf("%s/c=%v/n=%d", algName, sc.Msg.Compress, len(plan))
}

// --- several signers and verifiers at once (each pair has its own key and
// message): no result may depend on what the others do, and under the race
// build no state may be shared between them.

// sharedSigned is one signed message that every pair also verifies (Verify only reads its buffer)
type sharedSigned struct {
	buf []byte
	sig *dns.SIG
	key *dns.KEY
}

type pairTask struct {
	sharedMsg *dns.Msg
	shared    *sharedSigned
	k         *kernel.K
	res       *core.Result
	sc        *Scenario
	idx       int
	fin       *int
}

//go:norace
func (p *pairTask) RunEvent(time.Time) {
	k := p.k
	kp := keys[(p.sc.Key+2*p.idx)%12]
	idOff := p.idx * 16
	if p.sc.Twins && p.idx < 2 {
		// two keys at one name (a rollover): pair 1 signs what pair 0 signs, with the other key of the same
		// algorithm, published under the same owner; the SIG fields of the two are the same to the last octet
		first := keys[p.sc.Key%12]
		kp, idOff = first, 0
		if p.idx == 1 {
			o := keys[(p.sc.Key%12)^1]
			nk := dns.Copy(o.key).(*dns.KEY)
			nk.Hdr.Name = first.key.Hdr.Name
			kp = keyPair{key: nk, priv: o.priv}
		}
	}
	for round := 0; round < 2; round++ {
		rc := p.sc.Msg
		rc.ID += uint16(idOff + round)
		m := rc.Build()
		now := uint32(time.Now().Unix())
		sig := &dns.SIG{}
		sig.Algorithm, sig.KeyTag, sig.SignerName = kp.key.Algorithm, kp.key.KeyTag(), kp.key.Hdr.Name
		if p.sc.Twins && p.idx < 2 {
			sig.KeyTag = keys[p.sc.Key%12].key.KeyTag() // (the tag is a hint, not an identity: two keys may share one)
		}
		sig.Inception, sig.Expiration = now-300, now+300
		k.Yield("pair.sign", p.idx)
		var dev crypto.Signer = kp.priv
		if p.sc.Twins {
			dev = &yieldSigner{Signer: kp.priv, k: k, idx: p.idx}
		}
		signed, err := sig.Sign(dev, m)
		k.Yield("pair.verify", p.idx)
		var verr error
		pan := ""
		if err == nil {
			um := new(dns.Msg)
			vrr := sig
			if um.Unpack(append([]byte(nil), signed...)) == nil && len(um.Extra) > 0 {
				if s, ok := um.Extra[len(um.Extra)-1].(*dns.SIG); ok {
					vrr = s
				}
			}
			verr, pan = verify(vrr, kp.key, signed)
		}
		k.Lock()
		p.res.Stats["oracle.Q2_verifies_concurrently"]++
		switch {
		case err != nil && len(signed) == 0:
			if b, perr := m.Pack(); perr == nil && len(b) < 60000 {
				p.res.Fail("Q1", "sign-failed-concurrent:"+err.Error(), "SIG.Sign failed while other signers were active: %v", err)
			}
		case pan != "":
			p.res.Fail("Q4", "verify-panic-concurrent", "SIG.Verify panicked while other verifiers were active: %s", pan)
		case verr != nil:
			p.res.Fail("Q2", "verify-failed-concurrent", "a message signed and verified by pair %d did not verify while %d other pairs were active: %v", p.idx, p.sc.Parallel-1, verr)
		}
		k.Unlock()
	}
	if p.sharedMsg != nil {
		// all pairs sign the very same message object, each with its own key and SIG record: Sign reads the
		// message, and a message without EDNS is packed without a write to it
		now := uint32(time.Now().Unix())
		sig := &dns.SIG{}
		sig.Algorithm, sig.KeyTag, sig.SignerName = kp.key.Algorithm, kp.key.KeyTag(), kp.key.Hdr.Name
		sig.Inception, sig.Expiration = now-300, now+300
		k.Yield("pair.sign.shared", p.idx)
		signed, err := sig.Sign(kp.priv, p.sharedMsg)
		k.Yield("pair.verify.own", p.idx)
		valid, judgable := false, false
		if err == nil {
			valid, judgable = oracle.VerifySIG0(signed, kp.priv.Public())
		}
		k.Lock()
		p.res.Stats["oracle.Q1_shared_message_signed_concurrently"]++
		if err != nil {
			p.res.Fail("Q1", "sign-failed-concurrent:"+err.Error(), "SIG.Sign of a message that other signers were signing too failed: %v", err)
		} else if judgable && !valid {
			p.res.Fail("Q1", "signature-invalid-for-others-concurrent", "what pair %d got from SIG.Sign for a message that %d other signers were signing at the same time is not that message followed by a valid RFC 2931 signature under pair %d's key", p.idx, p.sc.Parallel-1, p.idx)
		}
		k.Unlock()
	}
	if p.shared != nil {
		// all pairs verify the very same octets: a verifier must treat them as read-only
		k.Yield("pair.verify.shared", p.idx)
		verr, pan := verify(p.shared.sig, p.shared.key, p.shared.buf)
		k.Lock()
		p.res.Stats["oracle.Q2_shared_buffer_verifies"]++
		if pan != "" {
			p.res.Fail("Q4", "verify-panic-concurrent", "SIG.Verify panicked on a buffer that other verifiers were reading: %s", pan)
		} else if verr != nil {
			p.res.Fail("Q2", "verify-failed-concurrent", "a valid message verified by several goroutines at once did not verify in pair %d: %v", p.idx, verr)
		}
		k.Unlock()
	}
	k.Lock()
	*p.fin++
	k.Unlock()
}

type pairsDone struct {
	fin *int
	n   int
}

//go:norace
func (d pairsDone) Check(time.Time) string {
	if *d.fin == d.n {
		return "done"
	}
	return ""
}

//go:norace
func runParallel(sc *Scenario, res *core.Result, verbose bool) {
	k := kernel.New(kernel.Config{Seed: sc.RunSeed, Strategy: int(sc.RunSeed % kernel.NumStrats), PCTDepth: 2, PCTSpan: 30, Verbose: verbose, MaxSteps: 5000})
	kernel.SetCurrent(k)
	defer kernel.SetCurrent(nil)
	fin := 0
	var shared *sharedSigned
	{
		kp := keys[sc.Key%12]
		m := sc.Msg.Build()
		now := uint32(time.Now().Unix())
		sg := &dns.SIG{}
		sg.Algorithm, sg.KeyTag, sg.SignerName = kp.key.Algorithm, kp.key.KeyTag(), kp.key.Hdr.Name
		sg.Inception, sg.Expiration = now-300, now+300
		if b, err := sg.Sign(kp.priv, m); err == nil {
			shared = &sharedSigned{buf: b, sig: sg, key: kp.key}
		}
	}
	var sharedMsg *dns.Msg
	if sc.SharedMsg {
		sharedMsg = new(dns.Msg)
		sharedMsg.SetQuestion("shared.example.", dns.TypeANY)
		sharedMsg.Id = 0x5151
		sharedMsg.Compress = sc.Msg.Compress
		sharedMsg.Answer = append(sharedMsg.Answer,
			&dns.A{Hdr: dns.RR_Header{Name: "shared.example.", Rrtype: dns.TypeA, Class: dns.ClassINET, Ttl: 60}, A: []byte{192, 0, 2, 1}},
			&dns.PrivateRR{Hdr: dns.RR_Header{Name: "shared.example.", Rrtype: privType, Class: dns.ClassINET, Ttl: 60}, Data: &yieldRdata{v: "packed at leisure"}},
			&dns.MX{Hdr: dns.RR_Header{Name: "shared.example.", Rrtype: dns.TypeMX, Class: dns.ClassINET, Ttl: 60}, Preference: 10, Mx: "mail.shared.example."})
		extra := make([]dns.RR, 1, 4) // room to spare behind the last record, as append leaves it
		extra[0] = &dns.AAAA{Hdr: dns.RR_Header{Name: "mail.shared.example.", Rrtype: dns.TypeAAAA, Class: dns.ClassINET, Ttl: 60}, AAAA: []byte{0x20, 1, 0xd, 0xb8, 0, 0, 0, 0, 0, 0, 0, 0, 0, 0, 0, 1}}
		sharedMsg.Extra = extra
		res.Bump("cover.one_message_object_signed_by_all_pairs")
	}
	for i := 0; i < sc.Parallel; i++ {
		k.Go("pair"+strconv.Itoa(i), &pairTask{k: k, res: res, sc: sc, idx: i, fin: &fin, shared: shared, sharedMsg: sharedMsg})
	}
	out := k.Run(pairsDone{&fin, sc.Parallel})
	res.Steps, res.Digest = k.Steps, k.Digest()
	if verbose {
		res.Log = k.Log
	}
	k.Abort()
	if out != kernel.Finished && res.Verdict == core.OK {
		res.Verdict, res.Msg = core.Harness, "parallel SIG(0) run ended with "+out
	}
	res.Nontrivial = true
	res.Class = "parallel/n=" + strconv.Itoa(sc.Parallel) + "/" + dns.AlgorithmToString[keys[sc.Key%len(keys)].key.Algorithm]
}

// rawPrefix is the label (with its dot) that scenarios with esc_owner 3 put in front of the signer's name: as many
// octets on the wire as in the text.
func rawPrefix(sc *Scenario) string {
	if sc.EscOwner != 3 {
		return ""
	}
	return []string{"o'brien.", "dyn@home.", "caf\u00e9.", "a;b."}[sc.RunSeed%4]
}

// escapeOne spells the first letter of a domain name as a decimal escape: another spelling of the same name.
func escapeOne(name string) string {
	for i := 0; i < len(name); i++ {
		if c := name[i]; c >= 'a' && c <= 'z' || c >= 'A' && c <= 'Z' {
			if i > 0 && name[i-1] == '\\' {
				continue
			}
			return name[:i] + fmt.Sprintf("\\%03d", c) + name[i+1:]
		}
	}
	return name
}

// yieldRdata is the RDATA of a private record type whose packing takes a scheduling point: an application's
// own code in the middle of Msg.Pack, and with it of SIG.Sign.
type yieldRdata struct{ v string }

const privType = 65292

func (y *yieldRdata) String() string         { return y.v }
func (y *yieldRdata) Parse(t []string) error { y.v = strings.Join(t, " "); return nil }

//go:norace
func (y *yieldRdata) Pack(b []byte) (int, error) {
	if k := kernel.Current(); k != nil {
		k.Yield("pack.private", 0)
	}
	if len(b) < len(y.v) {
		return 0, errors.New("yieldRdata: buffer too small")
	}
	return copy(b, y.v), nil
}
func (y *yieldRdata) Unpack(b []byte) (int, error) { y.v = string(b); return len(b), nil }
func (y *yieldRdata) Copy(d dns.PrivateRdata) error {
	d.(*yieldRdata).v = y.v
	return nil
}
func (y *yieldRdata) Len() int { return len(y.v) }

// yieldSigner is a key behind a device that takes a while: a scheduling point inside Sign.
type yieldSigner struct {
	crypto.Signer
	k   *kernel.K
	idx int
}

//go:norace
func (y *yieldSigner) Sign(rand io.Reader, digest []byte, opts crypto.SignerOpts) ([]byte, error) {
	y.k.Yield("pair.device", y.idx)
	return y.Signer.Sign(rand, digest, opts)
}

// glitchSigner is a key held by a device whose first answer comes back damaged - a bit flipped on the way, no error.
type glitchSigner struct {
	crypto.Signer
	glitched bool
}

func (g *glitchSigner) Sign(rand io.Reader, digest []byte, opts crypto.SignerOpts) ([]byte, error) {
	sig, err := g.Signer.Sign(rand, digest, opts)
	if err == nil && !g.glitched && len(sig) > 4 {
		g.glitched = true
		sig = append([]byte(nil), sig...)
		sig[len(sig)/2] ^= 0x10
	}
	return sig, err
}

// flakySigner is a key held by a device that refuses its first requests and serves the later ones.
type flakySigner struct {
	crypto.Signer
	failures, failed int
}

func (f *flakySigner) Sign(rand io.Reader, digest []byte, opts crypto.SignerOpts) ([]byte, error) {
	if f.failed < f.failures {
		f.failed++
		return nil, errors.New("signing device: session lost, try again")
	}
	return f.Signer.Sign(rand, digest, opts)
}

func firstLine(s string) string {
	if i := strings.IndexByte(s, '\n'); i > 0 {
		return s[:i]
	}
	return s
}

func verify(rr *dns.SIG, k *dns.KEY, buf []byte) (err error, pan string) {
	defer func() {
		if r := recover(); r != nil {
			pan = fmt.Sprintf("%v\n%s", r, trimStack(string(debug.Stack())))
		}
	}()
	return rr.Verify(k, buf), ""
}

func trimStack(s string) string {
	var out []string
	for _, ln := range strings.Split(s, "\n") {
		if strings.Contains(ln, "miekg/dns") {
			out = append(out, strings.TrimSpace(ln))
			if len(out) == 6 {
				break
			}
		}
	}
	return strings.Join(out, "\n")
}

func init() {
	dns.PrivateHandle("XPRIV18", privType, func() dns.PrivateRdata { return &yieldRdata{} })
	core.Register(&core.Prop{ID: "C18", Gen: Gen, Decode: Decode, Run: Run, Shrink: Shrink, Modes: []string{"pristine"}, Race: true})
}
