// Package c11 simulates TSIG: a signer and a verifier under the simulated
// wall clock with in-flight tampering, chains of envelopes whose MACs cover
// the previous one (bare TsigGenerate / TsigVerify API), and real
// Client/Conn/Server sessions through an on-path middlebox. Every verdict of
// the library is compared with an independent RFC 8945 implementation
// (DESIGN 4, C11). Chains through Transfer.In/Out are exercised under C15
// with the same oracle.
package c11

import (
	"encoding/base64"
	"encoding/hex"
	"encoding/json"
	"fmt"
	"sort"
	"strconv"
	"strings"
	"testing"
	"time"

	"github.com/miekg/dns"
	"verifsim/core"
	"verifsim/gen"
	"verifsim/kernel"
	"verifsim/oracle"
	"verifsim/props/c15"
	"verifsim/props/common"
	"verifsim/simnet"
)

type Event struct {
	Msg    int    `json:"msg"`              // which message of the chain is delivered
	Fault  string `json:"fault"`            // none | flip | field | unsign | duptsig | trunc
	Region string `json:"region,omitempty"` // flip: id header counts question records tsig-owner tsig-fixed tsig-alg tsig-time tsig-fudge tsig-macsize mac tsig-origid tsig-error tsig-otherlen
	Frac   int    `json:"frac,omitempty"`
	Bit    int    `json:"bit,omitempty"`
	Prior  string `json:"prior,omitempty"`  // right | none | other | stale  (request MAC the verifier passes)
	Timers string `json:"timers,omitempty"` // right | flipped
	Key    string `json:"key,omitempty"`    // right | wrong
	Time   string `json:"time"`             // now | fudge-1 | fudge | fudge+1 | far
	FarS   int64  `json:"far_s,omitempty"`  // far: seconds beyond the signing time
}

type Exch struct {
	Xfr    bool       `json:"xfr,omitempty"` // an AXFR request answered with Transfer.Out (two envelopes) on the same stream; the next exchange continues on it
	Signed bool       `json:"signed"`
	Reuse  bool       `json:"reuse_conn,omitempty"`  // keep using the previous dns.Conn
	Fresh  bool       `json:"fresh_state,omitempty"` // with Reuse: same stream, but a new dns.Conn around it (no TSIG state carried over on the client side)
	SkewS  int        `json:"skew_s,omitempty"`      // this request is stamped that many seconds off the client's clock (an application that stamped it earlier, a stepped clock)
	Recipe gen.Recipe `json:"recipe"`
}

type Scenario struct {
	RunSeed uint64 `json:"run_seed"`
	Kind    string `json:"kind"` // bare | session
	Alg     string `json:"alg"`
	Fudge   int    `json:"fudge"`
	EpochS  int    `json:"epoch_s,omitempty"`
	SkewS   int    `json:"skew_s,omitempty"` // signer's TimeSigned = its clock + skew
	// bare
	Msgs        []gen.Recipe `json:"msgs,omitempty"`
	InitialMAC  bool         `json:"initial_mac,omitempty"`
	TimersFirst bool         `json:"timers_first,omitempty"`
	TsigErr     int          `json:"tsig_err,omitempty"`     // the first message's TSIG carries this error code (18 = BADTIME, with six octets of other data): covered by the MAC like every other variable, and no excuse for a stale time
	KeyCase     bool         `json:"key_case,omitempty"`     // bare: the stub spells the key name with capitals (a stub made by hand, or echoed from a peer that spells it so): the digest takes the name in canonical form all the same
	DefaultTime bool         `json:"default_time,omitempty"` // the stub TSIG carries time 0 ("now") and the MAC comes from a provider that takes 1.2 s of simulated time
	Parallel    int          `json:"parallel,omitempty"`     // kind parallel: that many signer/verifier tasks share one key and algorithm
	Events      []Event      `json:"events,omitempty"`
	// session
	Strategy  int              `json:"strategy,omitempty"`
	Exch      []Exch           `json:"exch,omitempty"`
	Ops       []common.FrameOp `json:"ops,omitempty"`
	ServerKey string           `json:"server_key,omitempty"` // right | wrong | none
	SegMode   int              `json:"segmode,omitempty"`
	Transport string           `json:"transport,omitempty"` // session: tcp (through the middlebox) | udp (concurrent clients, server with a TSIG provider that takes a scheduling point)
	Clients   int              `json:"clients,omitempty"`
	Provider  int              `json:"provider,omitempty"`    // tcp session: bit 0 the client, bit 1 the server is given its keys through a TsigProvider (own HMAC code) instead of a secret map
	Split     bool             `json:"split,omitempty"`       // tcp session: the client writes its queries in one task and reads the replies in another (a pipelining caller), instead of calling ExchangeWithConn
	Stall     int              `json:"stall,omitempty"`       // tcp session: chance (percent) that a thread loses the processor for up to 50 ms of simulated time right after a write has returned - the peer may answer meanwhile
	Async     bool             `json:"async_reply,omitempty"` // session: the handler returns at once and answers from another task a little later, through the ResponseWriter it was given
	Stray     bool             `json:"stray,omitempty"`       // udp: before the answer to each exchange a signed datagram with another ID reaches the client (the late answer to an earlier query, a forgery): it is skipped - and must leave nothing behind
	Burst     bool             `json:"burst,omitempty"`       // udp: every client sends all its requests before reading any reply
	Xfer      json.RawMessage  `json:"transfer,omitempty"`    // kind transfer: a zone-transfer session with TSIG (scenario of the C15 harness)
}

const (
	secretGood = "c2VjcmV0LWZvci10aGUtcmlnaHQta2V5LTEyMzQ1Ng=="
	secretBad  = "YW5vdGhlci1zZWNyZXQtZm9yLWFub3RoZXIta2V5IQ=="
	keyName    = "tsig-key.example."
)

var parSecrets = []string{"cGFyYWxsZWwtc2VjcmV0LW9uZS0wMTIzNDU2Nzg5", "cGFyYWxsZWwtc2VjcmV0LXR3by1hYmNkZWZnaGlq", "cGFyYWxsZWwtc2VjcmV0LXRocmVlLXh5enh5eno="}

var algs = []string{dns.HmacSHA1, dns.HmacSHA224, dns.HmacSHA256, dns.HmacSHA384, dns.HmacSHA512}

var regions = []string{"id", "header", "counts", "question", "records", "tsig-owner", "tsig-fixed", "tsig-alg", "tsig-time", "tsig-fudge", "tsig-macsize", "mac", "tsig-origid", "tsig-error", "tsig-otherlen"}

func Gen(seed uint64, tier string) any {
	r := core.Rng(seed)
	sc := &Scenario{RunSeed: seed, Kind: "bare"}
	if core.Chance(r, 30) {
		sc.Kind = "session"
	}
	if core.Chance(r, 10) {
		// chains of envelopes through Transfer.In / Transfer.Out: the zone-transfer harness with TSIG forced on
		x := c15.Gen(seed, tier).(*c15.Scenario)
		if x.Alg == "" {
			x.Alg, x.ClientKey, x.ServerKey, x.Fudge = core.Pick(r, algs...), true, true, 300
		}
		raw, _ := json.Marshal(x)
		return &Scenario{RunSeed: seed, Kind: "transfer", Alg: x.Alg, Fudge: x.Fudge, Xfer: raw}
	}
	sc.Alg = core.Pick(r, algs...)
	if core.Chance(r, 20) {
		sc.Alg = strings.ToUpper(sc.Alg[:6]) + sc.Alg[6:]
	}
	sc.Fudge = core.Pick(r, 300, 300, 5, 1, 2, 3600, 3601, 7200, 65535) // (the field has 16 bits; what it says is the window, however wide)
	sc.EpochS = core.Pick(r, 0, 1, 86400*365*15)
	if sc.Kind == "session" {
		sc.Strategy = r.IntN(kernel.NumStrats)
		sc.SegMode = r.IntN(3)
		sc.ServerKey = core.Pick(r, "right", "right", "right", "right", "wrong", "none", "empty")
		sc.Transport = core.Pick(r, "tcp", "tcp", "udp")
		sc.Provider = core.Pick(r, 0, 0, 1, 2, 3)
		sc.Split = sc.Transport == "tcp" && core.Chance(r, 30)
		if sc.Transport == "tcp" && core.Chance(r, 30) {
			sc.Stall = core.Pick(r, 10, 40, 100)
		}
		// (datagram sessions only: there every request has a response writer of its own; on a stream the
		// writer belongs to the connection and the server moves on to the next request when the handler returns)
		sc.Async = sc.Transport == "udp" && core.Chance(r, 35)
		sc.Stray = sc.Transport == "udp" && core.Chance(r, 35)
		sc.Clients = 1
		if sc.Transport == "udp" {
			sc.Clients = 1 + r.IntN(4)
			sc.Burst = core.Chance(r, 60)
		}
		n := 1 + r.IntN(4)
		for i := 0; i < n; i++ {
			e := Exch{Signed: core.Chance(r, 85), Reuse: core.Chance(r, 50), Recipe: *gen.Random(r, core.Pick(r, 0, 2, 6))}
			e.Recipe.Response, e.Recipe.Opcode, e.Recipe.Rcode = false, 0, 0
			e.Recipe.Answer, e.Recipe.Ns = nil, nil
			if len(e.Recipe.Extra) > 1 {
				e.Recipe.Extra = e.Recipe.Extra[:1]
			}
			e.Recipe.EDNS = 0
			e.Recipe.QName = fmt.Sprintf("x%d.session.test.", i)
			e.Recipe.ID = uint16(300 + i)
			if core.Chance(r, 20) {
				e.Xfr = true
			}
			e.Fresh = core.Chance(r, 50)
			if core.Chance(r, 35) {
				e.SkewS = core.Pick(r, -1, -2, -1-sc.Fudge/2, 1, sc.Fudge-1, -sc.Fudge, sc.Fudge+1, -sc.Fudge-1)
			}
			if i > 0 && sc.Exch[i-1].Xfr {
				e.Reuse = true // carry on where the transfer left the stream
			}
			sc.Exch = append(sc.Exch, e)
		}
		if sc.Transport == "udp" {
			for i := range sc.Exch {
				sc.Exch[i].Xfr, sc.Exch[i].Reuse = false, true
			}
		}
		if sc.Transport == "tcp" && sc.ServerKey == "right" && core.Chance(r, 10) {
			// a request that reaches the server stale: correctly signed, outside the window (BADTIME territory)
			sc.Ops = append(sc.Ops, common.FrameOp{Dir: "c2s", Env: r.IntN(n), Kind: "delay", DelayS: sc.Fudge + 1 + r.IntN(3)})
			for i := range sc.Exch {
				sc.Exch[i].Signed, sc.Exch[i].Xfr = true, false
			}
		} else if sc.Transport == "tcp" && core.Chance(r, 55) {
			nf := 1 + r.IntN(2)
			for i := 0; i < nf; i++ {
				op := common.FrameOp{Dir: core.Pick(r, "c2s", "s2c"), Env: r.IntN(n), Kind: core.Pick(r, "flip", "flip", "unsign", "wrongkey", "nokey", "parentkey", "delay", "dup", "reflect", "otherform")}
				if op.Kind == "reflect" {
					op.Dir = "s2c"
				}
				if op.Kind == "flip" {
					op.Region, op.Frac, op.Bit = core.Pick(r, "header", "flags", "flags", "question", "records", "tsig", "mac", "mac"), r.IntN(1000), r.IntN(8)
				}
				if op.Kind == "parentkey" {
					op.Frac = r.IntN(2)
				}
				if op.Kind == "delay" {
					op.DelayS = core.Pick(r, sc.Fudge-1, sc.Fudge, sc.Fudge+1, sc.Fudge+2)
					if op.DelayS < 0 {
						op.DelayS = 0
					}
				}
				sc.Ops = append(sc.Ops, op)
			}
		}
		return sc
	}
	sc.SkewS = core.Pick(r, 0, 0, 0, -1, 1, sc.Fudge-1, sc.Fudge, sc.Fudge+1, -sc.Fudge, -sc.Fudge-1, 65536, 65536+sc.Fudge, 65536-sc.Fudge, 1<<24)
	if core.Chance(r, 6) {
		// signing times centuries ahead (the field has 48 bits): differences that do not fit the usual types for
		// time spans - 2^33 s is the last power of two that fits a count of nanoseconds in 63 bits
		sc.SkewS = core.Pick(r, 1<<33, 1<<34, 1<<34, 1<<40, 1<<47-1<<31) + r.IntN(2*sc.Fudge+1) - sc.Fudge
	}
	n := 1 + r.IntN(4)
	if tier == "thorough" {
		n = 1 + r.IntN(8)
	}
	for i := 0; i < n; i++ {
		sc.Msgs = append(sc.Msgs, *gen.Random(r, core.Pick(r, 0, 2, 6, 12)))
		if core.Chance(r, 5) {
			sc.Msgs[i].Pad = core.Pick(r, 1000, 20000, 60000)
		}
		if sc.Msgs[i].Rcode == 9 {
			sc.Msgs[i].Rcode = 0
		}
	}
	sc.InitialMAC = core.Chance(r, 50)
	sc.TimersFirst = core.Chance(r, 10)
	sc.DefaultTime = core.Chance(r, 12)
	sc.KeyCase = core.Chance(r, 15)
	if !sc.DefaultTime && core.Chance(r, 15) {
		sc.TsigErr = core.Pick(r, 18, 18, 23)
	}
	if sc.DefaultTime {
		sc.SkewS = 0
	}
	if core.Chance(r, 6) {
		sc.Kind, sc.Parallel = "parallel", 2+r.IntN(3)
		return sc
	}
	if core.Chance(r, 5) {
		// a request and a chain of answers written and read message by message through Transfer.WriteMsg / ReadMsg
		sc.Kind, sc.Parallel = "xfrapi", 1+r.IntN(4)
		return sc
	}
	ne := 1 + r.IntN(6)
	for i := 0; i < ne; i++ {
		ev := Event{Msg: r.IntN(n), Fault: "none", Prior: "right", Timers: "right", Key: "right", Time: "now"}
		switch x := r.IntN(100); {
		case x < 20:
		case x < 50:
			ev.Fault, ev.Region, ev.Frac, ev.Bit = "flip", core.Pick(r, regions...), r.IntN(1000), r.IntN(8)
		case x < 57:
			ev.Fault = core.Pick(r, "unsign", "duptsig", "trunc", "sweep", "field", "field", "field", "cutmac", "notlast", "notlast")
			ev.Frac = r.IntN(1000)
			if ev.Fault == "field" {
				// a whole field overwritten with a value a lenient reader might take for "not set"
				ev.Region, ev.Bit = core.Pick(r, "id", "tsig-time", "tsig-fudge", "tsig-origid", "tsig-origid", "tsig-error", "tsig-otherlen"), r.IntN(2)
			}
		case x < 67:
			ev.Prior = core.Pick(r, "none", "other", "stale")
		case x < 72:
			ev.Timers = "flipped"
		case x < 80:
			ev.Key = "wrong"
		default:
			ev.Time = core.Pick(r, "fudge-1", "fudge", "fudge+1", "far")
			if ev.Time == "far" {
				// distances at which truncated or modular arithmetic would fold back into the window
				base := core.Pick(r, int64(86400), 65536, 65536, 131072, 1<<24, 1<<32, 1<<32)
				ev.FarS = base + int64(r.IntN(2*sc.Fudge+3)) - int64(sc.Fudge) - 1
				if ev.FarS <= int64(sc.Fudge) {
					ev.FarS = int64(sc.Fudge) + 1 + int64(r.IntN(1000))
				}
			}
		}
		sc.Events = append(sc.Events, ev)
	}
	if sc.SkewS >= 1<<33-1<<20 {
		// (no waiting for centuries: such messages are judged at the verifier's present)
		for i := range sc.Events {
			sc.Events[i].Time, sc.Events[i].FarS = "now", 0
		}
	}
	return sc
}

func Decode(raw json.RawMessage) (any, error) {
	sc := &Scenario{}
	err := json.Unmarshal(raw, sc)
	return sc, err
}

func Shrink(x any) []any {
	sc := x.(*Scenario)
	var out []any
	cp := func() *Scenario {
		b, _ := json.Marshal(sc)
		n := &Scenario{}
		json.Unmarshal(b, n)
		return n
	}
	for i := range sc.Events {
		if len(sc.Events) > 1 {
			n := cp()
			n.Events = append(n.Events[:i], n.Events[i+1:]...)
			out = append(out, n)
		}
	}
	if len(sc.Msgs) > 1 {
		n := cp()
		last := len(n.Msgs) - 1
		n.Msgs = n.Msgs[:last]
		for i := range n.Events {
			if n.Events[i].Msg >= last {
				n.Events[i].Msg = last - 1
			}
		}
		out = append(out, n)
	}
	for i := range sc.Msgs {
		m := sc.Msgs[i]
		if len(m.Answer)+len(m.Ns)+len(m.Extra) > 0 || m.Pad > 0 || m.EDNS > 0 {
			n := cp()
			n.Msgs[i].Answer, n.Msgs[i].Ns, n.Msgs[i].Extra, n.Msgs[i].Pad, n.Msgs[i].EDNS = nil, nil, nil, 0, 0
			out = append(out, n)
		}
	}
	for i := range sc.Ops {
		n := cp()
		n.Ops = append(n.Ops[:i], n.Ops[i+1:]...)
		out = append(out, n)
	}
	if len(sc.Exch) > 1 && len(sc.Ops) == 0 {
		n := cp()
		n.Exch = n.Exch[:len(n.Exch)-1]
		out = append(out, n)
	}
	num := func(f func(n *Scenario) *int) {
		if *f(sc) != 0 {
			n := cp()
			*f(n) = 0
			out = append(out, n)
		}
	}
	num(func(n *Scenario) *int { return &n.EpochS })
	num(func(n *Scenario) *int { return &n.SkewS })
	num(func(n *Scenario) *int { return &n.SegMode })
	num(func(n *Scenario) *int { return &n.Strategy })
	if sc.InitialMAC {
		n := cp()
		n.InitialMAC = false
		out = append(out, n)
	}
	return out
}

func Run(t *testing.T, scAny any, verbose bool) *core.Result {
	sc := scAny.(*Scenario)
	res := &core.Result{Seed: sc.RunSeed, Verdict: core.OK, Stats: map[string]int{}}
	if sc.Kind == "transfer" {
		x, err := c15.Decode(sc.Xfer)
		if err != nil {
			return &core.Result{Seed: sc.RunSeed, Verdict: core.Harness, Msg: err.Error()}
		}
		res := c15.Run(t, x, verbose)
		res.Class = "transfer/" + res.Class
		res.Bump("cover.transfer_sessions")
		return res
	}
	leak := common.Bubble(t, func() {
		if sc.Kind == "parallel" {
			runParallel(sc, res, verbose)
		} else if sc.Kind == "xfrapi" {
			runXfrAPI(sc, res, verbose)
		} else if sc.Kind == "session" && sc.Transport == "udp" {
			runUDPSession(sc, res, verbose)
		} else if sc.Kind == "session" {
			runSession(sc, res, verbose)
		} else {
			runBare(sc, res, verbose)
		}
	})
	if leak != "" && res.Verdict == core.OK {
		res.Verdict, res.Msg = core.Harness, leak
	}
	return res
}

// ---------------------------------------------------------------- bare API

type signedMsg struct {
	wire   []byte
	mac    string // hex, as returned by TsigGenerate
	prior  string // hex request MAC used for signing
	timers bool
}

// tsigRegions maps region names to octet ranges of a signed message.
func tsigRegions(b []byte) map[string][2]int {
	reg := map[string][2]int{"id": {0, 2}, "header": {2, 4}, "counts": {4, 12}}
	m, err := oracle.Parse(b)
	t, _, ok := oracle.FindTSIG(b)
	if err != nil || !ok || t.Odd || len(m.RRs) == 0 {
		return reg
	}
	rr := m.RRs[len(m.RRs)-1]
	if len(m.Questions) > 0 {
		reg["question"] = [2]int{m.Questions[0].Start, m.Questions[len(m.Questions)-1].End}
	}
	if len(m.RRs) > 1 {
		reg["records"] = [2]int{m.RRs[0].Start, rr.Start}
	}
	reg["tsig-owner"] = [2]int{rr.Start, rr.NameEnd}
	reg["tsig-fixed"] = [2]int{rr.NameEnd, rr.RdStart}
	p := rr.RdStart
	reg["tsig-alg"] = [2]int{p, p + len(t.AlgRaw)}
	p += len(t.AlgRaw)
	reg["tsig-time"] = [2]int{p, p + 6}
	reg["tsig-fudge"] = [2]int{p + 6, p + 8}
	reg["tsig-macsize"] = [2]int{p + 8, p + 10}
	p += 10
	reg["mac"] = [2]int{p, p + len(t.MAC)}
	p += len(t.MAC)
	reg["tsig-origid"] = [2]int{p, p + 2}
	reg["tsig-error"] = [2]int{p + 2, p + 4}
	reg["tsig-otherlen"] = [2]int{p + 4, p + 6}
	return reg
}

func runBare(sc *Scenario, res *core.Result, verbose bool) {
	var hs uint64 = 1469598103934665603
	logf := func(format string, a ...any) {
		s := fmt.Sprintf(format, a...)
		for i := 0; i < len(s); i++ {
			hs ^= uint64(s[i])
			hs *= 1099511628211
		}
		if verbose {
			res.Log = append(res.Log, fmt.Sprintf("@%d %s", time.Now().Unix(), s))
		}
	}
	defer func() { res.Digest = hs }()
	start := time.Now()
	defer func() { res.SimNS = int64(time.Since(start)) }()
	time.Sleep(time.Duration(sc.EpochS) * time.Second)
	signT := time.Now().Unix() + int64(sc.SkewS)
	if signT <= 0 {
		signT = 1
	}
	// the signer: a chain in which each MAC covers the previous one
	prior := ""
	if sc.InitialMAC {
		prior = hex.EncodeToString([]byte("request-mac-0123456789abcdef"))
	}
	var chain []signedMsg
	spell := func(m *dns.Msg) {
		if stub := m.IsTsig(); stub != nil && sc.KeyCase {
			stub.Hdr.Name = "TSIG-Key.eXample."
			res.Bump("cover.key_name_with_capitals")
		}
	}
	for i, rc := range sc.Msgs {
		m := rc.Build()
		unsigned, perr := m.Copy().Pack()
		if perr != nil || len(unsigned) > 65000 {
			logf("message %d does not pack / too large", i)
			break
		}
		timers := i > 0 || sc.TimersFirst
		var out []byte
		var mac string
		var err error
		if sc.DefaultTime {
			// "use the current time": the signer must put the instant it hashed on the wire,
			// however long the provider takes
			m.SetTsig(keyName, sc.Alg, uint16(sc.Fudge), 0)
			signT = time.Now().Unix()
			spell(m)
			out, mac, err = dns.TsigGenerateWithProvider(m, slowHMAC{secretGood, 1200 * time.Millisecond}, prior, timers)
			res.Bump("fault.slow_tsig_provider")
		} else {
			if sc.RunSeed%6 == 2 {
				// the stub is made before the message has its final ID (SetTsig first, then the call that numbers the
				// message; a forwarder that renumbers what it passes on): the TSIG keeps the ID it was made with as
				// the original ID, the message that is signed and sent is the caller's - ID included
				final := m.Id
				m.Id ^= 0x5a5a
				m.SetTsig(keyName, sc.Alg, uint16(sc.Fudge), signT)
				m.Id = final
				res.Bump("fault.stub_made_before_the_final_id")
			} else {
				m.SetTsig(keyName, sc.Alg, uint16(sc.Fudge), signT)
			}
			if sc.TsigErr != 0 && i == 0 && !timers {
				if stub := m.IsTsig(); stub != nil {
					stub.Error = uint16(sc.TsigErr)
					if sc.TsigErr == dns.RcodeBadTime {
						stub.OtherLen, stub.OtherData = 6, fmt.Sprintf("%012x", uint64(signT)+7)
					}
					res.Bump("fault.tsig_error_field_set")
				}
			}
			spell(m)
			out, mac, err = dns.TsigGenerate(m, secretGood, prior, timers)
		}
		res.Bump("oracle.G2_generated_shape")
		if err != nil {
			res.Fail("G2", "generate-failed", "TsigGenerate failed for message %d (%s): %v", i, sc.Alg, err)
			return
		}
		// G2: message || TSIG as last additional record, ARCOUNT + 1
		lay, lerr := oracle.Parse(out)
		ts, _, ok := oracle.FindTSIG(out)
		switch {
		case lerr != nil || !ok || ts.Odd || lay.End != len(out):
			res.Fail("G2", "signed-octets-malformed", "output of TsigGenerate for message %d is not message + TSIG as the last additional record", i)
		case lay.H.AR != int(unsigned[10])<<8+int(unsigned[11])+1:
			res.Fail("G2", "arcount", "ARCOUNT is %d after signing message %d, unsigned message had %d", lay.H.AR, i, int(unsigned[10])<<8+int(unsigned[11]))
		case string(out[:10]) != string(unsigned[:10]) || string(out[12:ts.RRStart]) != string(unsigned[12:]):
			res.Fail("G2", "message-octets-changed", "the octets before the TSIG record differ from the unsigned message %d", i)
		case hex.EncodeToString(ts.MAC) != mac:
			res.Fail("G2", "returned-mac", "TsigGenerate returned a MAC that is not the one in the record (message %d)", i)
		case ts.Class != 255 || ts.TTL != 0 || ts.KeyName != keyName || int(ts.Fudge) != sc.Fudge || (!sc.DefaultTime && ts.Time != uint64(signT)):
			res.Fail("G2", "tsig-fields", "TSIG record of message %d: class %d ttl %d key %s fudge %d time %d", i, ts.Class, ts.TTL, ts.KeyName, ts.Fudge, ts.Time)
		}
		if res.Verdict != core.OK {
			return
		}
		// G2: what was generated is itself RFC 8945-valid for the arguments given (judged at its own signing time)
		pbG, _ := hex.DecodeString(prior)
		if v := oracle.VerifyTSIGCase(out, map[string]string{keyName: secretGood}, pbG, timers, ts.Time, true); v.Judgable && !v.Valid {
			res.Fail("G2", "generated-not-rfc-valid:"+strings.ReplaceAll(v.Reason, " ", "-"), "message %d as signed by TsigGenerate (timers-only=%v, request MAC %d octets) is not RFC 8945-valid: %s", i, timers, len(pbG), v.Reason)
			return
		}
		chain = append(chain, signedMsg{wire: out, mac: mac, prior: prior, timers: timers})
		prior = mac
		logf("signed %d len=%d timers=%v", i, len(out), timers)
	}
	if len(chain) == 0 {
		return
	}
	// deliveries in order of their verification instant
	type planned struct {
		ev Event
		at int64
	}
	var plan []planned
	base := time.Now().Unix()
	for _, ev := range sc.Events {
		if ev.Msg >= len(chain) {
			ev.Msg = len(chain) - 1
		}
		at := base
		switch ev.Time {
		case "fudge-1":
			at = signT + int64(sc.Fudge) - 1
		case "fudge":
			at = signT + int64(sc.Fudge)
		case "fudge+1":
			at = signT + int64(sc.Fudge) + 1
		case "far":
			at = signT + ev.FarS
			if ev.FarS == 0 {
				at = signT + int64(sc.Fudge) + 86400
			}
		}
		plan = append(plan, planned{ev, at})
	}
	sort.SliceStable(plan, func(i, j int) bool { return plan[i].at < plan[j].at })
	for _, p := range plan {
		ev := p.ev
		if now := time.Now().Unix(); p.at > now {
			if p.at-now > 200*365*86400 {
				continue // (not reachable by waiting: a time span of centuries does not fit the clock's arithmetic)
			}
			time.Sleep(time.Duration(p.at-now) * time.Second)
		}
		now := uint64(time.Now().Unix())
		sm := chain[ev.Msg]
		b := append([]byte(nil), sm.wire...)
		desc := ev.Fault
		switch ev.Fault {
		case "flip":
			reg := tsigRegions(b)
			rg, ok := reg[ev.Region]
			if !ok || rg[1] <= rg[0] {
				rg, ev.Region = reg["header"], "header"
			}
			pos := rg[0] + (rg[1]-rg[0])*ev.Frac/1000
			b[pos] ^= 1 << uint(ev.Bit&7)
			desc = fmt.Sprintf("flip %s@%d.%d", ev.Region, pos, ev.Bit&7)
			res.Bump("fault.bitflip_" + ev.Region)
		case "field":
			reg := tsigRegions(b)
			if rg, ok := reg[ev.Region]; ok && rg[1] > rg[0] {
				v := byte(0)
				if ev.Bit&1 == 1 {
					v = 0xff
				}
				for i := rg[0]; i < rg[1]; i++ {
					b[i] = v
				}
				desc = fmt.Sprintf("field %s := %#02x..", ev.Region, v)
				res.Bump("fault.field_overwritten_" + ev.Region)
			}
		case "unsign":
			b = oracle.StripTSIG(b)
			res.Bump("fault.unsigned")
		case "duptsig":
			if t, _, ok := oracle.FindTSIG(b); ok {
				b = append(b, b[t.RRStart:]...)
				ar := int(b[10])<<8 | int(b[11])
				b[10], b[11] = byte((ar+1)>>8), byte(ar+1)
			}
			res.Bump("fault.tsig_duplicated")
		case "trunc":
			k := 12 + (len(b)-12)*ev.Frac/1000
			b = b[:k:k]
			res.Bump("fault.truncated")
		case "notlast":
			// made by somebody who holds the key: a TSIG that is NOT the last record - an OPT follows it -, its MAC
			// computed over the octets in front of it (with the ARCOUNT a reader gets that takes the first TSIG it
			// meets out and stops there). RFC 8945 5.2: a TSIG in any other position than the last - FORMERR.
			if t, _, ok := oracle.FindTSIG(b); ok && !t.Odd {
				p2 := oracle.StripTSIG(b)
				ar := int(p2[10])<<8 | int(p2[11])
				p2[10], p2[11] = byte((ar+1)>>8), byte(ar+1)
				pb, _ := hex.DecodeString(sm.prior)
				c := oracle.SignTSIG(p2, t.KeyName, sc.Alg, secretGood, pb, sm.timers, t.Time, t.Fudge)
				c = append(c, 0, 0, 41, 0x10, 0, 0, 0, 0, 0, 0, 0) // . OPT, payload 4096, no options
				b = c
				desc = "TSIG followed by an OPT record"
				res.Bump("fault.tsig_not_last")
			} else {
				ev.Fault = "none"
			}
		case "cutmac":
			// the message ends right behind the TSIG's MAC size field (or half way through the MAC): the field
			// still announces a full MAC, RDLENGTH says what is there
			if c := oracle.CutBehindMACSize(b, ev.Frac%2 == 1); c != nil {
				b = c
				desc = "cut behind the MAC size field"
				res.Bump("fault.cut_behind_mac_size")
			} else {
				ev.Fault = "none"
			}
		}
		if ev.Fault == "sweep" {
			// every single-bit alteration and every truncation of this message
			// (exhaustive for the message; skipped for large ones)
			if len(sm.wire) <= 700 {
				if !sweepAll(res, sm, now, ev.Msg) {
					return
				}
				res.Bump("fault.exhaustive_sweep")
			}
			continue
		}
		vprior := sm.prior
		switch ev.Prior {
		case "none":
			vprior = ""
		case "other":
			vprior = hex.EncodeToString([]byte("some-other-request-mac-xxxxxxxx"))
		case "stale":
			if ev.Msg > 0 {
				vprior = chain[ev.Msg-1].prior
			} else {
				vprior = sm.mac
			}
		}
		if ev.Prior != "right" && ev.Prior != "" {
			res.Bump("fault.wrong_prior_mac_" + ev.Prior)
		}
		vtimers := sm.timers
		if ev.Timers == "flipped" {
			vtimers = !vtimers
			res.Bump("fault.timers_mode_flipped")
		}
		secret := secretGood
		if ev.Key == "wrong" {
			secret = secretBad
			res.Bump("fault.wrong_secret")
		}
		if ev.Time != "now" {
			res.Bump("fault.time_" + ev.Time)
		}
		// the reference verdict on the delivered octets
		var keyOnWire string
		if t, _, ok := oracle.FindTSIG(b); ok {
			keyOnWire = t.KeyName
		}
		pb, _ := hex.DecodeString(vprior)
		v := oracle.VerifyTSIGCase(b, map[string]string{keyOnWire: secret}, pb, vtimers, now, true)
		lerr, pan := verify(append([]byte(nil), b...), secret, vprior, vtimers)
		if pan != "" {
			res.Fail("V1", "verify-panic", "TsigVerify panicked on %s: %s", desc, pan)
			return
		}
		got := "reject"
		if lerr == nil {
			got = "accept"
		}
		if ev.Fault == "notlast" {
			res.Bump("oracle.V1_invalid_rejected")
			if lerr == nil {
				res.Fail("V1", "invalid-accepted:tsig-not-last", "TsigVerify accepted a message whose TSIG is not the last record of the additional section (an OPT record follows it; the MAC covers the octets in front of the TSIG only): RFC 8945 5.2 wants such a message refused")
				return
			}
			continue
		}
		if ev.Fault == "cutmac" {
			// whatever else is wrong with it: a MAC that is not there cannot equal the one RFC 8945 prescribes
			res.Bump("oracle.V1_invalid_rejected")
			if lerr == nil {
				res.Fail("V1", "invalid-accepted:mac-octets-missing", "TsigVerify accepted a message that ends behind its TSIG's MAC size field (the field says %s's full size, the MAC octets are not there)", sc.Alg)
				return
			}
			continue
		}
		logf("deliver msg %d %s prior=%s timers=%v key=%s t=%s -> %s (ref %v %s)", ev.Msg, desc, ev.Prior, vtimers, ev.Key, ev.Time, got, v.Valid, v.Reason)
		res.Classes = append(res.Classes, fmt.Sprintf("bare/%s/%s/%s/prior=%s/timers=%s/key=%s/t=%s/%s", strings.ToLower(sc.Alg), ev.Fault, ev.Region, ev.Prior, ev.Timers, ev.Key, ev.Time, got))
		if !v.Judgable {
			res.Bump("cover.not_judged:" + v.Reason)
			continue
		}
		if v.Valid {
			res.Bump("oracle.G1_valid_accepted")
			if lerr != nil {
				res.Fail("G1", "valid-rejected:"+classify(lerr), "TsigVerify rejected (%v) octets that are RFC 8945-valid for the key, request MAC, timers-only=%v and time given (%s, message %d of the chain, %s, |now-signed|=%d, fudge %d)", lerr, vtimers, sc.Alg, ev.Msg, desc, absdiff(now, uint64(signT)), sc.Fudge)
				return
			}
		} else {
			res.Bump("oracle.V1_invalid_rejected")
			if v.MAC == nil {
				res.Bump("oracle.V3_no_tsig_rejected")
			}
			if lerr == nil {
				res.Fail("V1", "invalid-accepted:"+strings.ReplaceAll(v.Reason, " ", "-"), "TsigVerify accepted octets that are not RFC 8945-valid: %s (%s, message %d, %s, prior=%s timers=%v key=%s, |now-signed|=%d, fudge %d)", v.Reason, sc.Alg, ev.Msg, desc, ev.Prior, vtimers, ev.Key, absdiff(now, uint64(signT)), sc.Fudge)
				return
			}
		}
		if ev.Time == "fudge-1" || ev.Time == "fudge" || ev.Time == "fudge+1" {
			res.Bump("oracle.V2_time_boundary")
		}
	}
	res.Nontrivial = true
	res.Class = fmt.Sprintf("bare/%s/chain=%d/skew=%s", strings.ToLower(sc.Alg), len(chain), skewClass(sc))
}

// sweepAll compares library and reference verdicts for every one-bit
// alteration and every proper prefix of one signed message, with the
// verifier's arguments as the signer used them.
func sweepAll(res *core.Result, sm signedMsg, now uint64, idx int) bool {
	pb, _ := hex.DecodeString(sm.prior)
	try := func(b []byte, what string) bool {
		var keyOnWire string
		if t, _, ok := oracle.FindTSIG(b); ok {
			keyOnWire = t.KeyName
		}
		v := oracle.VerifyTSIGCase(b, map[string]string{keyOnWire: secretGood}, pb, sm.timers, now, true)
		lerr, pan := verify(append([]byte(nil), b...), secretGood, sm.prior, sm.timers)
		if pan != "" {
			res.Fail("V1", "verify-panic", "TsigVerify panicked on %s of message %d: %s", what, idx, pan)
			return false
		}
		if !v.Judgable {
			return true
		}
		res.Bump("oracle.V1_sweep_positions")
		if v.Valid && lerr != nil {
			res.Fail("G1", "valid-rejected:"+classify(lerr), "TsigVerify rejected (%v) %s of message %d although the result is still RFC 8945-valid", lerr, what, idx)
			return false
		}
		if !v.Valid && lerr == nil {
			res.Fail("V1", "invalid-accepted:"+strings.ReplaceAll(v.Reason, " ", "-"), "TsigVerify accepted %s of message %d (%d octets): %s", what, idx, len(sm.wire), v.Reason)
			return false
		}
		return true
	}
	for p := 0; p < 8*len(sm.wire); p++ {
		b := append([]byte(nil), sm.wire...)
		b[p/8] ^= 1 << uint(p%8)
		if !try(b, fmt.Sprintf("bit %d of octet %d flipped", p%8, p/8)) {
			return false
		}
	}
	for k := 0; k < len(sm.wire); k++ {
		if !try(append([]byte(nil), sm.wire[:k]...), fmt.Sprintf("the first %d octets", k)) {
			return false
		}
	}
	return true
}

func skewClass(sc *Scenario) string {
	switch {
	case sc.SkewS == 0:
		return "0"
	case sc.SkewS > sc.Fudge || -sc.SkewS > sc.Fudge:
		return "beyond"
	case sc.SkewS == sc.Fudge || -sc.SkewS == sc.Fudge:
		return "at"
	}
	return "within"
}

func absdiff(a, b uint64) uint64 {
	if a > b {
		return a - b
	}
	return b - a
}

func classify(err error) string {
	s := err.Error()
	switch {
	case strings.Contains(s, "signature"):
		return "badsig"
	case strings.Contains(s, "time"):
		return "badtime"
	case strings.Contains(s, "secret") || strings.Contains(s, "key"):
		return "badkey"
	}
	return "other"
}

func verify(b []byte, secret, prior string, timers bool) (err error, pan string) {
	defer func() {
		if r := recover(); r != nil {
			pan = fmt.Sprint(r)
		}
	}()
	return dns.TsigVerify(b, secret, prior, timers), ""
}

// slowHMAC is a TsigProvider whose MAC computation takes simulated time.
type slowHMAC struct {
	secret string
	d      time.Duration
}

func (p slowHMAC) Generate(msg []byte, t *dns.TSIG) ([]byte, error) {
	time.Sleep(p.d)
	raw, err := base64.StdEncoding.DecodeString(p.secret)
	if err != nil {
		return nil, err
	}
	m := oracle.HMAC(dns.CanonicalName(t.Algorithm), raw, msg)
	if m == nil {
		return nil, dns.ErrKeyAlg
	}
	return m, nil
}

func (p slowHMAC) Verify(msg []byte, t *dns.TSIG) error {
	m, err := p.Generate(msg, t)
	if err != nil {
		return err
	}
	if hex.EncodeToString(m) != strings.ToLower(t.MAC) {
		return dns.ErrSig
	}
	return nil
}

// --- several signers and verifiers sharing one key and algorithm

type parTask struct {
	k   *kernel.K
	res *core.Result
	sc  *Scenario
	idx int
	fin *int
}

//go:norace
func (p *parTask) RunEvent(time.Time) {
	k := p.k
	// odd-numbered tasks have a key, a secret and an algorithm of their own (a process that talks to several peers)
	key, secret, alg := keyName, secretGood, p.sc.Alg
	if p.idx%2 == 1 && p.sc.RunSeed%2 == 0 {
		key, secret, alg = fmt.Sprintf("key-%d.parallel.test.", p.idx), parSecrets[p.idx%len(parSecrets)], algs[(p.idx+int(p.sc.RunSeed%5))%len(algs)]
	}
	for round := 0; round < 3; round++ {
		m := new(dns.Msg)
		m.SetQuestion(fmt.Sprintf("p%d-r%d.parallel.test.", p.idx, round), dns.TypeTXT)
		m.Id = uint16(900 + p.idx*8 + round)
		m.SetTsig(key, alg, uint16(p.sc.Fudge), time.Now().Unix())
		k.Yield("par.sign", p.idx)
		out, mac, err := dns.TsigGenerate(m, secret, "", false)
		k.Yield("par.verify", p.idx)
		var verr error
		var v oracle.TSIGVerdict
		if err == nil {
			v = oracle.VerifyTSIG(out, map[string]string{key: secret}, nil, false, uint64(time.Now().Unix()))
			verr = dns.TsigVerify(append([]byte(nil), out...), secret, "", false)
		}
		k.Lock()
		p.res.Stats["oracle.G1_parallel_sign_verify"]++
		switch {
		case err != nil:
			p.res.Fail("G2", "generate-failed-concurrent", "TsigGenerate failed while other signers were active: %v", err)
		case !v.Valid && v.Judgable:
			p.res.Fail("G2", "generated-not-rfc-valid-concurrent", "a message signed while %d other signers were active is not RFC 8945-valid (%s, MAC %s)", p.sc.Parallel-1, v.Reason, mac)
		case verr != nil:
			p.res.Fail("G1", "valid-rejected-concurrent", "TsigVerify rejected a valid message while other verifiers were active: %v", verr)
		}
		k.Unlock()
	}
	k.Lock()
	*p.fin++
	k.Unlock()
}

type parDone struct {
	fin *int
	n   int
}

//go:norace
func (d parDone) Check(time.Time) string {
	if *d.fin == d.n {
		return "done"
	}
	return ""
}

//go:norace
func runParallel(sc *Scenario, res *core.Result, verbose bool) {
	k := kernel.New(kernel.Config{Seed: sc.RunSeed, Strategy: int(sc.RunSeed % kernel.NumStrats), PCTDepth: 2, PCTSpan: 40, Verbose: verbose, MaxSteps: 5000})
	kernel.SetCurrent(k)
	defer kernel.SetCurrent(nil)
	fin := 0
	for i := 0; i < sc.Parallel; i++ {
		k.Go("par"+strconv.Itoa(i), &parTask{k: k, res: res, sc: sc, idx: i, fin: &fin})
	}
	out := k.Run(parDone{&fin, sc.Parallel})
	res.Steps, res.Digest = k.Steps, k.Digest()
	if verbose {
		res.Log = k.Log
	}
	k.Abort()
	if out != kernel.Finished && res.Verdict == core.OK {
		res.Verdict, res.Msg = core.Harness, "parallel TSIG run ended with "+out
	}
	res.Nontrivial = true
	res.Class = fmt.Sprintf("parallel/%s/n=%d", strings.ToLower(sc.Alg), sc.Parallel)
}

// ---------------------------------------------------------------- Transfer.WriteMsg / ReadMsg

// xfrAPI: one party writes a signed request with Transfer.WriteMsg, the other reads it with Transfer.ReadMsg and
// writes n signed answers, which the first reads one by one. Every message on the wire must be RFC 8945-valid for
// the MAC of the message before it (none for the request), and every ReadMsg must accept.
type xfrAPI struct {
	k      *kernel.K
	sc     *Scenario
	res    *core.Result
	a, b   *simnet.StreamConn
	fin    int
	server bool
}

//go:norace
func (x *xfrAPI) RunEvent(time.Time) {
	k, sc := x.k, x.sc
	keys := map[string]string{keyName: secretGood}
	n := sc.Parallel
	fail := func(o, sig, f string, a ...any) {
		k.Lock()
		x.res.Fail(o, sig, f, a...)
		k.Unlock()
	}
	defer func() {
		k.Lock()
		x.fin++
		k.Unlock()
	}()
	if !x.server {
		t := &dns.Transfer{Conn: &dns.Conn{Conn: x.a}, TsigSecret: keys}
		x.a.SetDeadline(time.Now().Add(time.Minute))
		q := new(dns.Msg)
		q.SetQuestion("chain.api.test.", dns.TypeSOA)
		q.Id = 4242
		q.SetTsig(keyName, sc.Alg, uint16(sc.Fudge), time.Now().Unix())
		if err := t.WriteMsg(q); err != nil {
			fail("G2", "transfer-writemsg-failed", "Transfer.WriteMsg of a signed request failed: %v", err)
			return
		}
		for i := 0; i < n; i++ {
			_, err := t.ReadMsg()
			k.Lock()
			x.res.Stats["oracle.G1_transfer_readmsg"]++
			k.Unlock()
			if err != nil {
				fail("G1", "transfer-readmsg-rejected", "Transfer.ReadMsg rejected answer %d of a chain written with Transfer.WriteMsg by the peer, each message covering the MAC of the one before: %v", i+1, err)
				return
			}
		}
		return
	}
	t := &dns.Transfer{Conn: &dns.Conn{Conn: x.b}, TsigSecret: keys}
	x.b.SetDeadline(time.Now().Add(time.Minute))
	q, err := t.ReadMsg()
	if err != nil {
		fail("G1", "transfer-readmsg-rejected", "Transfer.ReadMsg rejected a request signed by Transfer.WriteMsg: %v", err)
		return
	}
	for i := 0; i < n; i++ {
		r := new(dns.Msg)
		r.SetReply(q)
		r.Answer = append(r.Answer, &dns.TXT{Hdr: dns.RR_Header{Name: q.Question[0].Name, Rrtype: dns.TypeTXT, Class: dns.ClassINET, Ttl: 1}, Txt: []string{"answer " + strconv.Itoa(i)}})
		r.SetTsig(keyName, sc.Alg, uint16(sc.Fudge), time.Now().Unix())
		k.Yield("xfrapi.write", i)
		if err := t.WriteMsg(r); err != nil {
			fail("G2", "transfer-writemsg-failed", "Transfer.WriteMsg of signed answer %d failed: %v", i+1, err)
			return
		}
	}
}

type xfrAPIDone struct{ fin *int }

//go:norace
func (d xfrAPIDone) Check(time.Time) string {
	if *d.fin == 2 {
		return "done"
	}
	return ""
}

//go:norace
func runXfrAPI(sc *Scenario, res *core.Result, verbose bool) {
	k := kernel.New(kernel.Config{Seed: sc.RunSeed, Strategy: int(sc.RunSeed % kernel.NumStrats), PCTDepth: 2, PCTSpan: 40, Verbose: verbose, MaxSteps: 5000})
	kernel.SetCurrent(k)
	defer kernel.SetCurrent(nil)
	n := simnet.New(k)
	n.Stream = simnet.StreamLink{MinDelay: time.Millisecond, Jitter: time.Millisecond, SegMode: int(sc.RunSeed % 3)}
	a, b := n.Pair(true)
	cli := &xfrAPI{k: k, sc: sc, res: res, a: a, b: b}
	srv := &xfrAPI{k: k, sc: sc, res: res, a: a, b: b, server: true}
	fin := 0
	k.Go("xfrapi-a", xfrAPIShare{cli, &fin})
	k.Go("xfrapi-b", xfrAPIShare{srv, &fin})
	out := k.Run(xfrAPIDone{&fin})
	res.Steps, res.Digest = k.Steps, k.Digest()
	if verbose {
		res.Log = k.Log
	}
	defer k.Abort()
	if out != kernel.Finished && res.Verdict == core.OK {
		res.Verdict, res.Msg = core.Harness, "Transfer API run ended with "+out
		return
	}
	// G2: what was put on the wire is an RFC 8945 chain
	reqs, _ := oracle.Frames(a.Sent())
	reps, _ := oracle.Frames(b.Sent())
	var prior []byte
	for i, f := range append(append([][]byte{}, reqs...), reps...) {
		v := oracle.VerifyTSIG(f, map[string]string{keyName: secretGood}, prior, false, uint64(time.Now().Unix()))
		res.Bump("oracle.G2_transfer_writemsg_chain")
		if v.Judgable && !v.Valid && res.Verdict == core.OK {
			res.Fail("G2", "transfer-writemsg-chain:"+strings.ReplaceAll(v.Reason, " ", "-"), "message %d of a conversation written with Transfer.WriteMsg (request, then %d answers) is not RFC 8945-valid for the MAC of the message before it: %s", i+1, sc.Parallel, v.Reason)
		}
		prior = v.MAC
	}
	res.Nontrivial = true
	res.Class = fmt.Sprintf("xfrapi/%s/n=%d", strings.ToLower(sc.Alg), sc.Parallel)
}

// xfrAPIShare runs one party and counts it as finished.
type xfrAPIShare struct {
	x   *xfrAPI
	fin *int
}

//go:norace
func (s xfrAPIShare) RunEvent(t time.Time) {
	s.x.RunEvent(t)
	s.x.k.Lock()
	*s.fin++
	s.x.k.Unlock()
}

// ---------------------------------------------------------------- sessions

type srvSeen struct {
	id     uint16
	status string
	hasSig bool
	t      time.Time
}

type cliSeen struct {
	conn   int // index of the connection (relay) the exchange used
	frame  int // index of the message it read on that connection
	id     uint16
	err    string
	got    bool
	hasSig bool
	t      time.Time
}

type sess struct {
	sc       *Scenario
	k        *kernel.K
	n        *simnet.Net
	res      *core.Result
	srv      *dns.Server
	l        *simnet.Listener
	relays   []*common.Relay
	srvSeen  []srvSeen
	cliSeen  []cliSeen
	cliFin   bool
	udpFin   int
	pc       *simnet.PacketConn
	serveRet bool
}

//go:norace
func (s *sess) ServeDNS(w dns.ResponseWriter, r *dns.Msg) {
	st := w.TsigStatus()
	s.k.Lock()
	s.srvSeen = append(s.srvSeen, srvSeen{id: r.Id, status: common.ErrStr(st), hasSig: r.IsTsig() != nil, t: time.Now()})
	s.k.EffectLocked("srv " + strconv.Itoa(int(r.Id)) + " " + common.ErrStr(st))
	s.k.Unlock()
	if len(r.Question) == 1 && r.Question[0].Qtype == dns.TypeAXFR {
		// a zone transfer on this connection: Transfer.Out switches the writer to timers-only signing
		z := r.Question[0].Name
		soa := &dns.SOA{Hdr: dns.RR_Header{Name: z, Rrtype: dns.TypeSOA, Class: dns.ClassINET, Ttl: 60}, Ns: "ns." + z, Mbox: "h." + z, Serial: 7, Refresh: 1, Retry: 1, Expire: 1, Minttl: 1}
		a := &dns.A{Hdr: dns.RR_Header{Name: "a." + z, Rrtype: dns.TypeA, Class: dns.ClassINET, Ttl: 60}, A: []byte{192, 0, 2, 1}}
		ch := make(chan *dns.Envelope, 2)
		ch <- &dns.Envelope{RR: []dns.RR{soa, a}}
		ch <- &dns.Envelope{RR: []dns.RR{a, soa}}
		close(ch)
		new(dns.Transfer).Out(w, r, ch)
		return
	}
	m := new(dns.Msg)
	m.SetReply(r)
	if ts := r.IsTsig(); ts != nil && st == nil {
		m.SetTsig(ts.Hdr.Name, ts.Algorithm, ts.Fudge, time.Now().Unix())
	} else if ts != nil && st == dns.ErrTime {
		// RFC 8945 5.2.3: a correctly signed request outside the time window is answered
		// NOTAUTH / BADTIME, signed, with the client's time repeated and the server's in other data
		m.Rcode = dns.RcodeNotAuth
		m.SetTsig(ts.Hdr.Name, ts.Algorithm, ts.Fudge, int64(ts.TimeSigned))
		if stub := m.IsTsig(); stub != nil {
			stub.Error = dns.RcodeBadTime
			stub.OtherLen, stub.OtherData = 6, fmt.Sprintf("%012x", uint64(time.Now().Unix()))
		}
		s.k.Bump("probe.badtime_reply_signed")
	}
	if ts := r.IsTsig(); ts != nil && st == nil && s.sc.RunSeed%4 == 1 && r.Id%2 == 0 {
		// the handler's first attempt at an answer cannot be packed (an owner name that is not fully
		// qualified): WriteMsg reports that, and the handler then answers properly. What went wrong with the
		// first attempt is no business of the second: it is the answer to the same request
		bad := new(dns.Msg)
		bad.SetReply(r)
		bad.Answer = append(bad.Answer, &dns.MX{Hdr: dns.RR_Header{Name: "not-qualified", Rrtype: dns.TypeMX, Class: dns.ClassINET, Ttl: 60}, Preference: 10, Mx: "mail"})
		bad.SetTsig(ts.Hdr.Name, ts.Algorithm, ts.Fudge, time.Now().Unix())
		if err := w.WriteMsg(bad); err != nil {
			s.k.Bump("fault.first_reply_cannot_be_packed")
		}
	}
	if s.sc.Async && s.sc.Transport == "udp" {
		s.k.Go("async-reply", &lateReply{s.k, w, m, 1 + int(r.Id%3)})
		s.k.Bump("probe.reply_after_handler_returned")
		return
	}
	w.WriteMsg(m)
}

// lateReply writes a handler's answer after the handler has returned.
type lateReply struct {
	k     *kernel.K
	w     dns.ResponseWriter
	m     *dns.Msg
	steps int
}

//go:norace
func (l *lateReply) RunEvent(time.Time) {
	l.k.WaitSteps("async.steps", l.steps, time.Millisecond)
	l.w.WriteMsg(l.m)
}

type sessClient struct{ s *sess }

//go:norace
func (c *sessClient) RunEvent(time.Time) {
	s, k, sc := c.s, c.s.k, c.s.sc
	defer func() {
		k.Announce()
		k.Lock()
		s.cliFin = true
		k.Unlock()
	}()
	var co *dns.Conn
	reads := 0 // messages consumed on the current connection
	dial := func() {
		cli, relayC := s.n.Pair(false)
		relayS := s.n.Dial(s.l, false)
		r := &common.Relay{K: k, ToClient: relayC, ToServer: relayS, WrongSecret: secretBad, RightSecret: secretGood, KeyName: keyName, Alg: sc.Alg}
		if len(s.relays) == 0 {
			r.Ops = sc.Ops // the fault plan applies to the first connection
		}
		r.Start()
		k.Lock()
		s.relays = append(s.relays, r)
		k.Unlock()
		co = &dns.Conn{Conn: cli}
		reads = 0
	}
	maxDelay := 0
	for _, op := range sc.Ops {
		if op.DelayS > maxDelay {
			maxDelay = op.DelayS
		}
	}
	for i, e := range sc.Exch {
		if co == nil || !e.Reuse {
			if co != nil {
				co.Close()
			}
			dial()
		} else if i > 0 && (sc.Exch[i-1].Xfr || e.Fresh) {
			co = &dns.Conn{Conn: co.Conn} // same stream, fresh client-side TSIG state
		}
		m := e.Recipe.Build()
		if e.Xfr {
			m = new(dns.Msg)
			m.SetAxfr("xfr.session.test.")
			m.Id = e.Recipe.ID
		}
		if e.Signed {
			m.SetTsig(keyName, sc.Alg, uint16(sc.Fudge), max(time.Now().Unix()+int64(sc.SkewS)+int64(e.SkewS), 1))
			if e.SkewS != 0 {
				k.Bump("fault.request_stamped_off_clock")
			}
		}
		cl := &dns.Client{Net: "tcp", Timeout: time.Duration(maxDelay+30) * time.Second, TsigSecret: map[string]string{keyName: secretGood}}
		if sc.Provider&1 != 0 {
			cl.TsigSecret, cl.TsigProvider = nil, &yieldProvider{k: k, secrets: map[string]string{keyName: secretGood}}
		}
		if e.Xfr {
			// send the request, then take the two envelopes off the stream undecoded
			// (the oracle judges them from the middlebox's record)
			co.TsigSecret, co.TsigProvider = cl.TsigSecret, cl.TsigProvider
			co.SetDeadline(time.Now().Add(cl.Timeout))
			werr := co.WriteMsg(m)
			n := 0
			for ; werr == nil && n < 2; n++ {
				if _, rerr := co.ReadMsgHeader(nil); rerr != nil {
					werr = rerr
					break
				}
			}
			reads += n
			k.Lock()
			k.EffectLocked("cli xfr " + strconv.Itoa(n))
			k.Unlock()
			if werr != nil {
				co.Close()
				co = nil
			}
			continue
		}
		var r *dns.Msg
		var err error
		seenAt := time.Time{}
		if sc.Split && len(sc.Ops) == 0 {
			// the reply is read by another task, which is waiting before the query goes out
			// (on a link that delivers every message once and in order: a reader that finds an old message
			// while the writer is still signing the next query would share the connection's TSIG state
			// with it unsynchronised - a caller's mistake, not the library's)
			co.TsigSecret, co.TsigProvider = cl.TsigSecret, cl.TsigProvider
			co.SetDeadline(time.Now().Add(cl.Timeout))
			rd := &sessReader{s: s, co: co}
			k.Go("reader"+strconv.Itoa(i), rd)
			werr := co.WriteMsg(m)
			k.Wait("cli.reader", 0, rd, 0)
			r, err, seenAt = rd.r, rd.err, rd.t
			if err == nil && r != nil && r.Id != m.Id {
				err = dns.ErrId
			}
			if werr != nil {
				r, err = nil, werr
			}
			k.Bump("cover.reply_read_by_another_task")
		} else {
			r, _, err = cl.ExchangeWithConn(m, co)
		}
		if seenAt.IsZero() {
			seenAt = time.Now()
		}
		cs := cliSeen{conn: len(s.relays) - 1, frame: reads, id: m.Id, err: common.ErrStr(err), got: r != nil, t: seenAt}
		if r != nil {
			cs.hasSig = r.IsTsig() != nil
			reads++ // one message of the stream was consumed
		}
		k.Lock()
		s.cliSeen = append(s.cliSeen, cs)
		k.EffectLocked("cli " + strconv.Itoa(i) + " " + cs.err)
		k.Unlock()
		if err != nil && (strings.Contains(cs.err, "timeout") || strings.Contains(cs.err, "EOF") || strings.Contains(cs.err, "closed")) {
			co.Close()
			co = nil
		}
	}
	if co != nil {
		co.Close()
	}
}

// sessReader reads one message from the client's connection (Scenario.Split).
type sessReader struct {
	s    *sess
	co   *dns.Conn
	r    *dns.Msg
	err  error
	t    time.Time
	done bool
}

//go:norace
func (x *sessReader) RunEvent(time.Time) {
	r, err := x.co.ReadMsg()
	x.s.k.Announce()
	x.s.k.Lock()
	x.r, x.err, x.t, x.done = r, err, time.Now(), true
	x.s.k.Unlock()
}

//go:norace
func (x *sessReader) Holds() bool { return x.done }

type sessServe struct{ s *sess }

//go:norace
func (x sessServe) RunEvent(time.Time) {
	x.s.srv.ActivateAndServe()
	x.s.k.Lock()
	x.s.serveRet = true
	x.s.k.Unlock()
}

type sessCliDone struct{ s *sess }

//go:norace
func (x sessCliDone) Holds() bool { return x.s.cliFin }

type sessLife struct{ s *sess }

//go:norace
func (x sessLife) RunEvent(time.Time) {
	s := x.s
	s.k.Wait("life.wait", 0, sessCliDone{s}, 0)
	s.k.Sleep("life.grace", time.Second)
	for i := 0; i < 100; i++ {
		if s.srv.Shutdown() == nil {
			break
		}
		s.k.Sleep("life.retry", time.Millisecond)
	}
}

type sessDone struct{ s *sess }

//go:norace
func (x sessDone) Check(time.Time) string {
	if x.s.cliFin && x.s.serveRet {
		return "done"
	}
	return ""
}

//go:norace
func runSession(sc *Scenario, res *core.Result, verbose bool) {
	time.Sleep(time.Duration(sc.EpochS) * time.Second)
	k := kernel.New(kernel.Config{Seed: sc.RunSeed, Strategy: sc.Strategy, PCTDepth: 2, PCTSpan: 200, Verbose: verbose, MaxSteps: 60000})
	kernel.SetCurrent(k)
	defer kernel.SetCurrent(nil)
	n := simnet.New(k)
	n.Stream = simnet.StreamLink{MinDelay: time.Millisecond, Jitter: time.Millisecond, SegMode: sc.SegMode}
	n.StallWrites, n.StallMaxMs = sc.Stall, 50
	s := &sess{sc: sc, k: k, n: n, res: res}
	s.l = n.Listen()
	s.srv = &dns.Server{Listener: s.l, Handler: s, ReadTimeout: time.Hour, IdleTimeout: hourIdle}
	switch sc.ServerKey {
	case "right", "":
		s.srv.TsigSecret = map[string]string{keyName: secretGood}
	case "wrong":
		s.srv.TsigSecret = map[string]string{keyName: secretBad}
	case "empty":
		// TSIG is switched on, no key is held (the last one was revoked, say): nothing can verify
		s.srv.TsigSecret = map[string]string{}
	}
	if sc.Provider&2 != 0 && s.srv.TsigSecret != nil {
		s.srv.TsigProvider, s.srv.TsigSecret = &yieldProvider{k: k, secrets: s.srv.TsigSecret}, nil
		res.Bump("cover.server_tsig_provider")
	}
	start0 := time.Now()
	k.Go("serve", sessServe{s})
	k.Go("client", &sessClient{s})
	k.Go("life", sessLife{s})
	out := k.Run(sessDone{s})
	res.Steps = k.Steps
	res.SimNS = int64(time.Since(start0))
	res.Digest = k.Digest()
	for name, v := range k.Stats {
		res.Stats[name] += v
	}
	if verbose {
		res.Log = k.Log
	}
	defer k.Abort()
	switch out {
	case kernel.StepCap:
		res.Verdict, res.Msg = core.Harness, "step cap reached"
		return
	case kernel.Quiescent:
		res.Fail("V1", "session-stuck", "the session cannot make progress: parked %v", k.Parked())
		return
	}
	s.judge()
}

//go:norace
func hourIdle() time.Duration { return time.Hour }

//go:norace
func (s *sess) judge() {
	res, sc := s.res, s.sc
	srvSecrets := map[string]string{}
	switch sc.ServerKey {
	case "right", "":
		srvSecrets[keyName] = secretGood
	case "wrong":
		srvSecrets[keyName] = secretBad
	}
	cliSecrets := map[string]string{keyName: secretGood}
	// request MACs as the client's connection generated them, by message ID and connection
	type key struct {
		conn int
		id   uint16
	}
	reqMAC := map[key][]byte{}
	for ci, r := range s.relays {
		for _, f := range r.In["c2s"] {
			if t, _, ok := oracle.FindTSIG(f); ok && len(f) >= 2 {
				reqMAC[key{ci, uint16(f[0])<<8 | uint16(f[1])}] = t.MAC
			}
		}
	}
	// server side: one verdict per delivered request that reached the handler
	used := map[int]bool{}
	for ci, r := range s.relays {
		for _, f := range r.Out["c2s"] {
			if len(f) < 12 {
				continue
			}
			id := uint16(f[0])<<8 | uint16(f[1])
			_, _, has := oracle.FindTSIG(f)
			// the handler invocation for this frame
			var seen *srvSeen
			for j := range s.srvSeen {
				if !used[j] && s.srvSeen[j].id == id {
					seen, used[j] = &s.srvSeen[j], true
					break
				}
			}
			if seen == nil || !has {
				continue
			}
			if sc.ServerKey == "none" {
				// no provider configured: the server does not look at TSIG at all
				if seen.status != "" {
					res.Fail("V1", "status-without-provider", "TsigStatus is %q on a server without secrets", seen.status)
					return
				}
				continue
			}
			v := oracle.VerifyTSIG(f, srvSecrets, nil, false, uint64(seen.t.Unix()))
			res.Classes = append(res.Classes, fmt.Sprintf("session/server/%s/conn%d/valid=%v/%s/status=%v", strings.ToLower(sc.Alg), min(ci, 1), v.Valid, strings.ReplaceAll(v.Reason, " ", "-"), seen.status == ""))
			if !v.Judgable {
				res.Bump("cover.not_judged:" + v.Reason)
				continue
			}
			if v.Valid {
				res.Bump("oracle.G1_valid_accepted")
				if seen.status != "" {
					res.Fail("G1", "server-valid-rejected", "the server reported TsigStatus %q for a request (id %d) that is RFC 8945-valid under its key at that instant", seen.status, id)
					return
				}
			} else {
				res.Bump("oracle.V1_invalid_rejected")
				if seen.status == "" {
					res.Fail("V1", "server-invalid-accepted:"+strings.ReplaceAll(v.Reason, " ", "-"), "the server reported a nil TsigStatus for a request (id %d) that is not RFC 8945-valid: %s", id, v.Reason)
					return
				}
			}
		}
	}
	// G3: what the server's session state makes it write. For a request it
	// verified, every signed reply must be RFC 8945-valid for the MAC of that
	// request (first message) or of its previous envelope, timers-only from the
	// second envelope of a transfer on.
	if len(srvSecrets) > 0 {
		for _, r := range s.relays {
			reqByID := map[uint16][]byte{}
			ambiguous := false
			for _, f := range r.Out["c2s"] {
				if len(f) >= 12 {
					id := uint16(f[0])<<8 | uint16(f[1])
					if _, dup := reqByID[id]; dup {
						ambiguous = true // duplicated request or an ID rewritten in flight: replies cannot be attributed by ID
					}
					reqByID[id] = f
				}
			}
			if ambiguous {
				continue
			}
			prev := map[uint16][]byte{} // id -> MAC of the previous envelope of a transfer
			nth := map[uint16]int{}     // id -> envelopes seen (every transfer of these sessions has two)
			for _, f := range r.In["s2c"] {
				if len(f) < 12 {
					continue
				}
				id := uint16(f[0])<<8 | uint16(f[1])
				ts, _, has := oracle.FindTSIG(f)
				req := reqByID[id]
				if !has || req == nil {
					continue
				}
				rt, _, rhas := oracle.FindTSIG(req)
				if !rhas {
					continue
				}
				accepted, stale := false, false
				for _, sv := range s.srvSeen {
					if sv.id == id && sv.status == "" && sv.hasSig {
						accepted = true
					}
					if sv.id == id && sv.status == dns.ErrTime.Error() && sv.hasSig {
						stale = true
					}
				}
				if stale && !accepted && ts.Error == 18 {
					// the BADTIME answer to a stale but correctly signed request is signed over that request's MAC
					if ok, judgable := oracle.MACMatches(f, srvSecrets[ts.KeyName], rt.MAC, false); judgable {
						res.Bump("oracle.G3_badtime_reply_covers_request_mac")
						if !ok {
							res.Fail("G3", "badtime-reply-mac", "the server answered the stale request id %d with a signed BADTIME reply whose MAC is not the RFC 8945 HMAC over that request's MAC and the reply", id)
							return
						}
					}
					continue
				}
				if !accepted {
					continue
				}
				isXfr := false
				if lay, err := oracle.Parse(req); err == nil && len(lay.Questions) == 1 && lay.Questions[0].Type == 252 {
					isXfr = true
				}
				prior, timers := rt.MAC, false
				if p, ok := prev[id]; ok && isXfr && nth[id]%2 == 1 {
					prior, timers = p, true
				}
				nth[id]++
				v := oracle.VerifyTSIG(f, srvSecrets, prior, timers, ts.Time)
				if isXfr {
					prev[id] = ts.MAC
				}
				if !v.Judgable {
					continue
				}
				res.Bump("oracle.G3_server_session_output")
				if !v.Valid {
					res.Fail("G3", "server-session-output-invalid", "the server verified request id %d and signed a reply that is not RFC 8945-valid for that request's MAC with timers-only=%v (%s): its per-connection TSIG state is wrong", id, timers, v.Reason)
					return
				}
			}
		}
	}
	// client side: one verdict per signed reply the client read
	for _, cs := range s.cliSeen {
		if !cs.got {
			continue
		}
		// the message this exchange read: the cs.frame-th one delivered on its connection
		if cs.conn >= len(s.relays) || cs.frame >= len(s.relays[cs.conn].Out["s2c"]) {
			continue
		}
		ci := cs.conn
		f := s.relays[ci].Out["s2c"][cs.frame]
		if len(f) < 12 || uint16(f[0])<<8|uint16(f[1]) != cs.id {
			continue // a stale or foreign-ID message: the ID rule is C12's subject
		}
		if _, _, has := oracle.FindTSIG(f); !has {
			continue // an unsigned reply is not verified by ReadMsg; left to the caller by the API
		}
		prior, ok := reqMAC[key{ci, cs.id}]
		if !ok {
			continue
		}
		v := oracle.VerifyTSIG(f, cliSecrets, prior, false, uint64(cs.t.Unix()))
		res.Classes = append(res.Classes, fmt.Sprintf("session/client/%s/valid=%v/%s/err=%v", strings.ToLower(sc.Alg), v.Valid, strings.ReplaceAll(v.Reason, " ", "-"), cs.err != ""))
		if !v.Judgable {
			res.Bump("cover.not_judged:" + v.Reason)
			continue
		}
		if v.Valid {
			res.Bump("oracle.G1_valid_accepted")
			if cs.err != "" {
				res.Fail("G1", "client-valid-rejected", "the client got %q for a reply (id %d) that is RFC 8945-valid for the MAC of the request it sent", cs.err, cs.id)
				return
			}
		} else {
			res.Bump("oracle.V1_invalid_rejected")
			if cs.err == "" {
				res.Fail("V1", "client-invalid-accepted:"+strings.ReplaceAll(v.Reason, " ", "-"), "the client accepted a signed reply (id %d) that is not RFC 8945-valid for the MAC of the request it sent: %s", cs.id, v.Reason)
				return
			}
		}
	}
	for _, r := range s.relays {
		for k, v := range r.Fired {
			_ = k
			_ = v
		}
	}
	res.Nontrivial = len(s.cliSeen) > 0
	res.Class = fmt.Sprintf("session/%s/%s/exch=%d/ops=%d/srvkey=%s", core.Mode, strings.ToLower(sc.Alg), len(sc.Exch), len(sc.Ops), sc.ServerKey)
}

// ---------------------------------------------------------------- datagram sessions

// yieldProvider is a TsigProvider with a scheduling point inside Verify (a
// provider that looks keys up in a store would block there); the MAC itself
// is computed with crypto/hmac.
type yieldProvider struct {
	k       *kernel.K
	secrets map[string]string
	slowUs  int // > 0: a verification takes up to this many microseconds of simulated time (a remote key store), so other datagrams arrive meanwhile
}

//go:norace
func (p *yieldProvider) mac(msg []byte, t *dns.TSIG) ([]byte, error) {
	sec, ok := p.secrets[t.Hdr.Name]
	if !ok {
		return nil, dns.ErrSecret
	}
	raw, err := base64.StdEncoding.DecodeString(sec)
	if err != nil {
		return nil, err
	}
	m := oracle.HMAC(dns.CanonicalName(t.Algorithm), raw, msg)
	if m == nil {
		return nil, dns.ErrKeyAlg
	}
	return m, nil
}

//go:norace
func (p *yieldProvider) Generate(msg []byte, t *dns.TSIG) ([]byte, error) { return p.mac(msg, t) }

//go:norace
func (p *yieldProvider) Verify(msg []byte, t *dns.TSIG) error {
	p.k.Yield("tsig.provider.verify", 0)
	if p.slowUs > 0 {
		p.k.Lock()
		d := time.Duration(p.k.Env.IntN(p.slowUs)) * time.Microsecond
		p.k.BumpLocked("fault.slow_tsig_provider")
		p.k.Unlock()
		p.k.Sleep("tsig.provider.slow", d)
	}
	m, err := p.mac(msg, t)
	if err != nil {
		return err
	}
	if hex.EncodeToString(m) != strings.ToLower(t.MAC) {
		return dns.ErrSig
	}
	return nil
}

type udpClient struct {
	s  *sess
	ci int
}

//go:norace
func (c *udpClient) RunEvent(time.Time) {
	s, k, sc := c.s, c.s.k, c.s.sc
	defer func() {
		k.Announce()
		k.Lock()
		s.udpFin++
		if s.udpFin == sc.Clients {
			s.cliFin = true
		}
		k.Unlock()
	}()
	d := s.n.DialPacket(s.pc)
	co := &dns.Conn{Conn: d}
	if sc.Burst {
		// everything goes out first; the replies are taken off the socket
		// undecoded (the server's verdicts are what is judged)
		sent := 0
		for i, e := range sc.Exch {
			m := e.Recipe.Build()
			m.Id = uint16(300 + c.ci*16 + i)
			m.Question[0].Name = fmt.Sprintf("x%d.c%d.session.test.", i, c.ci)
			if e.Signed {
				m.SetTsig(keyName, sc.Alg, uint16(sc.Fudge), time.Now().Unix())
			}
			w := &dns.Conn{Conn: d, TsigSecret: map[string]string{keyName: secretGood}}
			if w.WriteMsg(m) == nil {
				sent++
			}
		}
		d.SetDeadline(time.Now().Add(10 * time.Second))
		buf := make([]byte, 4096)
		for i := 0; i < sent; i++ {
			if _, err := d.Read(buf); err != nil {
				break
			}
		}
		return
	}
	for i, e := range sc.Exch {
		m := e.Recipe.Build()
		m.Id = uint16(300 + c.ci*16 + i)
		m.Question[0].Name = fmt.Sprintf("x%d.c%d.session.test.", i, c.ci)
		if e.Signed {
			m.SetTsig(keyName, sc.Alg, uint16(sc.Fudge), time.Now().Unix())
		}
		if !e.Reuse {
			co = &dns.Conn{Conn: d}
		}
		cl := &dns.Client{Timeout: 30 * time.Second, UDPSize: 4096, TsigSecret: map[string]string{keyName: secretGood}}
		if sc.Stray && e.Signed {
			// somebody else's signed answer, on its way to this socket before the one that is asked for now
			f := new(dns.Msg)
			f.SetQuestion("stray.session.test.", dns.TypeTXT)
			f.Id, f.Response = m.Id^0x4000, true
			f.Extra = append(f.Extra, &dns.TSIG{Hdr: dns.RR_Header{Name: keyName, Rrtype: dns.TypeTSIG, Class: dns.ClassANY}, Algorithm: sc.Alg, TimeSigned: uint64(time.Now().Unix()), Fudge: 300,
				MACSize: 32, MAC: strings.Repeat("5a", 32), OrigId: f.Id})
			if b, perr := f.Pack(); perr == nil {
				k.Lock()
				s.n.InjectToClient(d, b, 0)
				k.BumpLocked("fault.stray_signed_datagram_before_answer")
				k.Unlock()
			}
		}
		r, _, err := cl.ExchangeWithConn(m, co)
		cs := cliSeen{conn: c.ci, id: m.Id, err: common.ErrStr(err), got: r != nil, t: time.Now()}
		k.Lock()
		s.cliSeen = append(s.cliSeen, cs)
		k.EffectLocked("cli " + strconv.Itoa(int(m.Id)) + " " + cs.err)
		k.Unlock()
	}
}

//go:norace
func runUDPSession(sc *Scenario, res *core.Result, verbose bool) {
	time.Sleep(time.Duration(sc.EpochS) * time.Second)
	k := kernel.New(kernel.Config{Seed: sc.RunSeed, Strategy: sc.Strategy, PCTDepth: 2, PCTSpan: 120, Verbose: verbose, MaxSteps: 60000})
	kernel.SetCurrent(k)
	defer kernel.SetCurrent(nil)
	n := simnet.New(k)
	n.Dgram = simnet.DgramLink{MinDelay: time.Millisecond, Jitter: time.Duration(sc.RunSeed%3) * time.Millisecond}
	s := &sess{sc: sc, k: k, n: n, res: res}
	s.pc = n.ListenPacket()
	srvSecrets := map[string]string{}
	switch sc.ServerKey {
	case "right", "":
		srvSecrets[keyName] = secretGood
	case "wrong":
		srvSecrets[keyName] = secretBad
	}
	s.srv = &dns.Server{PacketConn: s.pc, Handler: s, ReadTimeout: time.Hour, UDPSize: 512}
	if sc.ServerKey == "empty" {
		s.srv.TsigSecret = map[string]string{}
	}
	if len(srvSecrets) > 0 {
		s.srv.TsigProvider = &yieldProvider{k: k, secrets: srvSecrets, slowUs: []int{0, 500, 5000, 5000}[sc.RunSeed%4]}
	}
	start0 := time.Now()
	k.Go("serve", sessServe{s})
	for ci := 0; ci < sc.Clients; ci++ {
		k.Go("client"+strconv.Itoa(ci), &udpClient{s, ci})
	}
	k.Go("life", sessLife{s})
	out := k.Run(sessDone{s})
	res.Steps = k.Steps
	res.SimNS = int64(time.Since(start0))
	res.Digest = k.Digest()
	for name, v := range k.Stats {
		res.Stats[name] += v
	}
	if verbose {
		res.Log = k.Log
	}
	defer k.Abort()
	switch out {
	case kernel.StepCap:
		res.Verdict, res.Msg = core.Harness, "step cap reached"
		return
	case kernel.Quiescent:
		res.Fail("V1", "session-stuck", "the session cannot make progress: parked %v", k.Parked())
		return
	}
	// server side: every delivered signed request against the oracle
	used := map[int]bool{}
	reqMAC := map[uint16][]byte{}
	for _, d := range s.pc.Received {
		f := d.Seen
		if len(f) < 12 {
			continue
		}
		id := uint16(f[0])<<8 | uint16(f[1])
		ts, _, has := oracle.FindTSIG(f)
		if !has {
			continue
		}
		reqMAC[id] = ts.MAC
		var seen *srvSeen
		for j := range s.srvSeen {
			if !used[j] && s.srvSeen[j].id == id {
				seen, used[j] = &s.srvSeen[j], true
				break
			}
		}
		if seen == nil || (len(srvSecrets) == 0 && sc.ServerKey != "empty") {
			continue
		}
		v := oracle.VerifyTSIG(f, srvSecrets, nil, false, uint64(seen.t.Unix()))
		if !v.Judgable {
			continue
		}
		if v.Valid {
			res.Bump("oracle.G1_valid_accepted")
			if seen.status != "" {
				res.Fail("G1", "server-valid-rejected", "the datagram server reported TsigStatus %q for a request (id %d) that is RFC 8945-valid under its key: what it verified was not the request it had received", seen.status, id)
				return
			}
		} else {
			res.Bump("oracle.V1_invalid_rejected")
			if seen.status == "" {
				res.Fail("V1", "server-invalid-accepted:"+strings.ReplaceAll(v.Reason, " ", "-"), "the datagram server reported a nil TsigStatus for a request (id %d) that is not RFC 8945-valid: %s", id, v.Reason)
				return
			}
		}
	}
	// client side
	for _, d := range s.n.Dgrams {
		if d.From.S != "10.0.0.1:53" || !d.Delivered || len(d.Data) < 12 {
			continue
		}
		id := uint16(d.Data[0])<<8 | uint16(d.Data[1])
		if _, _, has := oracle.FindTSIG(d.Data); !has {
			continue
		}
		prior, ok := reqMAC[id]
		if !ok {
			continue
		}
		for _, cs := range s.cliSeen {
			if cs.id != id || !cs.got {
				continue
			}
			v := oracle.VerifyTSIG(d.Data, map[string]string{keyName: secretGood}, prior, false, uint64(cs.t.Unix()))
			if !v.Judgable {
				continue
			}
			if v.Valid {
				res.Bump("oracle.G1_valid_accepted")
				if cs.err != "" {
					res.Fail("G1", "client-valid-rejected", "the client got %q for a datagram reply (id %d) that is RFC 8945-valid for the MAC of its request", cs.err, id)
					return
				}
			} else {
				res.Bump("oracle.V1_invalid_rejected")
				if cs.err == "" {
					res.Fail("V1", "client-invalid-accepted:"+strings.ReplaceAll(v.Reason, " ", "-"), "the client accepted a signed datagram reply (id %d) that is not RFC 8945-valid: %s", id, v.Reason)
					return
				}
			}
		}
	}
	res.Nontrivial = len(s.cliSeen) > 0
	res.Class = fmt.Sprintf("session-udp/%s/%s/clients=%d/exch=%d/srvkey=%s", core.Mode, strings.ToLower(sc.Alg), sc.Clients, len(sc.Exch), sc.ServerKey)
}

func init() {
	core.Register(&core.Prop{ID: "C11", Gen: Gen, Decode: Decode, Run: Run, Shrink: Shrink, Modes: []string{"pristine", "instr"}, Race: true})
}
