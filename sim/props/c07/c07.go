// Package c07 drives the zone-file parser through a simulated disk: a
// fault-injecting top-level reader and an fs.FS for $INCLUDE with open errors,
// read errors at a chosen octet, short reads, directories, self-including and
// cyclic trees (DESIGN 4, C07). There are no goroutines in the parser, so
// there is no scheduler here; the check shares seeds, scenarios, minimiser and
// evidence with the rest of the simulator.
package c07

import (
	"encoding/json"
	"fmt"
	"io"
	"math/big"
	"os"
	"path/filepath"
	"regexp"
	"runtime"
	"runtime/debug"
	"runtime/metrics"
	"slices"
	"strconv"
	"strings"
	"syscall"
	"testing"
	"testing/fstest"
	"time"
	"verifsim/gen"

	"github.com/miekg/dns"
	"verifsim/core"
	"verifsim/kernel"
	"verifsim/props/common"
	"verifsim/simfs"
)

type File struct {
	Name  string   `json:"name"`
	Lines []string `json:"lines"`
	NoEOL bool     `json:"no_final_newline,omitempty"`
}

func (f File) Text() string {
	s := strings.Join(f.Lines, "\n")
	if !f.NoEOL && len(f.Lines) > 0 {
		s += "\n"
	}
	return expand(s)
}

// rawRun is how a scenario spells a run of one raw octet (scenarios are JSON, which cannot carry
// octets that are not UTF-8): <<80*300>> stands for 300 octets 0x80.
var rawRun = regexp.MustCompile(`<<([0-9a-f]{2})\*([0-9]{1,5})>>`)

func expand(s string) string {
	if !strings.Contains(s, "<<") {
		return s
	}
	return rawRun.ReplaceAllStringFunc(s, func(m string) string {
		g := rawRun.FindStringSubmatch(m)
		b, _ := strconv.ParseUint(g[1], 16, 8)
		n, _ := strconv.Atoi(g[2])
		return strings.Repeat(string([]byte{byte(b)}), n)
	})
}

type Scenario struct {
	RunSeed    uint64        `json:"run_seed"`
	Kind       string        `json:"kind"` // zone | chain | readrr | privkey | concurrent
	Files      []File        `json:"files"`
	Origin     string        `json:"origin"`
	DefTTL     int           `json:"default_ttl,omitempty"` // 0 = not set
	Include    bool          `json:"include_allowed"`
	ByteReader bool          `json:"byte_reader,omitempty"`
	Faults     []simfs.Fault `json:"faults,omitempty"`
	ShortRead  int           `json:"short_read,omitempty"`
	Sweep      bool          `json:"sweep,omitempty"` // instead of the listed faults: a read error at every octet of every file, one parse each
	Planted    *Planted      `json:"planted,omitempty"`
	Intruder   bool          `json:"intruder,omitempty"`   // when Next has returned false, and before Err is asked, another parser is created and run on this goroutine (an application that handles several zones)
	PollErr    bool          `json:"poll_err,omitempty"`   // the application asks Err() after every record (to log progress, to stop early), not only at the end
	Registrar  int           `json:"registrar,omitempty"`  // kind "concurrent": another task makes this many PrivateHandle / PrivateHandleRemove calls (for a type the zone does not use) while this one parses; every read and open is a scheduling point
	TruncLast  bool          `json:"trunc_last,omitempty"` // the last line of the top-level file is a record that stops before its last field (a domain name): the text ends in mid-record
}

// Planted is a single bad token put on a known line of a known file.
type Planted struct {
	File   string `json:"file"`
	Line   int    `json:"line"`
	PadCol int    `json:"pad_col,omitempty"` // blanks inserted in front of the bad token: the column reported must lie beyond them
	Marker string `json:"marker,omitempty"`  // the impossible token by which the error is recognised ("999.1.1.1" when empty)
}

var records = []string{
	"@ 3600 IN NS ns1", "@ 300 IN A 192.0.2.1", "www 300 IN A 192.0.2.10", "www IN AAAA 2001:db8::10",
	"ns1 3600 A 192.0.2.53", "@ 300 IN MX 10 mail", "alias CNAME www", " 300 IN TXT \"owner omitted\"",
	"txt 300 IN TXT \"first string\" \"second; not a comment\" \"\"", "_sip._tcp 300 IN SRV 10 60 5060 sip",
	"@ IN CAA 0 issue \"ca.example.net\"", "@ 300 IN SSHFP 1 1 BEEFDEADBEEFDEADBEEFDEADBEEFDEADBEEFDEAD",
	"@ 300 IN DS 60485 5 1 2BB183AF5F22588179A53B0A98631FAD1A292118", "@ 300 IN NSEC www A NS SOA MX TXT AAAA RRSIG NSEC DNSKEY",
	"@ 300 IN SVCB 1 svc alpn=h2,h3 port=8443 ipv4hint=192.0.2.1", "@ 300 IN LOC 51 30 12.748 N 0 7 39.611 W 0.00m 1m 10000m 10m",
	"@ 300 IN NAPTR 100 10 \"u\" \"E2U+sip\" \"!^.*$!sip:info@example.com!\" .", "@ 300 IN TYPE65280 \\# 4 0a000001",
	"x\\046y 300 IN TXT \"escaped dot\"", "@ 300 IN HINFO \"a b\" \"c\\\"d\"", "@ 300 CH TXT \"chaos\"", "*.wild 300 IN A 192.0.2.99",
	"@ 300 IN RRSIG A 8 2 300 20300101000000 20200101000000 12345 @ AAECAwQFBgcICQoLDA0ODw==",
	"@ 300 IN DNSKEY 256 3 8 AwEAAcNEU67LJI5GEgF9QLNqLO1SMq1EdoQ6E9f85ha0k0ewQGCblyW2836GiVsm6k8Kr5ECIoMJ6fZWf3CQSQ9ycWfTyOHfmI3eQ/1Covhb2y4bAmL/07PhrL7ozWBW3wBfM335Ft9xjtXHPy7ztCbV9qZ4TVDTW/Iyg0PiwgoXVesz",
	"@ 300 IN APL 1:192.168.32.0/21 !1:192.168.38.0/28", "@ 300 IN IPSECKEY 10 1 2 192.0.2.38 AQNRU3mG7TVTO2BkR47usntb102uFJtugbo6BSGvgqt4AQ==",
	// a private-use type the application has registered (PrivateHandle, once, when the harness starts): its RDATA goes
	// through the library's token loop for private types and then through the application's own parser
	"@ 300 IN XPRIV7 one two \"three four\"", "priv 300 IN XPRIV7 \"\" x", "priv XPRIV7 a ( b", "  c ) ; done",
	// every order of owner / class / TTL the grammar allows
	"cf IN 300 A 192.0.2.7", "cf2 CH 60 TXT \"class first\"", "cf3 IN A 192.0.2.8", "cf4 A 192.0.2.9", "cf5 600 A 192.0.2.10", " IN 300 AAAA 2001:db8::7", " A 192.0.2.11",
}

var soa = []string{
	"@ 3600 IN SOA ns1 hostmaster (", "        2024010101 ; serial", "        7200 3600 ; refresh retry", "        1209600", "        300 )",
}

const plantedLine = "bad 300 IN A 999.1.1.1"

// truncLines: records cut off before their last field, a domain name that the type cannot do without.
var truncLines = []string{
	"cut 300 IN MX 10", "cut 300 IN SRV 0 0 53", "cut 300 IN RP hostmaster.example.org.", "cut 300 IN MINFO r.example.org.", "cut 300 IN KX 10", "cut 300 IN RT 10",
	"cut 300 IN AFSDB 1", "cut 300 IN LP 10", "cut 300 IN PX 10 a.example.org.", "cut 300 IN TALINK a.example.org.", "cut 300 IN NAPTR 100 50 \"s\" \"http\" \"\"", "cut MX 20",
	// ... or a number: an SOA that ends behind its serial, or two or three fields further on
	"cut 300 IN SOA ns1.example.org. host.example.org. 2024010101", "cut 300 IN SOA ns1.example.org. host.example.org. 2024010101 7200", "cut 300 IN SOA ns1.example.org. host.example.org. 2024010101 7200 3600 1209600",
}

// plantedLines: single-line records with one impossible token each (the token is the marker by
// which the error is recognised), in the RDATA of record types whose parsers build their errors in
// different ways.
var plantedLines = []struct{ line, marker string }{
	{plantedLine, "999.1.1.1"},
	{plantedLine, "999.1.1.1"},
	{"bad 300 IN SVCB 9x9x svc.example.org. alpn=h2", "9x9x"},
	{"bad 300 IN HTTPS 1 . port=9x9x", "9x9x"},
	{"bad 300 IN NID 10 9x9x:4fff:ff20:ee64", "9x9x"},
	{"bad 300 IN L64 10 9x9x:0DB8:1140:1000", "9x9x"},
	{"bad 300 IN MX 9x9x mail", "9x9x"},
	{"bad 300 IN AAAA 9x9x::1", "9x9x"},
}

func genLines(r interface{ IntN(int) int }, n int, includes []string, damage bool, tier string) []string {
	var out []string
	switch r.IntN(8) {
	case 0, 1, 2, 3:
		out = append(out, soa...)
	case 4:
		// the very first record carries its class before its TTL, or no TTL at all
		out = append(out, []string{"first IN 300 A 192.0.2.1", "first IN A 192.0.2.1", "first CH 5 TXT \"x\""}[r.IntN(3)])
	}
	for i := 0; i < n; i++ {
		switch x := r.IntN(100); {
		case x < 55:
			l := records[r.IntN(len(records))]
			if damage && r.IntN(3) == 0 {
				l = mutateTokens(r, l)
			}
			out = append(out, l)
		case x < 60:
			out = append(out, "; a comment line "+strings.Repeat("c", r.IntN(40)))
		case x < 64:
			out = append(out, "")
		case x < 69:
			out = append(out, "$ORIGIN "+[]string{"sub", "example.org.", "deep.sub.example.org.", "."}[r.IntN(4)])
		case x < 73:
			out = append(out, "$TTL "+[]string{"3600", "1h", "1w2d", "0"}[r.IntN(4)])
		case x < 83:
			if len(includes) > 0 {
				l := "$INCLUDE " + includes[r.IntN(len(includes))]
				if r.IntN(3) == 0 {
					l += " inc-origin"
				}
				if r.IntN(6) == 0 {
					l = strings.Replace(l, "$INCLUDE", []string{"$include", "$Include", "$INCLUDE\t"}[r.IntN(3)], 1)
				}
				if r.IntN(12) == 0 {
					l += " )" // a parenthesis that closes nothing, after the file name or the origin
				}
				out = append(out, l)
			}
		case x < 93:
			hi := []int{1, 3, 20}[r.IntN(3)]
			if tier == "thorough" && r.IntN(40) == 0 {
				hi = []int{65535, 65536, 70000}[r.IntN(3)]
			}
			l := fmt.Sprintf("$GENERATE %d-%d", r.IntN(3), hi)
			if r.IntN(3) == 0 {
				l += fmt.Sprintf("/%d", 1+r.IntN(3))
			}
			if r.IntN(12) == 0 {
				// ranges and steps at the edges of the integer types
				edge := []string{"2147483646-2147483647", "2147483647-2147483648", "4294967295-4294967296", "9223372036854775806-9223372036854775807",
					"9223372036854775807-9223372036854775807", "0-9223372036854775807/9223372036854775807", "1-3/9223372036854775806", "0-1/0", "18446744073709551615-18446744073709551616", "-1-2", "3-3"}
				l = "$GENERATE " + edge[r.IntN(len(edge))]
			}
			l += [...]string{" host$ A 10.0.0.$", " ${0,3,d}.rev PTR host-${-1,2,x}.example.org.", " $.gen 300 IN CNAME $.target", " h$ TXT \"n$\" \"$$\"", " g${1000} A 10.1.$.1",
				" w$ TXT \"${0,255,d}\"", " w$ TXT \"${0,256,x}\"", " w$ TXT \"${0,1000000,d}\" \"${0,70000,o}\"", " ${0,4294967296,d} A 10.0.0.1", " w$ TXT \"${0,-1,d}\"",
				" e$ TXT abc\\", " e$ TXT \\", " e$ TXT a\\$\\", " e\\$ A 10.0.0.$\\",
				// modifiers with bases the grammar may or may not know (BIND has a nibble mode, n / N), narrow fields, wide values
				" ${0,3,n}.rev PTR host$.example.org.", " ${4096,5,N}.rev PTR h.example.org.", " ${0,1,n}.ip6 PTR h$.example.org.", " b$ TXT \"${0,2,b}\"", " z$ TXT \"${255,1,z}\" \"${0,0,n}\""}[r.IntN(19)]
			out = append(out, l)
		default:
			if !damage {
				out = append(out, records[r.IntN(len(records))])
				continue
			}
			switch r.IntN(13) {
			case 12:
				// character-strings longer than 255 octets made of octets that are not text: runs of UTF-8
				// continuation octets, lead octets without a tail, 0xff; quoted, bare, and behind valid two-octet characters
				n := []int{255, 256, 257, 300, 511, 600}[r.IntN(6)]
				b := []string{"80", "bf", "c3", "ff", "e2", "a0"}[r.IntN(6)]
				typ := []string{"TXT", "TXT", "SPF", "NINFO", "AVC"}[r.IntN(5)]
				switch r.IntN(3) {
				case 0:
					out = append(out, fmt.Sprintf("hb 300 IN %s \"<<%s*%d>>\"", typ, b, n))
				case 1:
					out = append(out, fmt.Sprintf("hb 300 IN %s <<%s*%d>> tail", typ, b, n))
				default:
					out = append(out, fmt.Sprintf("hb 300 IN %s \"%s<<%s*%d>>x\"", typ, strings.Repeat("\u00e9", r.IntN(130)), b, n))
				}
			case 11:
				// one modifier text used twice: over a range it fits, then over one where it would count below zero
				off := []int{-7, -1, -100, -65536}[r.IntN(4)]
				out = append(out, fmt.Sprintf("$GENERATE %d-%d p${%d,2} A 192.0.2.1", -off, -off+2, off), fmt.Sprintf("$GENERATE 0-2 q${%d,2} A 192.0.2.2", off))
			case 10:
				// a $GENERATE whose text runs over several lines: the lexer reads \\" as an escaped
				// backslash and an opening quote, so the following lines belong to the directive
				hi := []int{1, 3, 20, 20, 300}[r.IntN(5)]
				if r.IntN(3) == 0 {
					// ... and the line smuggled into the expansion is itself a $GENERATE: nested, whichever
					// step it falls into and however many records the directive had left at that point
					lo := r.IntN(3)
					out = append(out, fmt.Sprintf("$GENERATE %d-%d na TXT \\\\\"", lo, lo+[]int{0, 0, 1, 4}[r.IntN(4)]), fmt.Sprintf("$$GENERATE 0-%d nb$$ A 10.0.0.1 ;\"", []int{3, 3, 40, 65535}[r.IntN(4)]))
					break
				}
				out = append(out, fmt.Sprintf("$GENERATE %d-%d a$ TXT \\\\\"x", r.IntN(2), hi), "b$ A 192.0.2.$", "c$ TXT \\\\\"y")
			case 0:
				out = append(out, "nul\x00byte 300 IN A 192.0.2.1")
			case 1:
				out = append(out, "t 300 IN TXT \"unterminated quote")
			case 2:
				out = append(out, "@ IN SOA ns1 host ( 1 2 3")
			case 3:
				out = append(out, "esc 300 IN TXT trailing\\")
			case 4:
				out = append(out, strings.Repeat("L", 500+r.IntN(9000))+" 300 IN A 192.0.2.1")
			case 5:
				out = append(out, "@ 300 IN TXT \""+strings.Repeat("t", 200+r.IntN(9000))+"\"")
			case 6:
				out = append(out, "www 300 IN A 192.0.2.1 ; "+strings.Repeat("c", 500+r.IntN(9000)))
			case 7:
				out = append(out, "$GENERATE 1-2 $$GENERATE 1-2 n$ A 10.0.0.$")
			case 8:
				switch r.IntN(5) {
				case 4:
					// type bitmaps with mnemonics nobody knows, shorter and longer than the "TYPE" prefix
					bogus := []string{"X", "XY", "TYP", "TYPE", "TYPEX", "TYPE65536", "ty", "A6X"}[r.IntN(8)]
					out = append(out, []string{"bm 300 IN CSYNC 66 3 A NS " + bogus, "bm 300 IN NSEC next.example.org. A " + bogus + " MX", "bm 300 IN NSEC3 1 1 12 aabbccdd 2vptu5timamqttgl4luu9kg21e0aor3s A " + bogus}[r.IntN(3)])
				case 0:
					out = append(out, "@ 300 IN A 192.0.2.1 ) stray")
				case 1:
					out = append(out, []string{"$TTL 300 )", "$ORIGIN sub )", "$TTL 1h ) ; x"}[r.IntN(3)])
				default:
					// long comments inside a parenthesised record
					n := []int{300, 511, 512, 513, 700, 1100}[r.IntN(6)]
					out = append(out, "lc 300 IN MX ( ;"+strings.Repeat("c", n), "        10 ; preference "+strings.Repeat("d", r.IntN(3)*300), "        mail ) ; done")
				}
			case 9:
				if r.IntN(2) == 0 {
					out = append(out, "$GENERATE 5-1 bad$ A 10.0.0.$")
				} else {
					// a closing parenthesis that closes nothing, after the RDATA of any record type
					out = append(out, strings.TrimRight(records[r.IntN(len(records))], " ")+" )")
				}
			}
		}
	}
	return out
}

func Gen(seed uint64, tier string) any {
	r := core.Rng(seed)
	sc := &Scenario{RunSeed: seed, Kind: "zone"}
	switch x := r.IntN(100); {
	case x < 6:
		sc.Kind = "chain"
	case x < 12:
		sc.Kind = "readrr"
	case x < 16:
		sc.Kind = "privkey"
	case x < 21:
		sc.Kind = "concurrent"
	}
	if r.IntN(3500) == 0 {
		// one very long line: a $GENERATE whose text is a run of a million escaped characters (2.4 MB). Memory
		// in proportion to the input is fine; a parser that needs a stack frame per character is not - the
		// runtime ends the whole process when a goroutine's stack passes its limit, and that cannot be recovered
		sc.Kind = "deep"
		sc.Files = []File{{Name: "zones/deep.zone", Lines: []string{"$GENERATE 1-1 d <<5c61*0>> TXT x", "after 300 IN A 192.0.2.77"}}}
		switch r.IntN(3) {
		case 0:
			// ... or very many lines: 400 000 directives in a row none of which yields a record (6.4 MB)
			sc.Kind = "deeplines"
		case 1:
			// ... or a very large include file: a record, 3 - 65 MiB of comment lines, another record
			sc.Kind = "bigfile"
		}
		return sc
	}
	sc.Origin = core.Pick(r, "example.org.", "example.org.", "example.org", "", ".", "bad..origin.")
	sc.DefTTL = core.Pick(r, 0, 0, 3600, 1)
	sc.Include = core.Chance(r, 70)
	sc.ByteReader = core.Chance(r, 30)
	sc.ShortRead = core.Pick(r, 0, 0, 30, 90)
	sc.Intruder = core.Chance(r, 30)
	sc.PollErr = core.Chance(r, 30)
	switch sc.Kind {
	case "chain":
		sc.Include = true
		return sc
	case "readrr":
		sc.Files = []File{{Name: "rr.txt", Lines: genLines(r, 1+r.IntN(3), nil, core.Chance(r, 30), tier)}}
	case "privkey":
		sc.Files = []File{{Name: "Kexample.private", Lines: privKeyLines(r)}}
	default:
		nf := 1 + r.IntN(4)
		names := []string{"zones/main.zone"}
		for i := 1; i < nf; i++ {
			names = append(names, core.Pick(r, "zones/", "zones/sub/", "")+fmt.Sprintf("inc%d.zone", i))
		}
		damage := core.Chance(r, 35)
		for i, nm := range names {
			// include targets as written in the file: relative to the including file's directory, or absolute
			var inc []string
			for j, other := range names {
				if j == 0 && !core.Chance(r, 15) {
					continue // including the top-level file closes a cycle; keep that rare
				}
				if j == i && !core.Chance(r, 10) {
					continue
				}
				inc = append(inc, "/"+other)
			}
			if core.Chance(r, 15) {
				inc = append(inc, "/zones/missing.zone")
			}
			if core.Chance(r, 20) && len(names) > 1 {
				// the same files spelled relative to the directory of the including file
				other := names[1+r.IntN(len(names)-1)]
				inc = append(inc, relTo(nm, other))
			}
			if core.Chance(r, 10) {
				// paths that climb to or above the root of the include file system, and names that only begin like
				// a parent directory: whatever the file system says to them, the parser has to come back
				inc = append(inc, core.Pick(r, "..", "../..", "../../..", "../../../x.zone", "..data", "../..data", "..data/inc.zone", "sub/../../..", ".", "./.", "...", "/..", "/../..", "/", "//", "zones/../.."))
			}
			nl := 2 + r.IntN(12)
			if tier == "thorough" {
				nl = 2 + r.IntN(40)
			}
			sc.Files = append(sc.Files, File{Name: nm, Lines: genLines(r, nl, inc, damage && core.Chance(r, 60), tier), NoEOL: core.Chance(r, 10)})
		}
		if !damage && core.Chance(r, 25) {
			// plant exactly one bad token
			fi := r.IntN(len(sc.Files))
			f := &sc.Files[fi]
			at := r.IntN(len(f.Lines) + 1)
			// never inside the parenthesised SOA
			for at > 0 && at < len(f.Lines) && inParens(f.Lines[:at]) {
				at++
			}
			pl := plantedLines[r.IntN(len(plantedLines))]
			pad := 0
			if r.IntN(12) == 0 {
				// the bad token sits far to the right (beyond what 16 bits can count)
				pad = []int{300, 65530, 66000, 70000, 140000}[r.IntN(5)]
				i := strings.LastIndex(pl.line[:strings.Index(pl.line, pl.marker)], " ") // the blank in front of the token that holds the marker
				pl.line = pl.line[:i] + strings.Repeat(" ", pad) + pl.line[i:]
			}
			f.Lines = append(f.Lines[:at], append([]string{pl.line}, f.Lines[at:]...)...)
			sc.Planted = &Planted{File: f.Name, Line: at + 1, Marker: pl.marker, PadCol: pad}
		}
	}
	if sc.Kind == "zone" && sc.Planted == nil && len(sc.Files) > 0 && balanced(sc.Files[0].Lines) && core.Chance(r, 6) {
		// the text ends in the middle of a record, right before a field that must be there
		f := &sc.Files[0]
		f.Lines = append(f.Lines, truncLines[r.IntN(len(truncLines))])
		f.NoEOL = core.Chance(r, 50)
		sc.TruncLast = true
	}
	if sc.Kind == "zone" && core.Chance(r, 3) {
		sc.Sweep = true
	}
	if sc.Kind == "concurrent" {
		// the parser nests (a $GENERATE, an $INCLUDE when there is a second file) while another task registers
		// and removes a private type; no disk faults here
		sc.Include, sc.Registrar = true, 1+r.IntN(4)
		extra := []string{"$GENERATE 1-3 cc$ A 10.9.0.$"}
		if len(sc.Files) > 1 {
			extra = append(extra, "$INCLUDE /"+sc.Files[1].Name)
		}
		if balanced(sc.Files[0].Lines) {
			sc.Files[0].Lines = append(sc.Files[0].Lines, extra...)
		}
		return sc
	}
	// faults
	if core.Chance(r, 65) && len(sc.Files) > 0 {
		nfault := 1 + r.IntN(2)
		for i := 0; i < nfault; i++ {
			f := sc.Files[r.IntN(len(sc.Files))]
			ft := simfs.Fault{File: f.Name, Kind: "readerr"}
			size := len(f.Text())
			switch r.IntN(6) {
			case 0:
				ft.At = 0
			case 1:
				ft.At = size
			case 2:
				ft.At = max(size-1, 0)
			default:
				ft.At = r.IntN(size + 1)
			}
			if txt := f.Text(); core.Chance(r, 25) && size > 0 {
				// right behind (or on) a delimiter: the octet a lexer looks at to decide what the token before it was
				var ds []int
				for i := 0; i < len(txt); i++ {
					if strings.IndexByte(": \t\n\"();$\\", txt[i]) >= 0 {
						ds = append(ds, i)
					}
				}
				if len(ds) > 0 {
					ft.At = ds[r.IntN(len(ds))] + r.IntN(2)
				}
			}
			ft.Wrap = core.Chance(r, 20)
			ft.Temp = !ft.Wrap && core.Chance(r, 15)
			if core.Chance(r, 12) {
				// not an error at all: one Read that returns no octets and no error
				ft.Kind, ft.Wrap, ft.Temp = "zeroread", false, false
			}
			if core.Chance(r, 25) {
				// a transient error: the read fails once, a retry would have succeeded
				ft.Once = true
				if core.Chance(r, 50) {
					ft.At = r.IntN(4) // before the reader has seen its first few octets
				}
			}
			if txt := f.Text(); sc.Kind == "privkey" && core.Chance(r, 40) && strings.Contains(txt, ":") {
				// a key file is "Field: value" lines: the colon, the blank behind it and the first octet of the
				// value are each read by code of their own
				var cs []int
				for i := 0; i < len(txt); i++ {
					if txt[i] == ':' {
						cs = append(cs, i)
					}
				}
				ft.At = cs[r.IntN(len(cs))] + r.IntN(3)
				ft.Once = core.Chance(r, 60)
			}
			if f.Name != sc.Files[0].Name && core.Chance(r, 40) {
				ft.Kind, ft.Once = core.Pick(r, "notexist", "perm", "emfile", "dir", "plainerr", "wrappederr", "staterr", "closeerr"), false
			}
			if core.Chance(r, 20) {
				ft.Nth = 1 + r.IntN(2)
			}
			sc.Faults = append(sc.Faults, ft)
		}
	}
	return sc
}

// relTo spells the path of file to relative to the directory of file from (both are slash-separated paths
// inside the include file system).
func relTo(from, to string) string {
	fd := strings.Split(from, "/")
	fd = fd[:len(fd)-1]
	td := strings.Split(to, "/")
	i := 0
	for i < len(fd) && i < len(td)-1 && fd[i] == td[i] {
		i++
	}
	return strings.Repeat("../", len(fd)-i) + strings.Join(td[i:], "/")
}

// tokens splits a record line at blanks outside quotes.
func tokens(l string) []string {
	var out []string
	cur, inq := "", false
	for i := 0; i < len(l); i++ {
		c := l[i]
		switch {
		case c == '\\' && i+1 < len(l):
			cur += l[i : i+2]
			i++
		case c == '"':
			inq = !inq
			cur += "\""
		case (c == ' ' || c == '\t') && !inq:
			if cur != "" {
				out = append(out, cur)
				cur = ""
			}
		default:
			cur += string(c)
		}
	}
	if cur != "" {
		out = append(out, cur)
	}
	return out
}

// mutateTokens damages a record at token level: RDATA tokens are deleted,
// blanked, duplicated or replaced by edge values (1..3 mutations).
func mutateTokens(r interface{ IntN(int) int }, l string) string {
	lead := ""
	if strings.HasPrefix(l, " ") {
		lead = " "
	}
	t := tokens(l)
	edge := []string{"\"\"", "\" \"", "\"\t\"", "0", "-1", "65535", "65536", "4294967295", "4294967296", "99999999999999999999", ".", "..", "@", "\\#", "\\# 0", "(", ")", "*", "a.", strings.Repeat("x", 64) + ".", strings.Repeat("y", 300), "\\000", "\\", "::", "1.2.3", "=", "key65535=", "alpn="}
	for n := 1 + r.IntN(3); n > 0 && len(t) > 1; n-- {
		i := 1 + r.IntN(len(t)-1) // never the owner
		if r.IntN(3) > 0 && len(t) > 3 {
			i = 3 + r.IntN(len(t)-3) // mostly RDATA
			if i >= len(t) {
				i = len(t) - 1
			}
		}
		switch r.IntN(5) {
		case 0:
			t = append(t[:i], t[i+1:]...)
		case 1:
			t = append(t[:i+1], t[i:]...)
		default:
			t[i] = edge[r.IntN(len(edge))]
		}
	}
	return lead + strings.Join(t, " ")
}

func inParens(lines []string) bool {
	depth := 0
	for _, l := range lines {
		depth += strings.Count(l, "(") - strings.Count(l, ")")
	}
	return depth > 0
}

func privKeyLines(r interface{ IntN(int) int }) []string {
	base := []string{
		"Private-key-format: v1.3", "Algorithm: 15 (ED25519)", "PrivateKey: ODIyNjAzODQ2MjgwODAxMjI2NDUxOTAyMDQxNDIyNjI=",
	}
	if r.IntN(3) == 0 {
		base = []string{"Private-key-format: v1.3", "Algorithm: 13 (ECDSAP256SHA256)", "PrivateKey: GU6SnQ/Ou+xC5RumuIUIuJZteXT2z0O/ok1s38Et6mQ="}
	}
	if r.IntN(3) == 0 {
		base = append(base, "Created: 20110302104537", "Publish: 20110302104537", "Activate: 20110302104537")
	}
	if r.IntN(4) == 0 {
		// key material of the wrong length for its algorithm (1, 16, 31, 33 and 64 octets; none at all)
		base[2] = "PrivateKey: " + []string{"AQ==", "AAECAwQFBgcICQoLDA0ODw==", "AAECAwQFBgcICQoLDA0ODxAREhMUFRYXGBkaGxwdHg==", "AAECAwQFBgcICQoLDA0ODxAREhMUFRYXGBkaGxwdHh8g",
			"AAECAwQFBgcICQoLDA0ODxAREhMUFRYXGBkaGxwdHh8gISIjJCUmJygpKissLS4vMDEyMzQ1Njc4OTo7PD0+Pw==", ""}[r.IntN(6)]
	}
	if r.IntN(8) == 0 {
		// an RSA key file (five fields make the key)
		base = strings.Split(strings.TrimSuffix(gen.KeyText[0].Priv, "\n"), "\n")
	}
	if r.IntN(5) == 0 {
		// the file lacks a field the key cannot do without (it was cut short, or written by a tool that left it out)
		var must []int
		for i, l := range base {
			switch strings.ToLower(strings.SplitN(l, ":", 2)[0]) {
			case "privatekey", "modulus", "publicexponent", "privateexponent", "prime1", "prime2":
				must = append(must, i)
			}
		}
		if len(must) > 0 {
			i := must[r.IntN(len(must))]
			base = append(base[:i:i], base[i+1:]...)
		}
		return base
	}
	if r.IntN(4) == 0 {
		base[r.IntN(len(base))] = []string{"garbage", "Algorithm: 99", "PrivateKey: !!!notbase64", "Private-key-format: v9.9", "NoColonHere", strings.Repeat("K", 3000) + ": v"}[r.IntN(6)]
	}
	return base
}

func Decode(raw json.RawMessage) (any, error) {
	sc := &Scenario{}
	err := json.Unmarshal(raw, sc)
	return sc, err
}

func Shrink(x any) []any {
	sc := x.(*Scenario)
	var out []any
	cp := func() *Scenario {
		b, _ := json.Marshal(sc)
		n := &Scenario{}
		json.Unmarshal(b, n)
		return n
	}
	for i := range sc.Faults {
		n := cp()
		n.Faults = append(n.Faults[:i], n.Faults[i+1:]...)
		out = append(out, n)
	}
	for fi := len(sc.Files) - 1; fi >= 1; fi-- {
		n := cp()
		n.Files = append(n.Files[:fi], n.Files[fi+1:]...)
		out = append(out, n)
	}
	for fi, f := range sc.Files {
		if l := len(f.Lines); l > 1 {
			n := cp()
			n.Files[fi].Lines = n.Files[fi].Lines[:l/2]
			out = append(out, n)
			n = cp()
			n.Files[fi].Lines = n.Files[fi].Lines[l/2:]
			out = append(out, n)
		}
		for li := range f.Lines {
			if len(f.Lines) <= 12 {
				n := cp()
				n.Files[fi].Lines = append(n.Files[fi].Lines[:li], n.Files[fi].Lines[li+1:]...)
				out = append(out, n)
			}
		}
	}
	if sc.ShortRead != 0 {
		n := cp()
		n.ShortRead = 0
		out = append(out, n)
	}
	if sc.ByteReader {
		n := cp()
		n.ByteReader = false
		out = append(out, n)
	}
	if sc.DefTTL != 0 {
		n := cp()
		n.DefTTL = 0
		out = append(out, n)
	}
	if sc.Planted != nil {
		for i := range out {
			out[i].(*Scenario).Planted = nil // line numbers no longer hold
		}
	}
	return out
}

// ---------------------------------------------------------------- running

type outcome struct {
	recs      []string
	err       string
	fs        *simfs.FS
	top       *simfs.Reader
	panicked  string
	sticky    string // violation text of the after-the-end probe
	maxRec    int    // longest record returned (presentation form)
	overflow  bool   // gave up: more records than the tree can possibly denote
	firedAt   int    // records returned before the call in which the first fault fired (-1 = none fired)
	nexts     int
	polls     int    // Err() calls made between records
	pollErr   string // the first error such a call returned
	pollErrAt int    // records returned up to then
}

// parse runs the zone parser over the tree. It is executed on its own
// goroutine so that a parser that never terminates can be abandoned.
func parse(sc *Scenario, faults []simfs.Fault, short int) (o *outcome) {
	return parseHook(sc, faults, short, nil)
}

func parseHook(sc *Scenario, faults []simfs.Fault, short int, hook func(string)) (o *outcome) {
	files := map[string][]byte{}
	for _, f := range sc.Files {
		files[f.Name] = []byte(f.Text())
	}
	o = &outcome{firedAt: -1}
	// generous static bound: every file read 64 times, every $GENERATE at its maximum
	hardLimit := 0
	for _, f := range sc.Files {
		for _, l := range f.Lines {
			hardLimit++
			if strings.Contains(strings.ToUpper(l), "$GENERATE") {
				hardLimit += 65536
			}
		}
	}
	hardLimit = hardLimit*64 + 1000
	o.fs = simfs.New(files, faults, short, core.Rng(sc.RunSeed^0xf5))
	o.fs.Hook = hook
	top := sc.Files[0]
	o.top = o.fs.Reader(top.Name, files[top.Name])
	defer func() {
		if r := recover(); r != nil {
			o.panicked = fmt.Sprintf("%v\n%s", r, libFrames(string(debug.Stack())))
		}
	}()
	var rd io.Reader = o.top
	if sc.ByteReader {
		rd = simfs.ByteReader{Reader: o.top}
	}
	zp := dns.NewZoneParser(rd, sc.Origin, top.Name)
	if sc.DefTTL != 0 {
		zp.SetDefaultTTL(uint32(sc.DefTTL))
	}
	zp.SetIncludeAllowed(sc.Include)
	zp.SetIncludeFS(o.fs)
	for rr, ok := zp.Next(); ok; rr, ok = zp.Next() {
		o.nexts++
		if o.firedAt < 0 && hardFaults(o.fs) > 0 {
			o.firedAt = len(o.recs)
		}
		if rr == nil {
			o.sticky = "Next returned (nil, true)"
			break
		}
		str := ""
		if len(o.recs) < 300000 {
			str = rr.String()
		}
		o.recs = append(o.recs, str)
		if len(str) > o.maxRec {
			o.maxRec = len(str)
		}
		if len(o.recs) > hardLimit {
			// far beyond anything the tree can denote: stop feeding memory
			o.overflow = true
			return o
		}
		if sc.PollErr {
			o.polls++
			if e := zp.Err(); e != nil && o.pollErr == "" {
				o.pollErr, o.pollErrAt = e.Error(), len(o.recs)
			}
		}
	}
	if o.firedAt < 0 && hardFaults(o.fs) > 0 {
		o.firedAt = len(o.recs)
	}
	if sc.Intruder {
		// another zone is parsed in between: whatever that parser takes over from this one must not take the verdict with it
		other := dns.NewZoneParser(strings.NewReader("$ORIGIN intruder.example.\n$TTL 60\nnever 300 IN A 192.0.2.200\n$GENERATE 1-2 g$ A 192.0.2.$\nlast IN TXT \"x\"\n"), "", "other.zone")
		for _, ok := other.Next(); ok; _, ok = other.Next() {
		}
		_ = other.Err()
	}
	if err := zp.Err(); err != nil {
		o.err = err.Error()
	}
	// P3: the end is sticky
	reads, opens := o.fs.Reads, o.fs.Opens
	for i := 0; i < 3; i++ {
		if rr, ok := zp.Next(); ok || rr != nil {
			o.sticky = fmt.Sprintf("Next returned a record (%v) after it had returned (nil, false)", rr)
		}
	}
	if o.sticky == "" && (o.fs.Reads != reads || o.fs.Opens != opens) {
		o.sticky = "Next kept reading input or opening files after it had returned (nil, false)"
	}
	if e2 := zp.Err(); o.err != "" && e2 == nil {
		o.sticky = "Err() lost the error after further Next calls"
	}
	return o
}

// hardFaults counts injected faults that actually reached the parser (short
// reads and genuinely missing files are not faults in this sense).
func hardFaults(f *simfs.FS) int {
	n := 0
	for k, v := range f.Fired {
		if k != "short_read" && k != "zero_read" && k != "open_missing" && k != "read_error_wrapping_eof" && k != "read_error_temporary" && k != "stat_error" && k != "close_error" {
			n += v
		}
	}
	return n
}

func libFrames(s string) string {
	var out []string
	for _, ln := range strings.Split(s, "\n") {
		if strings.Contains(ln, "github.com/miekg/dns.") {
			if i := strings.LastIndex(ln, "("); i > 0 {
				ln = ln[:i]
			}
			out = append(out, strings.TrimSpace(ln))
			if len(out) == 5 {
				break
			}
		}
	}
	return strings.Join(out, " < ")
}

// guarded runs f on its own goroutine and gives up after limit of real time.
//
// It also watches the heap while f runs: a parse that has put more than memLimit
// on it (the trees here are a few kilobytes; the largest legitimate result, 64
// readings of a $GENERATE over its whole range, stays far below) is abandoned
// at once, long before the machine feels it.
func guarded[T any](limit time.Duration, f func() T) (v T, ok bool) {
	ch := make(chan T, 1)
	go func() { ch <- f() }()
	sample := []metrics.Sample{{Name: "/memory/classes/heap/objects:bytes"}}
	metrics.Read(sample)
	base := sample[0].Value.Uint64()
	tick := time.NewTicker(10 * time.Millisecond)
	defer tick.Stop()
	end := time.After(limit)
	for {
		select {
		case v = <-ch:
			return v, true
		case <-end:
			return v, false
		case <-tick.C:
			metrics.Read(sample)
			if now := sample[0].Value.Uint64(); now > base+memLimit {
				memBlown = now - base
				return v, false
			}
		}
	}
}

const memLimit = 1 << 30

// memBlown is set by guarded when it gave up because of the heap, not the clock.
var memBlown uint64

func Run(t *testing.T, scAny any, verbose bool) *core.Result {
	sc := scAny.(*Scenario)
	res := &core.Result{Seed: sc.RunSeed, Verdict: core.OK, Stats: map[string]int{}}
	var hs uint64 = 1469598103934665603
	logf := func(format string, a ...any) {
		s := fmt.Sprintf(format, a...)
		for i := 0; i < len(s); i++ {
			hs ^= uint64(s[i])
			hs *= 1099511628211
		}
		if verbose {
			res.Log = append(res.Log, s)
		}
	}
	defer func() { res.Digest = hs }()
	switch sc.Kind {
	case "chain":
		runChain(sc, res, logf)
	case "readrr", "privkey":
		runSmall(sc, res, logf)
	case "concurrent":
		runConcurrent(t, sc, res, logf)
	case "deep", "deeplines":
		runDeep(sc, res, logf)
	case "bigfile":
		runBigFile(sc, res, logf)
	default:
		runZone(sc, res, logf)
	}
	return res
}

const limit = 20 * time.Second

func hang(res *core.Result, what string) {
	core.Abandon = true // the parser goroutine cannot be stopped: the worker process has to go
	if memBlown > 0 {
		res.Fail("P7", "memory-unbounded:"+what, "%s had put %d MiB on the heap and was still going when it was abandoned (the whole tree is a few kilobytes of text): memory is not proportional to the input", what, memBlown>>20)
		return
	}
	res.Fail("P1", "no-termination:"+what, "%s did not terminate within %v of real time (typical: well under a millisecond)", what, limit)
}

func errClass(e string) string {
	switch {
	case e == "":
		return "none"
	case strings.Contains(e, "injected read error"):
		return "read-error"
	case strings.Contains(e, "failed to open"):
		return "open-error"
	case strings.Contains(e, "is a directory"):
		return "read-directory"
	case strings.Contains(e, "too deeply nested"):
		return "include-depth"
	case strings.Contains(e, "not allowed"):
		return "not-allowed"
	}
	return "syntax"
}

func runZone(sc *Scenario, res *core.Result, logf func(string, ...any)) {
	if len(sc.Files) == 0 {
		return
	}
	ref, ok := guarded(limit, func() *outcome { return parse(sc, nil, 0) })
	if !ok {
		hang(res, "parsing the fault-free tree")
		return
	}
	logf("reference: %d records (%x), err class %s, opens %d, max nesting %d", len(ref.recs), hashStrings(ref.recs, ref.err), errClass(ref.err), ref.fs.Opens, ref.fs.MaxNest)
	judgeOne(sc, res, ref, "fault-free")
	if res.Verdict != core.OK {
		return
	}
	// properties of the text itself
	nGen, nLines, nested, genMax := 0, 0, false, 0
	for i, f := range sc.Files {
		opens := ref.fs.OpenCount[f.Name]
		if i == 0 {
			opens++ // the top-level input, plus every time it is included
		}
		for _, l := range f.Lines {
			nLines += opens
			if strings.HasPrefix(strings.ToUpper(l), "$GENERATE") {
				nGen += opens
				genMax += opens * genSteps(l)
			}
		}
	}
	for i, l := range sc.Files[0].Lines {
		// only when the line is really read as a directive: nothing before it
		// may leave a quote, parenthesis or escape open
		if strings.Contains(l, "$$GENERATE") && balanced(sc.Files[0].Lines[:i]) {
			nested = true
		}
		// the two-line form: the directive's text runs on over the newline (for the zone lexer \\" opens a
		// string), the second line of the expansion is a $GENERATE
		if strings.HasPrefix(l, "$$GENERATE") && i > 0 && strings.HasPrefix(sc.Files[0].Lines[i-1], "$GENERATE ") && strings.HasSuffix(sc.Files[0].Lines[i-1], " na TXT \\\\\"") && balanced(sc.Files[0].Lines[:i-1]) {
			nested = true
		}
	}
	// memory proportional to the input: no single record may dwarf the line it came from
	maxLine := 0
	for _, f := range sc.Files {
		for _, l := range f.Lines {
			if n := len(expand(l)); n > maxLine {
				maxLine = n
			}
		}
	}
	res.Bump("oracle.P7_record_size_bound")
	if ref.maxRec > 70*maxLine+4096 {
		res.Fail("P7", "record-larger-than-input", "the parser returned a record of %d octets (presentation form) from a tree whose longest line has %d octets: output is not proportional to the input", ref.maxRec, maxLine)
		return
	}
	res.Bump("oracle.P7_generate_bound")
	if len(ref.recs) > nGen*65536+nLines {
		res.Fail("P7", "generate-unbounded", "%d records from a tree with %d $GENERATE directives and %d lines", len(ref.recs), nGen, nLines)
		return
	}
	// sharper: a $GENERATE denotes at most one record per step of its own range
	if len(ref.recs) > genMax+nLines {
		res.Fail("P7", "generate-more-than-one-record-per-step", "%d records from a tree whose %d $GENERATE directive(s) have %d steps in all and which has %d lines", len(ref.recs), nGen, genMax, nLines)
		return
	}
	// the offset guard: a modifier must not take the iterator below zero (a name with a minus sign in it)
	for i, l := range sc.Files[0].Lines {
		var lo, hi, off int
		if n, _ := fmt.Sscanf(l, "$GENERATE %d-%d q${%d,", &lo, &hi, &off); n == 3 && lo+off < 0 && balanced(sc.Files[0].Lines[:i]) {
			res.Bump("oracle.P7_offset_guard")
			if ref.err == "" {
				res.Fail("P7", "generate-offset-below-zero", "line %d (%q) applies offset %d to a range that starts at %d; the parser returned %d records and no error", i+1, l, off, lo, len(ref.recs))
				return
			}
		}
	}
	if nested {
		res.Bump("oracle.P7_nested_generate_rejected")
		if ref.err == "" {
			res.Fail("P7", "nested-generate-accepted", "a $GENERATE that expands to a $GENERATE was accepted without error")
			return
		}
	}
	// P3: a closing parenthesis that closes nothing is a syntax error wherever
	// it stands; it must be reported, whatever record type it follows
	if i := strayParen(sc.Files[0].Lines); i >= 0 {
		res.Bump("oracle.P3_stray_paren_reported")
		if ref.err == "" {
			res.Fail("P3", "stray-paren-not-reported", "line %d of %s has a closing parenthesis that closes nothing (%q); the parser returned %d records and no error", i+1, sc.Files[0].Name, sc.Files[0].Lines[i], len(ref.recs))
			return
		}
	}
	if last := at(sc.Files[0].Lines, len(sc.Files[0].Lines)-1); sc.TruncLast && slices.Contains(truncLines, last) {
		res.Bump("oracle.P3_truncated_record_reported")
		if ref.err == "" {
			res.Fail("P3", "truncated-record-accepted", "the text ends in the middle of a record (%q, then end of input): the parser returned %d records and no error", last, len(ref.recs))
			return
		}
	}
	marker := "999.1.1.1"
	if sc.Planted != nil && sc.Planted.Marker != "" {
		marker = sc.Planted.Marker
	}
	if sc.Planted != nil {
		res.Bump("oracle.P8_error_position")
		want := fmt.Sprintf("line: %d:", sc.Planted.Line)
		reached := sc.Planted.File == sc.Files[0].Name || ref.fs.OpenCount[sc.Planted.File] > 0
		if reached && errClass(ref.err) == "syntax" && strings.Contains(ref.err, marker) {
			if !strings.HasPrefix(ref.err, sc.Planted.File+": ") || !strings.Contains(ref.err, want) {
				res.Fail("P8", "error-position", "bad token planted at %s line %d, error says: %s", sc.Planted.File, sc.Planted.Line, ref.err)
				return
			}
			if sc.Planted.PadCol > 0 {
				// the column: wherever exactly a token's position is counted from, it lies beyond the blanks in front of it
				col := 0
				if i := strings.LastIndex(ref.err, want); i >= 0 {
					fmt.Sscanf(ref.err[i+len(want):], "%d", &col)
				}
				res.Bump("oracle.P8_error_column")
				if col <= sc.Planted.PadCol {
					res.Fail("P8", "error-column", "bad token planted behind %d blanks on line %d of %s, the error reports column %d: %s", sc.Planted.PadCol, sc.Planted.Line, sc.Planted.File, col, errTail(ref.err))
					return
				}
			}
		} else if reached && ref.err == "" {
			res.Fail("P3", "syntax-error-not-reported", "a record with an impossible address at %s line %d parsed without error", sc.Planted.File, sc.Planted.Line)
			return
		}
	}
	if sc.Planted != nil && sc.Planted.File == sc.Files[0].Name && strings.Contains(ref.err, marker) {
		// nothing is returned after the first problem, nothing before it is lost:
		// the records equal those of the same file cut just before the bad line
		cut := *sc
		cut.Files = append([]File(nil), sc.Files...)
		cut.Files[0].Lines = sc.Files[0].Lines[:sc.Planted.Line-1]
		cut.Files[0].NoEOL = false
		pre, ok := guarded(limit, func() *outcome { return parse(&cut, nil, 0) })
		if !ok {
			hang(res, "parsing the tree cut before the planted error")
			return
		}
		res.Bump("oracle.P3_no_records_after_syntax_error")
		if pre.err == "" && (len(pre.recs) != len(ref.recs) || hashStrings(pre.recs, "") != hashStrings(ref.recs, "")) {
			res.Fail("P3", "records-after-syntax-error", "the zone up to the bad line denotes %d records, the parser returned %d before reporting the error", len(pre.recs), len(ref.recs))
			return
		}
	}
	if !sc.Include {
		res.Bump("oracle.P5_include_gate")
	}
	// the same tree under faults
	if len(sc.Faults) == 0 && sc.ShortRead == 0 && !sc.Sweep {
		res.Nontrivial = len(ref.recs) > 0 || ref.err != ""
		res.Class = fmt.Sprintf("zone/nofault/%s/inc=%v/br=%v", errClass(ref.err), sc.Include, sc.ByteReader)
		return
	}
	if sc.Sweep {
		// a read error at every octet of every file of this (small) tree
		total := 0
		for _, f := range sc.Files {
			total += len(f.Text())
		}
		if total <= 600 && len(ref.recs) <= 2000 { // (a tree with a large $GENERATE is parsed once per octet otherwise: minutes, not a hang)
			res.Bump("fault.exhaustive_sweep")
			for _, f := range sc.Files {
				for at := 0; at <= len(f.Text()); at++ {
					c := *sc
					// odd run seeds sweep transient errors (the read fails once), even ones lasting errors
					c.Faults = []simfs.Fault{{File: f.Name, Kind: "readerr", At: at, Once: sc.RunSeed%2 == 1}}
					c.ShortRead = 0
					faultyRun(&c, res, ref, func(string, ...any) {})
					if res.Verdict != core.OK {
						res.Msg = fmt.Sprintf("[read error at octet %d of %s] %s", at, f.Name, res.Msg)
						return
					}
					res.Bump("oracle.P4_sweep_positions")
				}
			}
			res.Nontrivial = true
			res.Class = fmt.Sprintf("zone/sweep/ref=%s/inc=%v/br=%v", errClass(ref.err), sc.Include, sc.ByteReader)
			return
		}
	}
	faultyRun(sc, res, ref, logf)
}

// genSteps returns how many steps the range of a $GENERATE line has (own
// reading of "start-stop[/step]"), 65536 when in doubt or above.
func genSteps(l string) int {
	f := strings.Fields(l)
	if len(f) < 2 {
		return 65536
	}
	rng, step := f[1], new(big.Int).SetInt64(1)
	if i := strings.IndexByte(rng, '/'); i >= 0 {
		if _, ok := step.SetString(rng[i+1:], 10); !ok || step.Sign() <= 0 {
			return 65536
		}
		rng = rng[:i]
	}
	a, b, ok := strings.Cut(rng, "-")
	lo, ok1 := new(big.Int).SetString(a, 10)
	hi, ok2 := new(big.Int).SetString(b, 10)
	if !ok || !ok1 || !ok2 || hi.Cmp(lo) < 0 {
		return 65536
	}
	n := new(big.Int).Sub(hi, lo)
	n.Div(n, step).Add(n, big.NewInt(1))
	if !n.IsInt64() || n.Int64() > 65536 {
		return 65536
	}
	return int(n.Int64())
}

// faultyRun parses the tree under sc's faults and judges it against the
// fault-free parse ref.
func faultyRun(sc *Scenario, res *core.Result, ref *outcome, logf func(string, ...any)) {
	run, ok := guarded(limit, func() *outcome { return parse(sc, sc.Faults, sc.ShortRead) })
	if !ok {
		hang(res, "parsing the tree under injected faults")
		return
	}
	fired := 0
	for k, v := range run.fs.Fired {
		res.Add("fault."+k, v)
		if k != "short_read" && k != "zero_read" && k != "open_missing" && k != "read_error_wrapping_eof" && k != "read_error_temporary" && k != "stat_error" && k != "close_error" {
			fired += v
		}
	}
	logf("faulty: %d records (%x), err class %s, fired %d at record %d", len(run.recs), hashStrings(run.recs, run.err), errClass(run.err), fired, run.firedAt)
	judgeOne(sc, res, run, "faulty")
	if res.Verdict != core.OK {
		return
	}
	// P4. Without a fault that reached the parser (short reads only) the
	// result is exactly the fault-free one. With one, everything returned
	// before the call in which the first fault fired equals the fault-free
	// parse; the record in progress at that instant may come back truncated
	// (the lexer turns a read error into end-of-input plus a sticky error, the
	// statement does not forbid finishing the record in hand); nothing may
	// follow it - except when the interrupted line is a directive, whose
	// effect ($INCLUDE / $GENERATE acting on what had been read) is likewise
	// "the item in progress" and is not judged.
	res.Bump("oracle.P4_prefix")
	if fired == 0 {
		if len(run.recs) != len(ref.recs) || (run.err == "") != (ref.err == "") {
			res.Fail("P4", "short-reads-change-result", "with short reads only the parser returned %d records (err %q), without %d (err %q)", len(run.recs), run.err, len(ref.recs), ref.err)
			return
		}
		for i := range run.recs {
			if run.recs[i] != ref.recs[i] {
				res.Fail("P4", "short-reads-change-result", "record %d differs under short reads: %q vs %q", i, run.recs[i], ref.recs[i])
				return
			}
		}
	} else {
		k := run.firedAt
		if k > len(ref.recs) {
			res.Fail("P4", "records-before-fault-differ", "%d records had been returned before the first fault reached the parser, the fault-free parse has only %d", k, len(ref.recs))
			return
		}
		for i := 0; i < k; i++ {
			if run.recs[i] != ref.recs[i] {
				res.Fail("P4", "records-before-fault-differ", "record %d (returned before any fault) is %q, fault-free parse has %q", i, run.recs[i], ref.recs[i])
				return
			}
		}
		if len(run.recs) > k+1 && !directiveInterrupted(sc) {
			res.Bump("oracle.P4_nothing_after_error")
			res.Fail("P4", "records-after-error", "%d records were returned after the call in which the I/O error reached the parser (at most the one in progress is expected)", len(run.recs)-k)
			return
		}
		res.Bump("oracle.P4_nothing_after_error")
	}
	// P3: a fault that reached the parser must surface
	if fired > 0 {
		res.Bump("oracle.P3_fault_reported")
		if run.err == "" {
			res.Fail("P3", "io-error-swallowed", "an injected I/O error was returned to the parser (%v) but Err() is nil after %d records", run.fs.Fired, len(run.recs))
			return
		}
	}
	res.Nontrivial = true
	ctx := "none"
	if len(sc.Faults) > 0 {
		ctx = lexContext(sc, sc.Faults[0])
	}
	res.Class = fmt.Sprintf("zone/%s/%s/ref=%s/run=%s/inc=%v/br=%v", faultKinds(sc), ctx, errClass(ref.err), errClass(run.err), sc.Include, sc.ByteReader)
}

// directiveInterrupted reports whether any injected read error falls on a
// directive line (or on a line of a parenthesised group that began on one).
func directiveInterrupted(sc *Scenario) bool {
	for _, f := range sc.Faults {
		if f.Kind != "readerr" {
			continue
		}
		for _, fl := range sc.Files {
			if fl.Name != f.File {
				continue
			}
			t := fl.Text()
			if f.At > len(t) {
				continue
			}
			ls := strings.LastIndexByte(t[:f.At], '\n') + 1
			if strings.HasPrefix(strings.TrimLeft(t[ls:], " \t"), "$") {
				return true
			}
			// a directive whose text runs over several lines (an open quote or
			// parenthesis): the line on which the open construct began decides
			if ls := logicalLineStart(t, f.At); strings.HasPrefix(strings.TrimLeft(t[ls:], " \t"), "$") {
				return true
			}
		}
	}
	return false
}

// logicalLineStart returns the offset at which the logical line holding offset
// at begins: newlines inside quotes or parentheses do not end a line (the
// lexer's rules: a backslash takes the next octet with it, a semicolon
// outside quotes starts a comment that runs to the end of the physical line).
func logicalLineStart(t string, at int) int {
	start, inQuote, depth, comment := 0, false, 0, false
	for i := 0; i < len(t) && i < at; i++ {
		c := t[i]
		if c == '\n' {
			comment = false
			if !inQuote && depth == 0 {
				start = i + 1
			}
			continue
		}
		if comment {
			continue
		}
		switch c {
		case '\\':
			if i+1 < len(t) && t[i+1] != '\n' {
				i++
			}
		case '"':
			inQuote = !inQuote
		case ';':
			if !inQuote {
				comment = true
			}
		case '(':
			if !inQuote {
				depth++
			}
		case ')':
			if !inQuote && depth > 0 {
				depth--
			}
		}
	}
	return start
}

// strayParen returns the index of the first line that holds an unmatched ")"
// in plain view (no quotes, escapes or comments on the line, everything before
// it balanced, the line is a record and not a directive), or -1.
func strayParen(lines []string) int {
	for i, l := range lines {
		if !balanced(lines[:i]) {
			return -1
		}
		if strings.ContainsAny(l, "\"\\;\x00") {
			continue
		}
		up := strings.ToUpper(l)
		if strings.Contains(l, "$") && !(strings.HasPrefix(up, "$TTL ") || strings.HasPrefix(up, "$ORIGIN ") || strings.HasPrefix(up, "$INCLUDE ")) {
			continue // $GENERATE has its own grammar
		}
		if strings.Count(l, ")") > strings.Count(l, "(") && len(strings.Fields(l)) >= 3 {
			// make sure the first unmatched one is reached before any "("
			depth := 0
			for _, c := range l {
				if c == '(' {
					depth++
				} else if c == ')' {
					depth--
					if depth < 0 {
						return i
					}
				}
			}
		}
	}
	return -1
}

// balanced reports whether the lines leave no quote, parenthesis or escape
// open (conservative: any doubt counts as unbalanced).
func balanced(lines []string) bool {
	depth := 0
	for _, l := range lines {
		if strings.ContainsAny(l, "\x00") || strings.HasSuffix(l, "\\") {
			return false
		}
		// quotes as the lexer sees them: a backslash takes the next octet with it
		inQuote := false
		for i := 0; i < len(l); i++ {
			switch l[i] {
			case '\\':
				i++
			case '"':
				inQuote = !inQuote
			}
		}
		if inQuote {
			return false
		}
		// parentheses outside quotes and comments only matter; count crudely
		// and give up on lines where they might be inside a string
		if strings.ContainsAny(l, "()") && strings.Contains(l, "\"") {
			return false
		}
		if i := strings.IndexByte(l, ';'); i >= 0 && !strings.Contains(l, "\"") {
			l = l[:i]
		}
		depth += strings.Count(l, "(") - strings.Count(l, ")")
		if depth < 0 {
			return false
		}
	}
	return depth == 0
}

func hashStrings(ss []string, extra string) uint64 {
	h := uint64(1469598103934665603)
	for _, s := range append(ss, extra) {
		for i := 0; i < len(s); i++ {
			h ^= uint64(s[i])
			h *= 1099511628211
		}
		h ^= 0xff
		h *= 1099511628211
	}
	return h
}

func at(s []string, i int) string {
	if i >= 0 && i < len(s) {
		return s[i]
	}
	return "<none>"
}

func faultKinds(sc *Scenario) string {
	if len(sc.Faults) == 0 {
		return "short"
	}
	var k []string
	for _, f := range sc.Faults {
		k = append(k, f.Kind)
	}
	return strings.Join(k, "+")
}

// lexContext classifies where in the text a read error falls.
func lexContext(sc *Scenario, f simfs.Fault) string {
	if f.Kind != "readerr" {
		return "open"
	}
	for _, fl := range sc.Files {
		if fl.Name != f.File {
			continue
		}
		t := fl.Text()
		switch {
		case f.At == 0:
			return "first-octet"
		case f.At >= len(t):
			return "at-eof"
		}
		ls := strings.LastIndexByte(t[:f.At], '\n') + 1
		line := t[ls:f.At]
		switch {
		case strings.Count(line, "\"")%2 == 1:
			return "in-quote"
		case strings.Contains(line, ";"):
			return "in-comment"
		case strings.HasPrefix(line, "$"):
			return "in-directive"
		case strings.Count(t[:f.At], "(") > strings.Count(t[:f.At], ")"):
			return "in-parens"
		case len(strings.Fields(line)) <= 1:
			return "in-owner"
		}
		return "in-rdata"
	}
	return "other-file"
}

func judgeOne(sc *Scenario, res *core.Result, o *outcome, which string) {
	if o.overflow {
		res.Fail("P7", "records-unbounded", "the parser had returned %d records from a tree of %d file(s) when it was stopped: more than 64 readings of every file with every $GENERATE at 65536 could yield (%s tree)", len(o.recs), len(sc.Files), which)
		return
	}
	res.Bump("oracle.P2_no_panic")
	if o.panicked != "" {
		res.Fail("P2", "panic:"+firstFrame(o.panicked), "the parser panicked on the %s tree: %s", which, o.panicked)
		return
	}
	if o.polls > 0 {
		res.Bump("oracle.P3_no_records_after_err_reported")
		if o.pollErr != "" && len(o.recs) > o.pollErrAt && !directiveInterrupted(sc) {
			res.Fail("P3", "records-after-err", "Err() returned %q after %d records, and Next went on to return %d more (%s tree)", errTail(o.pollErr), o.pollErrAt, len(o.recs)-o.pollErrAt, which)
			return
		}
	}
	res.Bump("oracle.P3_sticky_end")
	if o.sticky != "" {
		res.Fail("P3", "end-not-sticky", "%s (%s tree)", o.sticky, which)
		return
	}
	if !sc.Include && o.fs.Opens != 0 {
		res.Fail("P5", "open-without-permission", "includes were not enabled, yet the parser opened %v (%s tree)", o.fs.OpenedLog, which)
		return
	}
	res.Bump("oracle.P5_depth_bound")
	if o.fs.MaxNest > 32 {
		res.Fail("P5", "include-depth", "%d include files were open at once", o.fs.MaxNest)
		return
	}
	res.Bump("oracle.P6_files_closed")
	if o.fs.Nest != 0 {
		res.Fail("P6", "include-left-open", "%d of %d opened include file(s) were not closed when parsing ended (%s tree, err %q)", o.fs.Nest, o.fs.Opens-o.fs.OpenFails, which, o.err)
		return
	}
	res.Add("cover.records", len(o.recs))
	res.Add("cover.include_opens", o.fs.Opens)
	if o.fs.MaxNest >= 7 {
		res.Bump("probe.include_depth_limit_reached")
	}
}

func errTail(e string) string {
	if len(e) > 160 {
		return "..." + e[len(e)-160:]
	}
	return e
}

func firstFrame(p string) string {
	if i := strings.Index(p, "github.com/miekg/dns."); i >= 0 {
		s := p[i+len("github.com/miekg/dns."):]
		if j := strings.IndexAny(s, " <\n"); j > 0 {
			s = s[:j]
		}
		return s
	}
	return "?"
}

// runChain: include chains of growing length must stop at the same depth.
func runChain(sc *Scenario, res *core.Result, logf func(string, ...any)) {
	var nests []int
	for _, n := range []int{10, 20, 40} {
		c := &Scenario{RunSeed: sc.RunSeed, Origin: "example.org.", Include: true, ByteReader: sc.ByteReader}
		for i := 0; i < n; i++ {
			lines := []string{fmt.Sprintf("h%d 300 IN A 192.0.2.%d", i, i)}
			if i+1 < n {
				lines = append(lines, fmt.Sprintf("$INCLUDE /chain/f%d.zone", i+1))
			}
			c.Files = append(c.Files, File{Name: fmt.Sprintf("chain/f%d.zone", i), Lines: lines})
		}
		o, ok := guarded(limit, func() *outcome { return parse(c, nil, sc.ShortRead) })
		if !ok {
			hang(res, "parsing an include chain")
			return
		}
		judgeOne(c, res, o, fmt.Sprintf("chain-%d", n))
		if res.Verdict != core.OK {
			return
		}
		res.Bump("oracle.P5_chain_stops")
		if o.err == "" {
			res.Fail("P5", "include-chain-unbounded", "an include chain of %d files was followed to the end (%d records) without error", n, len(o.recs))
			return
		}
		nests = append(nests, o.fs.MaxNest)
		logf("chain %d: max nesting %d, %d records", n, o.fs.MaxNest, len(o.recs))
	}
	if nests[0] != nests[1] || nests[1] != nests[2] {
		res.Fail("P5", "include-depth-grows", "maximum include nesting depends on the input: %v for chains of 10, 20, 40 files", nests)
		return
	}
	// a file that includes itself
	self := &Scenario{RunSeed: sc.RunSeed, Origin: "example.org.", Include: true,
		Files: []File{{Name: "zones/self.zone", Lines: []string{"a 300 IN A 192.0.2.1", "$INCLUDE self.zone", "b 300 IN A 192.0.2.2"}}}}
	o, ok := guarded(limit, func() *outcome { return parse(self, nil, sc.ShortRead) })
	if !ok {
		hang(res, "parsing a file that includes itself")
		return
	}
	judgeOne(self, res, o, "self-include")
	if res.Verdict == core.OK && o.err == "" {
		res.Fail("P5", "self-include-accepted", "a file including itself parsed without error (%d records)", len(o.recs))
	}
	res.Bump("oracle.P5_self_include_stops")
	res.Nontrivial = true
	res.Class = fmt.Sprintf("chain/nest=%d/short=%d/br=%v", nests[0], sc.ShortRead, sc.ByteReader)
	if res.Verdict == core.OK {
		selfIncludeThroughGenerate(sc, res, logf)
	}
	if res.Verdict == core.OK && sc.RunSeed%4 == 0 {
		manyReadRRThroughInclude(sc, res, logf)
	}
}

// selfIncludeThroughGenerate: a file that includes itself from inside a
// $GENERATE, reached through 0..3 ordinary includes. The text a $GENERATE
// expands to opens its includes through the operating system whatever include
// file system is configured (DESIGN appendix B), so this tree lives on disk, in
// a scratch directory under the worker's working directory. Every level
// returns one record before it nests, so the number of records is the depth
// reached.
func selfIncludeThroughGenerate(sc *Scenario, res *core.Result, logf func(string, ...any)) {
	dir, err := os.MkdirTemp(".", "c07-osgen-")
	if err != nil {
		return
	}
	defer os.RemoveAll(dir)
	abs, err := filepath.Abs(dir)
	if err != nil {
		return
	}
	hops := int(sc.RunSeed % 4)
	next := func(i int) string {
		if i < hops {
			return fmt.Sprintf("%s/hop%d.zone", abs, i)
		}
		return abs + "/self.zone"
	}
	for i := 0; i < hops; i++ {
		os.WriteFile(next(i), []byte(fmt.Sprintf("h%d 300 IN A 192.0.2.%d\n$INCLUDE %s\n", i, i, next(i+1))), 0o644)
	}
	body := "s 300 IN A 192.0.2.9\n$GENERATE 0-0 $$INCLUDE " + abs + "/self.zone\n"
	if sc.RunSeed%8 >= 4 {
		// alternately through the $GENERATE and directly
		body = "s 300 IN A 192.0.2.9\n$GENERATE 0-0 $$INCLUDE " + abs + "/other.zone\n"
		os.WriteFile(abs+"/other.zone", []byte("o 300 IN A 192.0.2.8\n$INCLUDE "+abs+"/self.zone\n"), 0o644)
	}
	os.WriteFile(abs+"/self.zone", []byte(body), 0o644)
	// a parser that never stops nesting must run out of descriptors long before it runs out of memory
	var old syscall.Rlimit
	if syscall.Getrlimit(syscall.RLIMIT_NOFILE, &old) == nil && old.Cur > 512 {
		syscall.Setrlimit(syscall.RLIMIT_NOFILE, &syscall.Rlimit{Cur: 512, Max: old.Max})
		defer syscall.Setrlimit(syscall.RLIMIT_NOFILE, &old)
	}
	type result struct {
		n        int
		err, pan string
	}
	out, ok := guarded(limit, func() (r result) {
		defer func() {
			if p := recover(); p != nil {
				r.pan = fmt.Sprintf("%v\n%s", p, libFrames(string(debug.Stack())))
			}
		}()
		zp := dns.NewZoneParser(strings.NewReader("$INCLUDE "+next(0)+"\n"), "example.org.", abs+"/main.zone")
		zp.SetIncludeAllowed(true)
		for _, ok := zp.Next(); ok && r.n < 100000; _, ok = zp.Next() {
			r.n++
		}
		if e := zp.Err(); e != nil {
			r.err = e.Error()
		}
		return r
	})
	if !ok {
		hang(res, "parsing a file that includes itself through $GENERATE")
		return
	}
	logf("self-include through $GENERATE (%d hops): %d records, err class %s", hops, out.n, errClass(out.err))
	// files included from the text a $GENERATE expands to, the second of them unreadable (a directory):
	// one record from the first, then an error - not a panic, not silence
	os.WriteFile(abs+"/part0", []byte("p0 300 IN A 192.0.2.30\n"), 0o644)
	os.Mkdir(abs+"/part1", 0o755)
	gi, ok := guarded(limit, func() (r result) {
		defer func() {
			if p := recover(); p != nil {
				r.pan = fmt.Sprintf("%v\n%s", p, libFrames(string(debug.Stack())))
			}
		}()
		zp := dns.NewZoneParser(strings.NewReader("$GENERATE 0-1 $$INCLUDE "+abs+"/part$\nafter 300 IN A 192.0.2.31\n"), "example.org.", abs+"/gen.zone")
		zp.SetIncludeAllowed(true)
		for _, ok := zp.Next(); ok && r.n < 1000; _, ok = zp.Next() {
			r.n++
		}
		if e := zp.Err(); e != nil {
			r.err = e.Error()
		}
		return r
	})
	if !ok {
		hang(res, "parsing a $GENERATE whose text includes a file and a directory")
		return
	}
	res.Bump("oracle.P3_unreadable_include_from_generate_reported")
	switch {
	case gi.pan != "":
		res.Fail("P2", "panic:"+firstFrame(gi.pan), "the parser panicked on an include made by a $GENERATE whose target cannot be read (a directory): %s", gi.pan)
		return
	case gi.err == "" || gi.n > 1:
		res.Fail("P3", "io-error-swallowed", "a $GENERATE expanded to two $INCLUDE lines, the second of a directory: %d records were returned, Err() says %q (one record, then an error, is what is there)", gi.n, gi.err)
		return
	}
	res.Bump("oracle.P5_self_include_through_generate_stops")
	switch {
	case out.pan != "":
		res.Fail("P2", "panic:"+firstFrame(out.pan), "the parser panicked on a file that includes itself through $GENERATE: %s", out.pan)
	case out.n > 32:
		res.Fail("P5", "include-depth-through-generate", "a file that includes itself from inside a $GENERATE (reached through %d ordinary include(s)) was followed %d levels deep (%s): nesting does not stop at a fixed depth", hops, out.n, errClass(out.err))
	case out.err == "":
		res.Fail("P5", "self-include-accepted", "a file including itself from inside a $GENERATE parsed without error (%d records)", out.n)
	}
}

// runDeep: a $GENERATE line with 1.2 million escaped characters in its text. One record, then the next line.
// runBigFile: an include file of many megabytes - a record, comment lines, another record. Memory and time in
// proportion to the input are fine; what is behind the comments is part of the zone like what is in front of them.
func runBigFile(sc *Scenario, res *core.Result, logf func(string, ...any)) {
	mib := []int{17, 33, 33, 33, 65}[sc.RunSeed%5]
	line := "; " + strings.Repeat("c", 1021) + "\n"
	var b strings.Builder
	b.Grow(mib<<20 + 4096)
	b.WriteString("first 300 IN A 192.0.2.1\n")
	for b.Len() < mib<<20+100 {
		b.WriteString(line)
	}
	b.WriteString("last 300 IN A 192.0.2.2\n")
	fsys := fstest.MapFS{"zones/big.zone": &fstest.MapFile{Data: []byte(b.String())}}
	type result struct {
		recs     []string
		err, pan string
	}
	out, ok := guarded(3*limit, func() (r result) {
		defer func() {
			if p := recover(); p != nil {
				r.pan = fmt.Sprintf("%v\n%s", p, libFrames(string(debug.Stack())))
			}
		}()
		zp := dns.NewZoneParser(strings.NewReader("$INCLUDE /zones/big.zone\nafter 300 IN A 192.0.2.77\n"), "example.org.", "zones/main.zone")
		zp.SetIncludeAllowed(true)
		zp.SetIncludeFS(fsys)
		for rr, ok := zp.Next(); ok && len(r.recs) < 10; rr, ok = zp.Next() {
			r.recs = append(r.recs, rr.Header().Name)
		}
		if e := zp.Err(); e != nil {
			r.err = e.Error()
		}
		return r
	})
	res.Bump("oracle.P3_large_include_file")
	switch {
	case !ok:
		hang(res, fmt.Sprintf("parsing an include file of %d MiB", mib))
	case out.pan != "":
		res.Fail("P2", "panic:"+firstFrame(out.pan), "the parser panicked on an include file of %d MiB: %s", mib, out.pan)
	case out.err == "" && strings.Join(out.recs, " ") != "first.example.org. last.example.org. after.example.org.":
		res.Fail("P3", "records-lost", "an include file of %d MiB (a record, comment lines, a record) in a zone with one more record behind the $INCLUDE: the parser returned %v and no error", mib, out.recs)
	}
	logf("bigfile %d MiB: %v, err %q", mib, out.recs, out.err)
	res.Nontrivial = true
	res.Class = "bigfile/" + errClass(out.err)
}

func runDeep(sc *Scenario, res *core.Result, logf func(string, ...any)) {
	txt := "$GENERATE 1-1 d" + strings.Repeat("\\a", 1200000) + " TXT x\nafter 300 IN A 192.0.2.77\n"
	what := "a $GENERATE line with a million escaped characters"
	if sc.Kind == "deeplines" {
		// each of these expands to a $TTL directive: no record, the parser comes back for the next line
		txt = "first 300 IN A 192.0.2.76\n" + strings.Repeat("$GENERATE 1-1 $$TTL 5\n", 400000) + "after 300 IN A 192.0.2.77\n"
		what = "400 000 $GENERATE directives in a row that yield no record"
	}
	type result struct {
		n        int
		err, pan string
	}
	out, ok := guarded(3*limit, func() (r result) {
		defer func() {
			if p := recover(); p != nil {
				r.pan = fmt.Sprintf("%v\n%s", p, libFrames(string(debug.Stack())))
			}
		}()
		zp := dns.NewZoneParser(strings.NewReader(txt), "example.org.", "zones/deep.zone")
		for _, ok := zp.Next(); ok && r.n < 10; _, ok = zp.Next() {
			r.n++
		}
		if e := zp.Err(); e != nil {
			r.err = e.Error()
		}
		return r
	})
	res.Bump("oracle.P7_long_run_of_escapes")
	switch {
	case !ok:
		hang(res, "parsing "+what)
	case out.pan != "":
		res.Fail("P2", "panic:"+firstFrame(out.pan), "the parser panicked on %s: %s", what, out.pan)
	case out.n != 2 && out.err == "":
		res.Fail("P3", "records-lost", "%s, with a record on either side: %d records, no error", what, out.n)
	}
	logf("deep: %d records, err %q", out.n, out.err)
	res.Nontrivial = true
	res.Class = "deep/" + errClass(out.err)
}

// --- another task of the application registers and removes a private record type while this one parses

const privType = 65290

type privRdata struct{ v string }

func (p *privRdata) String() string { return p.v }
func (p *privRdata) Parse(t []string) error {
	p.v = strings.Join(t, " ")
	return nil
}
func (p *privRdata) Pack(b []byte) (int, error)   { return copy(b, p.v), nil }
func (p *privRdata) Unpack(b []byte) (int, error) { p.v = string(b); return len(b), nil }
func (p *privRdata) Copy(d dns.PrivateRdata) error {
	d.(*privRdata).v = p.v
	return nil
}
func (p *privRdata) Len() int { return len(p.v) }

type concTask struct {
	k    *kernel.K
	sc   *Scenario
	out  *outcome
	fin  *int
	role string
}

func (c *concTask) RunEvent(time.Time) {
	k := c.k
	if c.role == "parser" {
		o := parseHook(c.sc, nil, c.sc.ShortRead, func(site string) { k.Yield(site, 0) })
		k.Lock()
		*c.out = *o
		*c.fin++
		k.Unlock()
		return
	}
	for i := 0; i < c.sc.Registrar; i++ {
		k.Yield("registrar", 1)
		if i%2 == 0 {
			dns.PrivateHandle("XPRIV9", privType, func() dns.PrivateRdata { return &privRdata{} })
		} else {
			dns.PrivateHandleRemove(privType)
		}
	}
	k.Lock()
	*c.fin++
	k.Unlock()
}

type concDone struct{ fin *int }

func (d concDone) Check(time.Time) string {
	if *d.fin == 2 {
		return "done"
	}
	return ""
}

func runConcurrent(t *testing.T, sc *Scenario, res *core.Result, logf func(string, ...any)) {
	if len(sc.Files) == 0 {
		return
	}
	ref, ok := guarded(limit, func() *outcome { return parse(sc, nil, 0) })
	if !ok {
		hang(res, "parsing the fault-free tree")
		return
	}
	judgeOne(sc, res, ref, "fault-free")
	if res.Verdict != core.OK {
		return
	}
	logf("reference: %d records (%x), err class %s", len(ref.recs), hashStrings(ref.recs, ref.err), errClass(ref.err))
	res.Nontrivial = true
	if core.Mode != "instr" {
		// only where the library's locks are the scheduler's can a task be held while it owns one
		res.Class = "concurrent/serial-only"
		return
	}
	defer dns.PrivateHandleRemove(privType)
	var run outcome
	fin, outc, parked := 0, "", ""
	common.Bubble(t, func() {
		k := kernel.New(kernel.Config{Seed: sc.RunSeed, Strategy: int(sc.RunSeed % kernel.NumStrats), PCTDepth: 2, PCTSpan: 40, MaxSteps: 20000})
		kernel.SetCurrent(k)
		defer kernel.SetCurrent(nil)
		k.Go("parser", &concTask{k: k, sc: sc, out: &run, fin: &fin, role: "parser"})
		k.Go("registrar", &concTask{k: k, sc: sc, fin: &fin, role: "registrar"})
		outc = k.Run(concDone{&fin})
		res.Steps = k.Steps
		for _, st := range k.Parked() {
			parked += " " + st
		}
		if outc == kernel.Finished {
			k.Abort()
		}
	})
	logf("concurrent: %s after %d steps, %d records", outc, res.Steps, len(run.recs))
	res.Bump("oracle.P1_terminates_beside_registration")
	res.Add("fault.private_type_registered_meanwhile", sc.Registrar)
	switch outc {
	case kernel.Finished:
	case kernel.Quiescent:
		// every task waits for a lock another one holds: nothing can ever happen again
		core.Abandon = true
		res.Fail("P1", "no-termination:deadlock", "parsing a zone with a $GENERATE / $INCLUDE while another goroutine called PrivateHandle / PrivateHandleRemove (%d calls, for a type the zone does not use) came to a standstill after %d scheduling steps: every task waits for a lock (parked at:%s)", sc.Registrar, res.Steps, parked)
		return
	default:
		core.Abandon = true
		res.Verdict, res.Msg = core.Harness, "concurrent parse ended with "+outc
		return
	}
	judgeOne(sc, res, &run, "concurrent")
	if res.Verdict != core.OK {
		return
	}
	res.Bump("oracle.P4_prefix")
	if len(run.recs) != len(ref.recs) || errClass(run.err) != errClass(ref.err) || hashStrings(run.recs, "") != hashStrings(ref.recs, "") {
		res.Fail("P4", "concurrent-registration-changes-result", "beside a task that registers and removes an unrelated private type the parser returned %d records (err %q), alone %d (err %q)", len(run.recs), run.err, len(ref.recs), ref.err)
		return
	}
	res.Class = fmt.Sprintf("concurrent/reg=%d/%s", sc.Registrar, errClass(ref.err))
}

// manyReadRRThroughInclude: many single-record reads in a row, each of an $INCLUDE line whose file holds two
// records: every one of them leaves its parser in the middle of the included file. Whatever the parsers share
// must not run out. (The abandoned parsers' files are closed by the garbage collector, which is asked to.)
func manyReadRRThroughInclude(sc *Scenario, res *core.Result, logf func(string, ...any)) {
	dir, err := os.MkdirTemp(".", "c07-many-")
	if err != nil {
		return
	}
	defer os.RemoveAll(dir)
	abs, err := filepath.Abs(dir)
	if err != nil {
		return
	}
	defer func() { runtime.GC(); runtime.GC() }()
	type result struct {
		n        int
		err, pan string
	}
	os.WriteFile(abs+"/two.zone", []byte("t1 300 IN A 192.0.2.21\nt2 300 IN A 192.0.2.22\n"), 0o644)
	many, ok := guarded(limit, func() (r result) {
		defer func() {
			if p := recover(); p != nil {
				r.pan = fmt.Sprintf("%v\n%s", p, libFrames(string(debug.Stack())))
			}
		}()
		for i := 0; i < 70; i++ {
			rr, err := dns.ReadRR(strings.NewReader("$INCLUDE "+abs+"/two.zone\n"), abs+"/one.zone")
			if err != nil || rr == nil || !strings.HasPrefix(rr.String(), "t1.") {
				r.err = fmt.Sprintf("call %d returned %v, %v", i+1, rr, err)
				return r
			}
			r.n++
		}
		return r
	})
	if !ok {
		hang(res, "reading one record through an $INCLUDE, many times over,")
		return
	}
	res.Bump("oracle.P1_abandoned_parsers_do_not_block_later_ones")
	switch {
	case many.pan != "":
		res.Fail("P2", "panic:"+firstFrame(many.pan), "ReadRR of an $INCLUDE line panicked: %s", many.pan)
		return
	case many.err != "":
		res.Fail("P3", "readrr-through-include", "ReadRR of an $INCLUDE line whose file holds two records, repeated: %s", many.err)
		return
	}
	logf("%d single-record reads through an $INCLUDE", many.n)
}

// keyFieldMissing names a field that a key file of its (clearly stated) algorithm cannot do without and that the
// text does not have, or "" - also when the text is not plainly "Field: value" lines.
func keyFieldMissing(text string) string {
	have := map[string]bool{}
	alg := ""
	for _, l := range strings.Split(text, "\n") {
		if l == "" {
			continue
		}
		kv := strings.SplitN(l, ": ", 2)
		if len(kv) != 2 || strings.ContainsAny(kv[0], " \t") {
			return ""
		}
		have[strings.ToLower(kv[0])] = true
		if strings.EqualFold(kv[0], "algorithm") {
			alg = strings.Fields(kv[1] + " x")[0]
		}
	}
	if !have["private-key-format"] {
		return ""
	}
	var need []string
	switch alg {
	case "13", "15":
		need = []string{"privatekey"}
	case "8":
		need = []string{"modulus", "publicexponent", "privateexponent", "prime1", "prime2"}
	}
	for _, n := range need {
		if !have[n] {
			return n
		}
	}
	return ""
}

// runSmall: ReadRR and ReadPrivateKey over a faulty reader.
func runSmall(sc *Scenario, res *core.Result, logf func(string, ...any)) {
	if len(sc.Files) == 0 {
		return
	}
	f := sc.Files[0]
	type small struct {
		out, err, pan string
		fired         bool
	}
	do := func(faults []simfs.Fault, short int) small {
		fsys := simfs.New(nil, faults, short, core.Rng(sc.RunSeed^0xf5))
		rd := fsys.Reader(f.Name, []byte(f.Text()))
		var s small
		func() {
			defer func() {
				if r := recover(); r != nil {
					s.pan = fmt.Sprintf("%v\n%s", r, libFrames(string(debug.Stack())))
				}
			}()
			var in io.Reader = rd
			if sc.ByteReader {
				in = simfs.ByteReader{Reader: rd}
			}
			if sc.Kind == "readrr" {
				rr, err := dns.ReadRR(in, f.Name)
				if rr != nil {
					s.out = rr.String()
				}
				if err != nil {
					s.err = err.Error()
				}
			} else {
				k := &dns.DNSKEY{Algorithm: dns.ED25519}
				if strings.Contains(f.Text(), "ECDSAP256") {
					k.Algorithm = dns.ECDSAP256SHA256
				}
				if strings.Contains(f.Text(), "RSASHA256") {
					k.Algorithm = dns.RSASHA256
				}
				p, err := k.ReadPrivateKey(in, f.Name)
				s.out = fmt.Sprintf("%T", p)
				if err != nil {
					s.err = err.Error()
				}
			}
		}()
		s.fired = rd.Failed()
		return s
	}
	ref, ok := guarded(limit, func() small { return do(nil, 0) })
	if !ok {
		hang(res, sc.Kind)
		return
	}
	run, ok := guarded(limit, func() small { return do(sc.Faults, sc.ShortRead) })
	if !ok {
		hang(res, sc.Kind+" under faults")
		return
	}
	res.Bump("oracle.P2_no_panic")
	for _, s := range []small{ref, run} {
		if s.pan != "" {
			res.Fail("P2", "panic:"+firstFrame(s.pan), "%s panicked: %s", sc.Kind, s.pan)
			return
		}
	}
	if miss := keyFieldMissing(f.Text()); sc.Kind == "privkey" && miss != "" {
		// a key file without a field that makes the key: there is no key in it to return
		res.Bump("oracle.P3_key_file_without_key_material")
		if ref.err == "" {
			res.Fail("P3", "key-file-without-key-material-accepted", "ReadPrivateKey returned %s and no error for a key file that has no %s field", ref.out, miss)
			return
		}
	}
	logf("%s ref=%q/%s run=%q/%s fired=%v", sc.Kind, ref.out, errClass(ref.err), run.out, errClass(run.err), run.fired)
	if !run.fired {
		res.Bump("oracle.P4_prefix")
		if run.out != ref.out || (run.err == "") != (ref.err == "") {
			res.Fail("P4", "short-reads-change-result", "%s gave %q (err %q) with short reads and %q (err %q) without", sc.Kind, run.out, run.err, ref.out, ref.err)
			return
		}
	} else if sc.Kind == "readrr" && ref.err == "" {
		// a failing reader may cost ReadRR the record, but what it returns without an
		// error is the record that is there, not a shortened one
		res.Bump("oracle.P3_fault_reported")
		if run.err == "" && run.out != ref.out {
			res.Fail("P3", "io-error-swallowed", "ReadRR returned %q and no error although reading failed; the text holds %q", run.out, ref.out)
			return
		}
	} else if sc.Kind == "privkey" && ref.err == "" {
		// the key file is read to the end: a read error must surface
		res.Bump("oracle.P3_fault_reported")
		if run.err == "" {
			res.Fail("P3", "io-error-swallowed", "ReadPrivateKey returned a key and no error although reading the file failed")
			return
		}
	}
	if run.fired {
		res.Bump("fault.read_error")
	}
	res.Nontrivial = true
	res.Class = fmt.Sprintf("%s/fired=%v/ref=%s/run=%s/br=%v", sc.Kind, run.fired, errClass(ref.err), errClass(run.err), sc.ByteReader)
}

func init() {
	// registered for good, before any run: every run of this process sees the same type tables
	dns.PrivateHandle("XPRIV7", 65291, func() dns.PrivateRdata { return &privRdata{} })
	core.Register(&core.Prop{ID: "C07", Gen: Gen, Decode: Decode, Run: Run, Shrink: Shrink, Modes: []string{"pristine", "instr"}})
}
