// Package all links every property harness into a binary.
package all

import (
	_ "verifsim/props/c07"
	_ "verifsim/props/c11"
	_ "verifsim/props/c12"
	_ "verifsim/props/c13"
	_ "verifsim/props/c14"
	_ "verifsim/props/c15"
	_ "verifsim/props/c18"
)
