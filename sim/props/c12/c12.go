// Package c12 simulates exchanges: real Server + real Client/Conn over the
// simulated stream and datagram transports, N concurrent clients, any
// segmentation, stale / duplicate / foreign-ID replies, receive-buffer
// recycling with poisoning (DESIGN 4, C12).
package c12

import (
	"bytes"
	"context"
	"encoding/json"
	"errors"
	"fmt"
	"io"
	"net"
	"reflect"
	"sort"
	"strconv"
	"strings"
	"testing"
	"time"

	"github.com/miekg/dns"
	"verifsim/core"
	"verifsim/kernel"
	"verifsim/oracle"
	"verifsim/props/common"
	"verifsim/simnet"
)

type HPlan struct {
	Kind      string `json:"kind"` // normal | wrongid | twice | silent | oversize | wrongthenright
	Steps     int    `json:"steps,omitempty"`
	SleepMs   int    `json:"sleep,omitempty"`
	ReplySize int    `json:"reply_size,omitempty"`
}

type Exch struct {
	Size      int    `json:"size,omitempty"` // packed request size (0 = minimal)
	Compress  bool   `json:"compress,omitempty"`
	H         HPlan  `json:"h"`
	TimeoutMs int    `json:"timeout_ms"`
	ReadTOMs  int    `json:"read_to_ms,omitempty"` // Client.ReadTimeout / WriteTimeout are set as well, to another value: Client.Timeout overrides them
	API       int    `json:"api,omitempty"`        // 0 ExchangeWithConn, 1 ExchangeWithConnContext(ctx deadline), 2 WriteMsg+ReadMsg, 3 Exchange (the library dials, exchanges, closes), 4 ExchangeContext; 3 and 4 need the socket seam of the instrumented build and fall back to 0 and 1 without it
	Dial      string `json:"dial,omitempty"`       // API 3/4: "" the connection is there after DialMs | refused | blackhole (no answer to the connection attempt: the dial must give up by the exchange's deadline)
	DialMs    int    `json:"dial_ms,omitempty"`    // API 3/4: simulated time the connection attempt takes
	TsigBad   bool   `json:"tsig_bad,omitempty"`   // with Tsig: the client signs with another secret than the servers hold - the verdict must say so, and must not outlive this request
	Tsig      bool   `json:"tsig,omitempty"`       // the query is TSIG-signed (the servers hold the key); the handler asks for TsigStatus only after its other steps, when the receive buffer has long been released
	TOKind    int    `json:"to_kind,omitempty"`    // how the client is given its time limit: 0 Client.Timeout; 1 Timeout left at zero, Read/Write/DialTimeout set to the same value; 2 nothing set (the library's default of two seconds applies)
	QCase     bool   `json:"qcase,omitempty"`      // the query name is written in mixed case and the handler answers with the name in lower case (a handler that canonicalises what it echoes)
	CliUDP    int    `json:"cli_udp,omitempty"`    // udp: Client.UDPSize / Conn.UDPSize (0 = the library's default of 512 octets)
	OptSize   int    `json:"opt_size,omitempty"`   // udp: the query carries an OPT record advertising this receive size (0 = no OPT)
}

type Client struct {
	Net       string `json:"net"` // udp | tcp
	After     int    `json:"after,omitempty"`
	Exch      []Exch `json:"exch"`
	Spoof     int    `json:"spoof,omitempty"`      // forged foreign-ID datagrams injected towards this client
	Repoint   bool   `json:"repoint,omitempty"`    // tcp: the client's dns.Conn value was first tried over a datagram socket (a read that timed out, nothing sent) and is then pointed at the stream connection: the fall-back from UDP to TCP with one Conn
	Pipeline  bool   `json:"pipeline,omitempty"`   // tcp: all queries are written before any reply is read; the handlers answer asynchronously
	IntrFrame int    `json:"intr_frame,omitempty"` // with Pipeline: 1-based number of the query frame in which the server's read is interrupted once (a temporary, non-timeout error)
	IntrOff   int    `json:"intr_off,omitempty"`   // ... after this many octets of that frame (0 before the length prefix, 1 between its octets, 2 behind it, more: inside the message)
	SlowRead  bool   `json:"slow_read,omitempty"`  // with Pipeline: the client takes the first ten octets of the reply stream, pauses for three seconds, then reads on; the link's window is 256 octets in such a run, so the server's writes wait for it
	Trickle   bool   `json:"trickle,omitempty"`    // tcp: the first query arrives in three pieces, 1.5 and 1 server read timeouts apart, the others right behind it; the server (read timeout 2 s in such a run) may give up on the connection, it must not serve anything but the requests that were sent
	Home      int    `json:"home,omitempty"`       // udp: which of the server host's addresses this client talks to
	TwinOf    int    `json:"twin_of,omitempty"`    // 1+index of another client of the same transport: this client's first exchange asks the very question (name, type, class) of that client's first exchange, at the same time, with an ID of its own
}

type Scenario struct {
	RunSeed   uint64   `json:"run_seed"`
	Kind      string   `json:"kind"` // exchange | framing
	Strategy  int      `json:"strategy"`
	PCTDepth  int      `json:"pct_depth,omitempty"`
	SegMode   int      `json:"segmode,omitempty"`
	ShortRead int      `json:"shortread,omitempty"`
	DelayMs   int      `json:"delay_ms,omitempty"`
	JitterMs  int      `json:"jitter_ms,omitempty"`
	Drop      int      `json:"drop,omitempty"`
	Dup       int      `json:"dup,omitempty"`
	UDPSize   int      `json:"udp_size,omitempty"`
	Decorate  bool     `json:"decorate,omitempty"`
	Transient []int    `json:"transient,omitempty"` // these accept / datagram-read attempts of the servers' sockets fail once with a temporary, non-timeout error (EINTR, ECONNABORTED): nothing was consumed, the attempt is repeated
	Junk      int      `json:"junk,omitempty"`      // datagrams the server must drop or refuse (QR set, unsupported opcode, short), sent by a stranger between the exchanges
	Clients   []Client `json:"clients,omitempty"`
	UDPSock   bool     `json:"udp_sock,omitempty"`   // the datagram server runs on a UDP socket (SessionUDP branch with control messages) where the build has that seam, not on a generic PacketConn
	PostYield bool     `json:"post_yield,omitempty"` // the return of every transport operation is a scheduling point of its own
	Homes     int      `json:"homes,omitempty"`      // with UDPSock: the server host has this many addresses (two IPv4, one IPv6)
	ShortIdle bool     `json:"short_idle,omitempty"` // the stream server's idle timeout is 300 ms, every stream client pipelines and the handler of its first query takes longer than that: the queries behind it are in the socket long before the server comes back for them
	Shared    bool     `json:"shared,omitempty"`     // the way applications hold a Client: one dns.Client per transport, shared by all the tasks of the run for the exchanges the library dials itself (SingleInflight set, which is documented to do nothing)

	// framing
	Sizes     []int `json:"sizes,omitempty"`  // message sizes written on one stream
	CutAt     int   `json:"cut_at,omitempty"` // link ends the stream after this many octets (0 = never)
	CutRST    bool  `json:"cut_rst,omitempty"`
	ReaderAPI int   `json:"reader_api,omitempty"` // 0 ReadMsg, 1 ReadMsgHeader, 2 Read
	WriterAPI int   `json:"writer_api,omitempty"` // 0 WriteMsg, 1 Write
	Window    int   `json:"window,omitempty"`
}

// (0x1603, 0x1703: a length prefix that reads like the start of a TLS record; 0x4745, 0x504f, 0x5052, 0x5353: like "GE",
// "PO", "PR", "SS" - the first octets other protocols put on a stream)
var boundary = []int{0, 0, 0, 40, 100, 511, 512, 513, 1231, 1232, 1233, 4095, 4096, 4097, 16383, 16384, 16385, 65534, 65535, 0x1603, 0x1703, 0x4745, 0x504f, 0x5052, 0x5353}

func pickSize(r interface{ IntN(int) int }, tier string) int {
	if r.IntN(3) == 0 {
		if tier != "thorough" && r.IntN(3) != 0 {
			return boundary[r.IntN(10)]
		}
		return boundary[r.IntN(len(boundary))]
	}
	return 0
}

func Gen(seed uint64, tier string) any {
	r := core.Rng(seed)
	sc := &Scenario{RunSeed: seed, Kind: "exchange"}
	if core.Chance(r, 30) {
		sc.Kind = "framing"
	}
	sc.Strategy = r.IntN(kernel.NumStrats)
	sc.PCTDepth = 1 + r.IntN(3)
	sc.SegMode = r.IntN(3)
	sc.ShortRead = core.Pick(r, 0, 30, 80)
	sc.DelayMs = core.Pick(r, 0, 1, 5)
	sc.JitterMs = core.Pick(r, 0, 2, 30)
	if sc.Kind == "framing" {
		n := 1 + r.IntN(5)
		total := 0
		for i := 0; i < n; i++ {
			s := boundary[r.IntN(len(boundary))]
			if core.Chance(r, 40) {
				s = 12 + r.IntN(600)
			}
			if s < 12 {
				s = 12 + r.IntN(60)
			}
			if core.Chance(r, 6) {
				s = core.Pick(r, 65536, 65537, 70000)
			}
			if core.Chance(r, 8) {
				s = 1 + r.IntN(11) // a frame too short to hold a header: not a message, but it is delimited like one
			}
			sc.Sizes = append(sc.Sizes, s)
			if s <= 65535 {
				total += s + 2
			}
		}
		if total > 0 && core.Chance(r, 60) {
			sc.CutAt = 1 + r.IntN(total)
			if core.Chance(r, 30) { // near a frame boundary
				acc := 0
				for _, s := range sc.Sizes {
					if s > 65535 {
						continue
					}
					acc += s + 2
					if core.Chance(r, 50) {
						break
					}
				}
				sc.CutAt = max(1, acc+core.Pick(r, -3, -2, -1, 0, 1, 2, 3))
			}
			sc.CutRST = core.Chance(r, 30)
		}
		sc.ReaderAPI = r.IntN(3)
		sc.WriterAPI = r.IntN(2)
		sc.Window = core.Pick(r, 0, 0, 64, 1000)
		return sc
	}
	sc.Drop = core.Pick(r, 0, 0, 10)
	sc.Dup = core.Pick(r, 0, 0, 20)
	sc.UDPSize = core.Pick(r, 512, 1232, 4096, 65535)
	sc.Decorate = core.Chance(r, 30)
	if core.Chance(r, 35) {
		sc.Junk = 1 + r.IntN(6)
	}
	if core.Chance(r, 10) {
		sc.Transient = []int{r.IntN(3)}
		if core.Chance(r, 40) {
			sc.Transient = append(sc.Transient, sc.Transient[0]+1+r.IntN(2))
		}
	}
	if core.Chance(r, 50) {
		sc.UDPSock = true
		sc.Homes = core.Pick(r, 1, 2, 3, 3)
	}
	sc.PostYield = core.Chance(r, 35)
	maxc, maxe := 4, 3
	if tier == "thorough" {
		maxc, maxe = 8, 6
	}
	nc := 1 + r.IntN(maxc)
	for i := 0; i < nc; i++ {
		c := Client{Net: core.Pick(r, "udp", "tcp"), After: r.IntN(5)}
		ne := 1 + r.IntN(maxe)
		for j := 0; j < ne; j++ {
			e := Exch{Compress: core.Chance(r, 50), API: r.IntN(3)}
			if core.Chance(r, 25) {
				e.API = 3 + r.IntN(2)
				e.DialMs = core.Pick(r, 0, 1, 30, 400)
				if core.Chance(r, 20) {
					e.Dial = core.Pick(r, "refused", "blackhole")
				}
			}
			e.Size = pickSize(r, tier)
			if c.Net == "udp" && e.Size > sc.UDPSize {
				e.Size = sc.UDPSize
			}
			e.CliUDP = 65535
			e.QCase = core.Chance(r, 15)
			e.Tsig = core.Chance(r, 12)
			e.TsigBad = e.Tsig && core.Chance(r, 40)
			if core.Chance(r, 30) {
				e.TOKind = 1 + r.IntN(2)
			}
			if c.Net == "udp" && core.Chance(r, 35) {
				// receive buffers as applications configure them: the default, small EDNS sizes, below the 512-octet minimum
				e.CliUDP = core.Pick(r, 0, 0, 100, 511, 512, 1232, 4096)
				e.OptSize = core.Pick(r, 0, 0, 100, 300, 511, 512, 1232, 4096)
			}
			e.H.Kind = core.Pick(r, "normal", "normal", "normal", "normal", "wrongid", "twice", "silent", "oversize", "wrongthenright", "raw", "rawoversize", "unpackable", "closethenwrite")
			e.H.Steps = r.IntN(4)
			if core.Chance(r, 25) {
				e.H.SleepMs = core.Pick(r, 1, 20, 400, 3000)
			}
			e.H.ReplySize = pickSize(r, tier)
			e.TimeoutMs = core.Pick(r, 100, 2000, 2000, 60000)
			if core.Chance(r, 25) {
				e.ReadTOMs = core.Pick(r, e.TimeoutMs/20+1, e.TimeoutMs*10)
			}
			c.Exch = append(c.Exch, e)
		}
		if c.Net == "udp" && core.Chance(r, 30) {
			c.Spoof = core.Pick(r, 1, 2, 3, 9, 20)
		}
		if c.Net == "tcp" && core.Chance(r, 10) {
			c.Repoint = true
		}
		if c.Net == "udp" && sc.Homes > 1 {
			c.Home = r.IntN(sc.Homes)
		}
		if c.Net == "udp" && core.Chance(r, 20) {
			// handlers that answer from another task after ServeDNS has returned, while other datagrams are served
			for j := range c.Exch {
				c.Exch[j].H.Kind = core.Pick(r, "async", "async", "normal")
				c.Exch[j].TimeoutMs = 60000
			}
		}
		if c.Net == "tcp" && core.Chance(r, 20) {
			c.Pipeline = true
			for j := range c.Exch {
				c.Exch[j].H.Kind = core.Pick(r, "async", "async", "normal")
				c.Exch[j].TimeoutMs = 60000
			}
			if core.Chance(r, 25) {
				c.IntrFrame, c.IntrOff = 1+r.IntN(len(c.Exch)), core.Pick(r, 0, 1, 1, 1, 2, 7)
				for j := range c.Exch {
					// (answers from the handler itself: when the server gives the connection up at the interrupted
					// read, a reply still being written by another task meets the server's close - a stream's
					// writer belongs to its connection, nothing in the statement is about that)
					c.Exch[j].H.Kind = "normal"
				}
			} else if core.Chance(r, 35) {
				// (small queries that fit the window together: a client that still writes while the
				// server is already stuck writing to it is a deadlock of the two, not of the library)
				c.SlowRead = true
				sc.Window = 256
				if len(c.Exch) > 3 {
					c.Exch = c.Exch[:3]
				}
				for j := range c.Exch {
					c.Exch[j].Size = 0
					c.Exch[j].H.ReplySize = 600 + r.IntN(900)
				}
			}
		}
		sc.Clients = append(sc.Clients, c)
	}
	if len(sc.Clients) >= 2 && core.Chance(r, 12) {
		sc.Shared = true
		to := core.Pick(r, 2000, 60000)
		for i := range sc.Clients {
			c := &sc.Clients[i]
			if c.Pipeline {
				continue
			}
			for j := range c.Exch {
				e := &c.Exch[j]
				e.API, e.TimeoutMs, e.ReadTOMs, e.TOKind, e.Tsig, e.CliUDP, e.OptSize = 3+r.IntN(2), to, 0, 0, false, 65535, 0
				if e.DialMs == 0 && e.Dial == "" {
					e.DialMs = core.Pick(r, 0, 1, 30)
				}
			}
		}
		a := r.IntN(len(sc.Clients))
		b := (a + 1 + r.IntN(len(sc.Clients)-1)) % len(sc.Clients)
		if ca, cb := &sc.Clients[a], &sc.Clients[b]; ca.Net == cb.Net && !ca.Pipeline && !cb.Pipeline && core.Chance(r, 70) {
			cb.TwinOf = a + 1
			ca.After, cb.After = 0, 0
			ea, eb := &ca.Exch[0], &cb.Exch[0]
			ea.H = HPlan{Kind: "normal", SleepMs: core.Pick(r, 1, 20, 400), ReplySize: ea.H.ReplySize}
			eb.H = HPlan{Kind: "normal", ReplySize: eb.H.ReplySize}
			ea.Dial, eb.Dial, ea.QCase, eb.QCase = "", "", false, false
			ea.API = 3 + r.IntN(2)
			eb.API = ea.API
		}
	}
	if sc.Window > 0 {
		// a small window is a property of the run's link: every pipelining client then keeps to queries that fit it
		// together (see above: otherwise client and server end up stuck writing to each other)
		for i := range sc.Clients {
			if c := &sc.Clients[i]; c.Pipeline {
				if len(c.Exch) > 3 {
					c.Exch = c.Exch[:3]
				}
				for j := range c.Exch {
					c.Exch[j].Size = 0
				}
			}
		}
	}
	if allPipe := func() bool {
		n := 0
		for _, c := range sc.Clients {
			if c.Net == "tcp" && (!c.Pipeline || c.SlowRead || c.IntrFrame > 0) {
				return false
			}
			if c.Net == "tcp" {
				n++
			}
		}
		return n > 0
	}(); allPipe && !sc.Shared && core.Chance(r, 40) {
		sc.ShortIdle = true
		for i := range sc.Clients {
			if c := &sc.Clients[i]; c.Pipeline {
				for j := range c.Exch {
					// (answers from the handler itself: a reply written by another task after the server has given an
					// idle connection up would meet the close)
					c.Exch[j].H.Kind, c.Exch[j].H.SleepMs = "normal", 0
				}
				if len(c.Exch) > 1 {
					c.Exch[0].H.SleepMs = core.Pick(r, 400, 700, 1500)
				}
			}
		}
	}
	if core.Chance(r, 6) {
		// a slow sender: one stream client whose first query trickles in
		c := Client{Net: "tcp", Trickle: true}
		for j := 0; j < 1+r.IntN(3); j++ {
			c.Exch = append(c.Exch, Exch{Size: core.Pick(r, 0, 0, 100, 600), Compress: core.Chance(r, 50), H: HPlan{Kind: "normal"}, TimeoutMs: 60000, CliUDP: 65535})
		}
		sc.Clients = []Client{c}
	}
	return sc
}

func Decode(raw json.RawMessage) (any, error) {
	sc := &Scenario{}
	err := json.Unmarshal(raw, sc)
	return sc, err
}

func Shrink(x any) []any {
	sc := x.(*Scenario)
	var out []any
	cp := func() *Scenario {
		b, _ := json.Marshal(sc)
		n := &Scenario{}
		json.Unmarshal(b, n)
		return n
	}
	for i := range sc.Clients {
		if len(sc.Clients) > 1 {
			n := cp()
			n.Clients = append(n.Clients[:i], n.Clients[i+1:]...)
			out = append(out, n)
		}
	}
	for i, c := range sc.Clients {
		for j := range c.Exch {
			if len(c.Exch) > 1 {
				n := cp()
				n.Clients[i].Exch = append(n.Clients[i].Exch[:j], n.Clients[i].Exch[j+1:]...)
				out = append(out, n)
			}
			e := c.Exch[j]
			if e.Size != 0 || e.H.ReplySize != 0 {
				n := cp()
				n.Clients[i].Exch[j].Size, n.Clients[i].Exch[j].H.ReplySize = 0, 0
				out = append(out, n)
			}
			if e.H.Steps != 0 || e.H.SleepMs != 0 {
				n := cp()
				n.Clients[i].Exch[j].H.Steps, n.Clients[i].Exch[j].H.SleepMs = 0, 0
				out = append(out, n)
			}
			if e.H.Kind != "normal" {
				n := cp()
				n.Clients[i].Exch[j].H.Kind = "normal"
				out = append(out, n)
			}
		}
		if c.Spoof > 0 {
			n := cp()
			n.Clients[i].Spoof = 0
			out = append(out, n)
		}
	}
	for i := range sc.Sizes {
		if len(sc.Sizes) > 1 {
			n := cp()
			n.Sizes = append(n.Sizes[:i], n.Sizes[i+1:]...)
			out = append(out, n)
		}
		if sc.Sizes[i] > 40 {
			n := cp()
			n.Sizes[i] = 40
			out = append(out, n)
		}
	}
	num := func(f func(n *Scenario) *int) {
		if *f(sc) != 0 {
			n := cp()
			*f(n) = 0
			out = append(out, n)
		}
	}
	num(func(n *Scenario) *int { return &n.SegMode })
	num(func(n *Scenario) *int { return &n.ShortRead })
	num(func(n *Scenario) *int { return &n.DelayMs })
	num(func(n *Scenario) *int { return &n.JitterMs })
	num(func(n *Scenario) *int { return &n.Drop })
	num(func(n *Scenario) *int { return &n.Dup })
	num(func(n *Scenario) *int { return &n.Strategy })
	num(func(n *Scenario) *int { return &n.Window })
	num(func(n *Scenario) *int { return &n.Junk })
	if sc.Decorate {
		n := cp()
		n.Decorate = false
		out = append(out, n)
	}
	return out
}

// ---------------------------------------------------------------- messages

// sized builds a message with the given question whose packed form has
// exactly size octets (or the minimum, if size is smaller), by means of one
// NULL record in the additional section.
//
//go:norace
func sized(m *dns.Msg, size int) {
	base := m.Len()
	// each NULL record at the root costs 1 (owner) + 10 (fixed) + data
	for left := size - base; left >= 11; {
		pad := left - 11
		if pad > 60000 {
			pad = 60000
			if left-11-pad < 11 { // leave room for the next record's fixed part
				pad -= 11
			}
		}
		m.Extra = append(m.Extra, &dns.NULL{Hdr: dns.RR_Header{Name: ".", Rrtype: dns.TypeNULL, Class: dns.ClassINET}, Data: strings.Repeat("N", pad)})
		left -= 11 + pad
	}
}

//go:norace
func clone(b []byte) []byte { return append([]byte(nil), b...) }

// ---------------------------------------------------------------- state

type exState struct {
	ci, ei   int
	token    string
	qtoken   string   // the first label of the question: the token, or for a twin the token of the exchange whose question it repeats
	twin     *exState // the exchange that repeats this one's question
	plan     Exch
	id       uint16
	reqBytes []byte // what the client handed to the library (packed by the harness beforehand)
	net      string
	manual   bool // the client wrote the query and read one message itself (no exchange call of the library)

	handlerN  int
	scribbled bool
	written   [][]byte // packed replies the handler passed to WriteMsg, in order (copies)
	writeOK   []bool
	writeT    []time.Time

	done    bool
	outcome string
	guar    int // udp: octets of receive buffer the client side is entitled to for this exchange
}

type run struct {
	sc  *Scenario
	k   *kernel.K
	n   *simnet.Net
	res *core.Result

	tcp, udp  *dns.Server
	l         *simnet.Listener
	pc        *simnet.PacketConn
	uc        *simnet.UDPConn
	homes     int
	ex        map[string]*exState
	cliFin    []bool
	lifeFin   bool
	serveRet  int
	doneSeq   int
	shared    map[string]*dns.Client // with Scenario.Shared: the one Client per transport
	dialed    map[string]*dialRec    // exchanges that go through the library's own dial
	rawConn   map[int]bool           // client connections the harness writes octet by octet
	connReply map[string][]*wrec     // server-side remote address -> replies handlers handed to the writer there, in order of hand-over
}

// wrec is one reply a handler handed to its ResponseWriter.
type wrec struct {
	b     []byte
	state int // 0 handed over, call not back yet; 1 written; 2 refused
	done  int // position among the writes that came back, in the order they came back
}

// --- handler

//go:norace
func (x *run) handOver(w dns.ResponseWriter, b []byte) *wrec {
	rec := &wrec{b: clone(b)}
	ra := w.RemoteAddr().String()
	x.k.Lock()
	x.connReply[ra] = append(x.connReply[ra], rec)
	x.k.Unlock()
	return rec
}

// unsigned returns r without a trailing TSIG record (the harness's reference is the query as it was before the client signed it).
//
//go:norace
func unsigned(r *dns.Msg) *dns.Msg {
	if r.IsTsig() == nil {
		return r
	}
	c := *r
	c.Extra = r.Extra[:len(r.Extra)-1]
	if len(c.Extra) == 0 {
		c.Extra = nil
	}
	return &c
}

const (
	tsigKey    = "c12-key.example."
	tsigSecret = "YzEyLXNoYXJlZC1zZWNyZXQtMDEyMzQ1Njc4OWFiY2RlZg=="
)

//go:norace
func tokenOf(name string) string {
	name = strings.ToLower(name)
	if i := strings.IndexByte(name, '.'); i > 0 {
		return name[:i]
	}
	return name
}

// exOfWire: the exchange a packed message (query or reply) belongs to, by the
// first label of its question - and by its ID where two exchanges ask the
// same question.
//
//go:norace
func (x *run) exOfWire(b []byte) *exState {
	if len(b) < 13 {
		return nil
	}
	q, _, _, err := oracle.Name(b, 12)
	if err != nil {
		return nil
	}
	ex := x.ex[tokenOf(q)]
	if ex != nil && ex.twin != nil && uint16(b[0])<<8|uint16(b[1]) == ex.twin.id {
		return ex.twin
	}
	return ex
}

//go:norace
func (x *run) ServeDNS(w dns.ResponseWriter, r *dns.Msg) {
	k := x.k
	tok := ""
	if len(r.Question) > 0 {
		tok = tokenOf(r.Question[0].Name)
	}
	k.Lock()
	ex := x.ex[tok]
	if ex != nil && ex.twin != nil && r.Id == ex.twin.id {
		ex = ex.twin
		tok = ex.token
	}
	if ex == nil {
		x.res.Fail("X1", "unknown-request", "handler saw a request that no client sent (question %v)", r.Question)
		k.Unlock()
		return
	}
	ex.handlerN++
	inv := ex.handlerN
	k.EffectLocked("h.enter " + tok)
	k.Unlock()
	// B1: once every delivered copy of this request has reached its handler the
	// library has released their receive buffers: overwrite them
	if ex.net == "udp" {
		x.scribble(ex)
	}
	// X1 (server side): the request seen equals the decode of the octets sent
	exp := new(dns.Msg)
	if err := exp.Unpack(clone(ex.reqBytes)); err == nil {
		x.bump("oracle.X1_request_seen")
		if !reflect.DeepEqual(unsigned(r), exp) {
			k.Lock()
			x.res.Fail("X1", "request-differs", "handler for %s saw a request that differs from the one its client sent:\nsaw:  %s\nsent: %s", tok, oneLine(r.String()), oneLine(exp.String()))
			k.Unlock()
		}
	}
	p := ex.plan.H
	k.Yield("h.enter", 0)
	if p.Steps > 0 {
		k.WaitSteps("h.steps", p.Steps, time.Millisecond)
	}
	if p.SleepMs > 0 {
		k.Sleep("h.sleep", time.Duration(p.SleepMs)*time.Millisecond)
	}
	if ex.plan.Tsig && r.IsTsig() != nil {
		// the verdict on the signature, asked for late: the receive buffer went back to the server long ago
		st := w.TsigStatus()
		k.Lock()
		x.res.Stats["oracle.B1_tsig_status_late"]++
		if st != nil && !ex.plan.TsigBad {
			x.res.Fail("B1", "tsig-status-on-released-buffer", "the request of %s was signed correctly and delivered unaltered, yet TsigStatus, asked for after the handler's other steps, says %v", tok, st)
		}
		if st == nil && ex.plan.TsigBad {
			x.res.Fail("X1", "tsig-status-of-another-request", "the request of %s was signed with a secret the server does not hold, yet TsigStatus reports no error", tok)
		}
		k.Unlock()
	} else if r.IsTsig() == nil {
		// a request without a signature has no verdict of its own: whatever TsigStatus says about it is
		// about some other request (an earlier one of the same connection, say)
		st := w.TsigStatus()
		k.Lock()
		x.res.Stats["oracle.X1_tsig_status_is_this_requests"]++
		if st != nil {
			x.res.Fail("X1", "tsig-status-of-another-request", "the request of %s carries no TSIG, yet TsigStatus says %q: that is the verdict on another request", tok, st.Error())
		}
		k.Unlock()
	}
	mk := func(id uint16, size int) *dns.Msg {
		m := new(dns.Msg)
		m.SetReply(r)
		m.Id = id
		m.Compress = ex.plan.Compress
		if ex.plan.QCase && len(m.Question) > 0 {
			m.Question[0].Name = strings.ToLower(m.Question[0].Name)
		}
		m.Answer = append(m.Answer, &dns.TXT{Hdr: dns.RR_Header{Name: r.Question[0].Name, Rrtype: dns.TypeTXT, Class: dns.ClassINET}, Txt: []string{tok, "inv" + strconv.Itoa(inv)}})
		sized(m, size)
		return m
	}
	send := func(m *dns.Msg) {
		b, perr := m.Pack()
		wi := -1
		if perr == nil {
			// on record before the octets can reach anybody
			k.Lock()
			wi = len(ex.written)
			ex.written = append(ex.written, clone(b))
			ex.writeOK = append(ex.writeOK, false)
			ex.writeT = append(ex.writeT, time.Now())
			k.Unlock()
		}
		var rec *wrec
		if perr == nil {
			rec = x.handOver(w, b)
		}
		err := w.WriteMsg(m)
		k.Lock()
		if perr == nil {
			ex.writeOK[wi] = err == nil
			rec.state = 2
			if err == nil {
				rec.state = 1
			}
			x.doneSeq++
			rec.done = x.doneSeq
		}
		k.EffectLocked("h.wrote " + tok + " " + common.ErrStr(err))
		k.Unlock()
		if perr == nil && len(b) <= 65535 && err != nil && strings.Contains(err.Error(), "too large") {
			k.Lock()
			x.res.Fail("F1", "valid-size-refused", "WriteMsg refused a %d-octet reply as too large", len(b))
			k.Unlock()
		}
		// a reply that fits, written by the handler itself before it returns, to a client that is still there,
		// by a handler that has not closed its writer: nothing on a stream stands in its way (the server sets
		// no write deadlines, the link of an exchange run is not cut) - whatever the handler tried before
		if perr == nil && len(b) <= 65535 && err != nil && ex.net == "tcp" && p.Kind != "async" && p.Kind != "closethenwrite" && x.peerStillThere(w) {
			k.Lock()
			x.res.Stats["oracle.F1_fitting_reply_accepted"]++
			x.res.Fail("F1", "fitting-reply-refused", "the handler for %s wrote a %d-octet reply from inside ServeDNS, its client was still connected and waiting, and WriteMsg returned %q (handler kind %s)", tok, len(b), err.Error(), p.Kind)
			k.Unlock()
		}
		if ex.net == "tcp" && len(b) > 65535 {
			x.bump("oracle.F1_oversize_refused")
			if err == nil {
				k.Lock()
				x.res.Fail("F1", "oversize-accepted", "WriteMsg accepted a %d-octet reply on a stream", len(b))
				k.Unlock()
			}
		}
	}
	var sendRawBytes func(b []byte)
	sendRaw := func(m *dns.Msg) {
		// the handler packs the reply itself and hands the octets to ResponseWriter.Write
		b, perr := m.Pack()
		if perr != nil {
			return
		}
		sendRawBytes(b)
	}
	// signedOtherID: a reply to a verified signed request, signed as RFC 8945 wants it (over the request's MAC,
	// original ID = the request's ID) - and then sent with another ID in its header, as a forwarder that
	// renumbers its queries sends it on. The MAC verifies (verification puts the original ID back); the ID the
	// client has to go by is the one in the header
	signedOtherID := func(id uint16) []byte {
		ts := r.IsTsig()
		if !ex.plan.Tsig || ts == nil || w.TsigStatus() != nil {
			return nil
		}
		m := mk(r.Id, 0)
		m.SetTsig(ts.Hdr.Name, ts.Algorithm, 300, time.Now().Unix())
		b, _, err := dns.TsigGenerate(m, tsigSecret, ts.MAC, false)
		if err != nil || len(b) < 12 {
			return nil
		}
		b[0], b[1] = byte(id>>8), byte(id)
		x.bump("fault.signed_reply_with_another_id_in_its_header")
		return b
	}
	sendRawBytes = func(b []byte) {
		k.Lock()
		wi := len(ex.written)
		ex.written = append(ex.written, clone(b))
		ex.writeOK = append(ex.writeOK, false)
		ex.writeT = append(ex.writeT, time.Now())
		k.Unlock()
		rec := x.handOver(w, b)
		_, err := w.Write(clone(b))
		k.Lock()
		ex.writeOK[wi] = err == nil
		rec.state = 2
		if err == nil {
			rec.state = 1
		}
		x.doneSeq++
		rec.done = x.doneSeq
		if ex.net == "tcp" && len(b) > 65535 {
			x.res.Stats["oracle.F1_oversize_refused"]++
			if err == nil {
				x.res.Fail("F1", "oversize-accepted", "ResponseWriter.Write accepted %d octets for a stream", len(b))
			}
		}
		k.EffectLocked("h.wroteraw " + tok + " " + common.ErrStr(err))
		k.Unlock()
	}
	switch p.Kind {
	case "async":
		// answer later, from another task, while the server already reads the next query of this connection
		// (the reply is built from the request when it is sent, not now: the handler keeps r)
		k.Go("async-"+tok, &asyncReply{k: k, mk: func() *dns.Msg { return mk(r.Id, p.ReplySize) }, send: send, steps: p.Steps, sleepMs: p.SleepMs})
	case "raw":
		sendRaw(mk(r.Id, p.ReplySize))
	case "rawoversize":
		if ex.net == "tcp" {
			sendRaw(mk(r.Id, 65536+p.Steps*50))
		}
		send(mk(r.Id, p.ReplySize))
	case "silent":
	case "unpackable":
		// a reply that cannot be put on the wire (a character-string of 256 octets): an error for the
		// handler, nothing for the client - then the proper reply
		bad := mk(r.Id, 0)
		bad.Answer = append(bad.Answer, &dns.TXT{Hdr: dns.RR_Header{Name: r.Question[0].Name, Rrtype: dns.TypeTXT, Class: dns.ClassINET}, Txt: []string{strings.Repeat("x", 256)}})
		err := w.WriteMsg(bad)
		k.Lock()
		x.res.Stats["oracle.F1_unpackable_reply_refused"]++
		if err == nil {
			x.res.Fail("F1", "unpackable-reply-accepted", "WriteMsg returned nil for a reply that holds a 256-octet character-string")
		}
		k.Unlock()
		send(mk(r.Id, p.ReplySize))
	case "closethenwrite":
		// the handler closes the connection and then tries to answer all the same
		send(mk(r.Id, p.ReplySize))
		w.Close()
		m2 := mk(r.Id, 0)
		err1 := w.WriteMsg(m2)
		b2, _ := m2.Pack()
		_, err2 := w.Write(b2)
		k.Lock()
		x.res.Stats["oracle.F1_write_after_close_refused"]++
		if err1 == nil || err2 == nil {
			x.res.Fail("F1", "write-after-close-accepted", "after ResponseWriter.Close, WriteMsg returned %v and Write returned %v: both must refuse", err1, err2)
		}
		k.Unlock()
	case "wrongid":
		if b := signedOtherID(r.Id ^ 0x8000); b != nil {
			sendRawBytes(b)
			break
		}
		send(mk(r.Id^0x8000, p.ReplySize)) // an ID no exchange of this run uses
	case "wrongthenright":
		if b := signedOtherID(r.Id ^ 0x4000); b != nil {
			sendRawBytes(b)
		} else {
			send(mk(r.Id^0x4000, 0))
		}
		k.Yield("h.between", 0)
		send(mk(r.Id, p.ReplySize))
	case "twice":
		send(mk(r.Id, p.ReplySize))
		k.Yield("h.between", 0)
		send(mk(r.Id, p.ReplySize))
	case "oversize":
		if ex.net == "tcp" {
			send(mk(r.Id, 65536+p.Steps*100))
		}
		send(mk(r.Id, p.ReplySize))
	default:
		send(mk(r.Id, p.ReplySize))
	}
	// the request is still the handler's at the end: later traffic must not have changed it
	if err := exp.Unpack(clone(ex.reqBytes)); err == nil && !reflect.DeepEqual(unsigned(r), exp) {
		k.Lock()
		x.res.Fail("X1", "request-changed-under-handler", "the request held by the handler for %s changed while it was running (now: %s)", tok, oneLine(r.String()))
		k.Unlock()
	}
	k.Lock()
	k.EffectLocked("h.exit " + tok)
	k.Unlock()
}

// checkDropped: the first query of a fresh stream connection, a well-formed message written in full over a link
// that loses nothing, to a server that is up with hour-long timeouts - and the connection ends (EOF, reset)
// without the handler ever having seen it. Nothing in such a run gives the server a reason to hang up.
//
//go:norace
func (x *run) checkDropped(ex *exState, sconn *simnet.StreamConn, err error, out string) {
	if out != "err" || err == nil || isTimeout(err) {
		return
	}
	if e := err.Error(); !(strings.Contains(e, "EOF") || strings.Contains(e, "reset") || strings.Contains(e, "broken pipe")) {
		return
	}
	x.k.Lock()
	defer x.k.Unlock()
	frames, rest := oracle.Frames(sconn.Sent())
	if len(frames) < 1 || len(rest) != 0 || sconn.WasReset() || len(frames[0]) > 65535 {
		return
	}
	x.res.Stats["oracle.X1_first_query_not_dropped"]++
	if ex.handlerN == 0 {
		x.res.Fail("X1", "request-dropped", "the first query of a fresh stream connection (%s, %d octets, written in full, nothing lost on the way) never reached its handler; the exchange ended with %q: the server hung up on a well-formed request", ex.token, len(frames[0]), err.Error())
	}
}

// peerStillThere reports whether the client's end of the stream connection behind w is open (and the link
// has not cut it).
//
//go:norace
func (x *run) peerStillThere(w dns.ResponseWriter) bool {
	ra := w.RemoteAddr().String()
	x.k.Lock()
	defer x.k.Unlock()
	for _, c := range x.n.Conns {
		if c.Role == "srv" && c.RemoteAddr().String() == ra && c.Peer != nil {
			return !c.Peer.IsClosed() && !c.Peer.WasReset() && !c.WasReset()
		}
	}
	return false
}

type asyncReply struct {
	k       *kernel.K
	mk      func() *dns.Msg
	send    func(*dns.Msg)
	steps   int
	sleepMs int
}

//go:norace
func (a *asyncReply) RunEvent(time.Time) {
	if a.steps > 0 {
		a.k.WaitSteps("async.steps", a.steps, time.Millisecond)
	}
	if a.sleepMs > 0 {
		a.k.Sleep("async.sleep", time.Duration(a.sleepMs)*time.Millisecond)
	}
	a.send(a.mk())
}

//go:norace
func oneLine(s string) string {
	s = strings.ReplaceAll(s, "\n", " | ")
	if len(s) > 400 {
		s = s[:400] + "..."
	}
	return s
}

//go:norace
func (x *run) bump(name string) {
	x.k.Lock()
	x.res.Stats[name]++
	x.k.Unlock()
}

// scribble poisons the receive buffers of the delivered copies of ex's
// request, but only when each of them has been handed to a handler.
//
//go:norace
func (x *run) scribble(ex *exState) {
	k := x.k
	k.Lock()
	var mine []*simnet.Datagram
	for _, d := range x.pc.Received {
		if d.Injected || len(d.Data) < 13 {
			continue
		}
		if x.exOfWire(d.Data) == ex {
			mine = append(mine, d)
		}
	}
	ready := len(mine) > 0 && len(mine) == ex.handlerN
	k.Unlock()
	if !ready {
		return
	}
	for _, d := range mine {
		if x.pc.Scribble(d) {
			x.bump("fault.recvbuf_scribbled")
		}
	}
}

// --- the socket seam: connections the library dials itself

// dialTag travels in net.Dialer.LocalAddr and tells the seam which exchange is dialling.
type dialTag struct{ ci, ei int }

func (dialTag) Network() string  { return "sim" }
func (t dialTag) String() string { return tok(t.ci, t.ei) }

type dialRec struct {
	plan     Exch
	home     int
	attempts int
	doneT    time.Time // when the connection attempt returned
	sconn    *simnet.StreamConn
	dconn    *simnet.DgramConn
}

//go:norace
func (x *run) dial(d *net.Dialer, ctx context.Context, network, addr string) (net.Conn, error) {
	k := x.k
	tag, tagged := d.LocalAddr.(dialTag)
	if _, port, err := net.SplitHostPort(addr); !tagged && err == nil {
		if n, _ := strconv.Atoi(port); n >= 20000 {
			tag = dialTag{(n - 20000) / 64, (n - 20000) % 64}
		}
	}
	k.Lock()
	rec := x.dialed[tag.String()]
	if rec != nil {
		rec.attempts++
	}
	k.Unlock()
	if rec == nil {
		return nil, errors.New("dial: not an exchange of this run")
	}
	// what bounds the attempt: the dialer's own timeout and the context
	var limit time.Time
	if d.Timeout > 0 {
		limit = time.Now().Add(d.Timeout)
	}
	if !d.Deadline.IsZero() && (limit.IsZero() || d.Deadline.Before(limit)) {
		limit = d.Deadline
	}
	if dl, ok := ctx.Deadline(); ok && (limit.IsZero() || dl.Before(limit)) {
		limit = dl
	}
	k.Yield("dial."+network, 0)
	wait := time.Duration(rec.plan.DialMs) * time.Millisecond
	if rec.plan.Dial == "blackhole" {
		wait = 24 * time.Hour
		k.Bump("fault.dial_blackholed")
	}
	if !limit.IsZero() && time.Now().Add(wait).After(limit) {
		if rest := time.Until(limit); rest > 0 {
			k.Sleep("dial.wait", rest)
		}
		return nil, &net.OpError{Op: "dial", Net: network, Err: timeoutError{}}
	}
	if wait > 0 {
		k.Sleep("dial.wait", wait)
	}
	if rec.plan.Dial == "refused" {
		k.Bump("fault.dial_refused")
		return nil, &net.OpError{Op: "dial", Net: network, Err: errors.New("connect: connection refused")}
	}
	if strings.HasPrefix(network, "udp") {
		c := x.n.DialUDP(x.uc, rec.home%x.homes)
		k.Lock()
		rec.dconn, rec.doneT = c, time.Now()
		k.Unlock()
		return c, nil
	}
	c := x.n.Dial(x.l, true)
	k.Lock()
	rec.sconn, rec.doneT = c, time.Now()
	k.Unlock()
	return c, nil
}

type timeoutError struct{}

func (timeoutError) Error() string   { return "i/o timeout" }
func (timeoutError) Timeout() bool   { return true }
func (timeoutError) Temporary() bool { return true }

// --- clients

type clientTask struct {
	x  *run
	ci int
}

//go:norace
func (c *clientTask) RunEvent(time.Time) {
	x, k, sc := c.x, c.x.k, c.x.sc
	defer x.fin(&x.cliFin[c.ci])
	plan := sc.Clients[c.ci]
	if plan.After > 0 {
		k.WaitSteps("cli.wait", plan.After, time.Millisecond)
	}
	var co *dns.Conn
	var sconn *simnet.StreamConn
	var dconn *simnet.DgramConn
	if plan.Net == "tcp" {
		sconn = x.n.Dial(x.l, true)
		co = &dns.Conn{Conn: sconn}
		if plan.Repoint {
			// the Conn's first life was a datagram socket on which nothing came back in time
			d := x.n.DialUDP(x.uc, 0)
			co = &dns.Conn{Conn: d}
			d.SetReadDeadline(time.Now().Add(-time.Second))
			if _, err := co.ReadMsg(); err != nil {
				k.Bump("fault.conn_value_repointed_from_datagram_to_stream")
			}
			d.Close()
			co.Conn = sconn
		}
	} else {
		dconn = x.n.DialUDP(x.uc, plan.Home%x.homes)
		co = &dns.Conn{Conn: dconn}
	}
	if dconn != nil {
		for i := 0; i < plan.Spoof; i++ {
			// forged replies with IDs nobody uses, arriving at various times
			f := new(dns.Msg)
			f.SetQuestion("forged.test.", dns.TypeTXT)
			f.Id = uint16(60000 + c.ci*32 + i)
			f.Response = true
			b, _ := f.Pack()
			// not every datagram with somebody else's ID is a tidy message: the late answer to an earlier,
			// larger question does not fit today's buffer, a stale signed answer was signed for another
			// request, and what comes from elsewhere may be anything behind its header
			switch (sc.RunSeed + uint64(i)) % 6 {
			case 1:
				b = append(b[:12:12], 0xc0, 0x0c, 0xff, 0xff, 0x07) // a question section that does not decode
				k.Bump("fault.dgram_spoof_undecodable")
			case 2:
				b[7] = 3 // claims three answers, has none
				k.Bump("fault.dgram_spoof_undecodable")
			case 3:
				for len(f.Answer) < 40 {
					f.Answer = append(f.Answer, &dns.TXT{Hdr: dns.RR_Header{Name: "forged.test.", Rrtype: dns.TypeTXT, Class: dns.ClassINET, Ttl: 1}, Txt: []string{strings.Repeat("s", 200)}})
				}
				b, _ = f.Pack() // some 8 KiB: the answer to a question that advertised a larger buffer than today's
				k.Bump("fault.dgram_spoof_oversize")
			case 4:
				f.Extra = append(f.Extra, &dns.TSIG{Hdr: dns.RR_Header{Name: "stale.key.", Rrtype: dns.TypeTSIG, Class: dns.ClassANY}, Algorithm: dns.HmacSHA256, TimeSigned: uint64(time.Now().Unix()), Fudge: 300,
					MACSize: 32, MAC: strings.Repeat("ab", 32), OrigId: f.Id})
				b, _ = f.Pack() // signed - for another request, under a key of another day
				k.Bump("fault.dgram_spoof_signed")
			}
			k.Lock()
			x.n.InjectToClient(dconn, b, time.Duration(1+i*7%40)*time.Millisecond)
			k.Unlock()
		}
	}
	if plan.Pipeline && sconn != nil {
		c.pipeline(co, sconn)
		return
	}
	if plan.Trickle && sconn != nil {
		c.trickle(co, sconn)
		return
	}
	reads := 0 // completed ReadMsg calls on a stream, = index of the next frame
	signedOnce := false
	for ei, e := range plan.Exch {
		ex := x.ex[tok(c.ci, ei)]
		m := new(dns.Msg)
		m.SetQuestion(ex.qtoken+".test.", dns.TypeTXT)
		if e.QCase {
			m.Question[0].Name = strings.ToUpper(ex.qtoken) + ".TeSt."
		}
		m.Id = ex.id
		m.Compress = e.Compress
		if (c.ci+ei)%2 == 0 {
			// address records: fixed-size RDATA that a decoder is tempted to leave pointing into the receive buffer
			// (one answer and one authority record still pass the default accept policy)
			m.Answer = append(m.Answer, &dns.A{Hdr: dns.RR_Header{Name: ex.token + ".test.", Rrtype: dns.TypeA, Class: dns.ClassINET, Ttl: 1}, A: []byte{10, byte(c.ci), byte(ei), 1}})
			m.Ns = append(m.Ns, &dns.AAAA{Hdr: dns.RR_Header{Name: ex.token + ".test.", Rrtype: dns.TypeAAAA, Class: dns.ClassINET, Ttl: 1}, AAAA: []byte{0x20, 1, 0xd, 0xb8, 0, 0, 0, 0, 0, 0, 0, 0, 0, byte(c.ci), byte(ei), 1}})
		}
		if e.OptSize > 0 && dconn != nil && e.Size <= 60000 {
			// (larger requests need two padding records: a third additional record would be refused by the accept policy)
			m.SetEdns0(uint16(e.OptSize), false)
			// with an option whose value is an octet string (a decoder is tempted to leave it pointing into its input)
			m.IsEdns0().Option = append(m.IsEdns0().Option, &dns.EDNS0_LOCAL{Code: 65001, Data: []byte("opt-" + ex.token + "-0123456789abcdef0123456789")})
		} else {
			e.OptSize = 0
		}
		sized(m, e.Size)
		b, perr := m.Pack()
		if perr != nil {
			continue
		}
		// the receive buffer the library promises for this exchange: what the query advertises
		// (else what the client is configured with), and never less than 512 octets
		guar := 65535
		if dconn != nil {
			guar = e.CliUDP
			if e.OptSize > 0 && e.API != 2 {
				guar = e.OptSize
			}
			guar = max(guar, 512)
		}
		k.Lock()
		ex.reqBytes = clone(b)
		ex.guar = guar
		k.Unlock()
		if plan.Net == "tcp" && (len(b) == 0x1603 || len(b) == 0x4745 || len(b) == 0x5353) {
			x.bump("cover.length_prefix_reads_like_another_protocol")
		}
		// (nothing else in the additional section: the accept policy allows two records there; and one signed query per
		// connection: a dns.Conn chains the MAC of its previous signed query into the next, which a server rightly refuses)
		signed := e.Tsig && e.OptSize == 0 && e.Size == 0 && !signedOnce
		if signed {
			signedOnce = true
			m.SetTsig(tsigKey, dns.HmacSHA256, 300, time.Now().Unix())
			x.bump("cover.signed_query")
		}
		eff := time.Duration(e.TimeoutMs) * time.Millisecond // the time limit in force for this exchange
		cl := &dns.Client{Timeout: eff, UDPSize: uint16(e.CliUDP)}
		if e.ReadTOMs > 0 {
			cl.ReadTimeout, cl.WriteTimeout = time.Duration(e.ReadTOMs)*time.Millisecond, time.Duration(e.ReadTOMs)*time.Millisecond
		}
		if signed {
			cl.TsigSecret = map[string]string{tsigKey: tsigSecret}
			if e.TsigBad {
				cl.TsigSecret = map[string]string{tsigKey: "bm90LXRoZS1zZXJ2ZXJzLXNlY3JldC0wMTIzNDU2Nzg5"}
				x.bump("fault.query_signed_with_another_secret")
			}
		}
		switch e.TOKind {
		case 1:
			cl.Timeout, cl.ReadTimeout, cl.WriteTimeout, cl.DialTimeout = 0, eff, eff, eff
		case 2:
			cl.Timeout, cl.ReadTimeout, cl.WriteTimeout, cl.DialTimeout = 0, 0, 0, 0
			eff = 2 * time.Second // the documented default
		}
		sharedCl := false
		if x.shared != nil && e.API >= 3 && common.DialSeam() && !plan.Pipeline && !signed {
			// the Client of the whole run for this transport: its settings are those of the exchange that came first
			k.Lock()
			sh := x.shared[plan.Net]
			if sh == nil {
				sh = &dns.Client{Net: plan.Net, Timeout: time.Duration(e.TimeoutMs) * time.Millisecond, UDPSize: 65535, SingleInflight: true}
				x.shared[plan.Net] = sh
			}
			k.Unlock()
			cl, eff, sharedCl = sh, sh.Timeout, true
			x.bump("cover.exchange_through_shared_client")
		}
		start := time.Now()
		deadline := start.Add(eff)
		rcvStart := 0
		if dconn != nil {
			k.Lock()
			rcvStart = len(dconn.Received)
			k.Unlock()
		}
		var r *dns.Msg
		var err error
		api := e.API
		if api >= 3 && (!common.DialSeam() || plan.Pipeline) {
			api -= 3
		}
		if api >= 3 {
			// the library makes, uses and closes the connection itself
			x.bump("cover.exchange_through_dial")
			if !sharedCl {
				cl.Net = plan.Net
			}
			// a caller-supplied Dialer replaces the one the client would derive from its Timeout:
			// give it the same bound (always, where nothing else would end a black-holed attempt)
			dialLimit := time.Duration(0) // what bounds the connection attempt by itself
			if !sharedCl {
				cl.Dialer = &net.Dialer{LocalAddr: dialTag{c.ci, ei}}
				if (c.ci+ei)%2 == 0 || e.Dial == "blackhole" {
					cl.Dialer.Timeout = eff
					dialLimit = eff
				}
			}
			addr := "10.0.0.1:53"
			if sharedCl {
				dialLimit = eff
				addr = "10.0.0.1:" + strconv.Itoa(20000+c.ci*64+ei)
			} else if (c.ci+ei)%3 == 1 {
				// no Dialer of the caller's: the client derives one from its own time limits
				// (the exchange is then recognised by the port it dials)
				cl.Dialer, dialLimit = nil, eff
				addr = "10.0.0.1:" + strconv.Itoa(20000+c.ci*64+ei)
			}
			k.Lock()
			x.dialed[tok(c.ci, ei)] = &dialRec{plan: e, home: plan.Home}
			k.Unlock()
			var ctxDL time.Time // the context's deadline bounds dial and exchange together
			// the package-level Exchange / ExchangeContext: a datagram client with every setting at its default
			pkgLevel := dconn != nil && e.TOKind == 2 && cl.Dialer == nil && !sharedCl && !signed && e.OptSize == 0 && e.ReadTOMs == 0
			if pkgLevel {
				k.Lock()
				ex.guar = 512
				k.Unlock()
				x.bump("cover.package_level_exchange")
			}
			if api == 4 {
				ctx := common.NewCtx(k, time.Duration(e.TimeoutMs)*time.Millisecond/2, "cli")
				ctxDL, _ = ctx.Deadline()
				if ctxDL.Before(deadline) {
					deadline = ctxDL
				}
				if pkgLevel {
					r, err = dns.ExchangeContext(ctx, m, addr)
				} else {
					r, _, err = cl.ExchangeContext(ctx, m, addr)
				}
			} else if pkgLevel {
				r, err = dns.Exchange(m, addr)
			} else {
				r, _, err = cl.Exchange(m, addr)
			}
			k.Lock()
			d := x.dialed[tok(c.ci, ei)]
			k.Unlock()
			// the deadline of the exchange proper is set when the connection is there (the timeout
			// bounds the dial and, again, the write and read that follow); a context bounds both
			if !d.doneT.IsZero() {
				deadline = d.doneT.Add(eff)
				if api == 4 && ctxDL.Before(deadline) {
					deadline = ctxDL
				}
			} else if api == 3 {
				// no connection: only the dialer's own timeout bounds the attempt
				deadline = start.Add(24 * time.Hour)
				if dialLimit > 0 {
					deadline = start.Add(dialLimit)
				}
			} else if dialLimit > 0 && start.Add(dialLimit).Before(deadline) {
				deadline = start.Add(dialLimit)
			}
			x.bump("oracle.X2_deadline_respected")
			if over := time.Since(deadline); over > time.Millisecond {
				k.Lock()
				x.res.Fail("X2", "deadline-overrun", "Exchange of %s over %s (dial %q, %d ms) returned %v after its deadline (timeout %d ms, context %v)", ex.token, plan.Net, e.Dial, e.DialMs, over, e.TimeoutMs, api == 4)
				k.Unlock()
			}
			out := "dial-failed"
			switch {
			case d.attempts != 1:
				k.Lock()
				x.res.Fail("X1", "dial-count", "Exchange of %s made %d connection attempts, want exactly one", ex.token, d.attempts)
				k.Unlock()
			case d.sconn == nil && d.dconn == nil:
				// no connection came about: an error, and nothing reached the server
				x.bump("oracle.X1_failed_dial_reported")
				if err == nil {
					k.Lock()
					x.res.Fail("X1", "reply-without-connection", "Exchange of %s returned a reply although its connection attempt failed (%s)", ex.token, e.Dial)
					k.Unlock()
				}
			default:
				nreads := 0
				out = x.judgeExchange(ex, plan.Net, d.sconn, d.dconn, 0, &nreads, r, err, deadline)
				x.bump("oracle.X1_dialled_connection_closed")
				if (d.sconn != nil && !d.sconn.IsClosed()) || (d.dconn != nil && !d.dconn.IsClosed()) {
					k.Lock()
					x.res.Fail("X1", "dialled-connection-left-open", "Exchange of %s returned (%v) and left the connection it had dialled open", ex.token, err)
					k.Unlock()
				}
			}
			k.Lock()
			ex.done, ex.outcome = true, out
			k.EffectLocked("cli " + ex.token + " " + out)
			k.Unlock()
			continue
		}
		switch api {
		case 1:
			ctx := common.NewCtx(k, time.Duration(e.TimeoutMs)*time.Millisecond/2, "cli")
			if dl, ok := ctx.Deadline(); ok && dl.Before(deadline) {
				deadline = dl
			}
			r, _, err = cl.ExchangeWithConnContext(ctx, m, co)
			// the caller's "defer cancel()": the context ends when the exchange has returned - which must not
			// reach into the next exchange on this connection
			ctx.Cancel()
			k.Yield("cli.cancelled", 0)
		case 2:
			ex.manual = true // one write, one read: skipping is this application's business, not the library's
			co.UDPSize = uint16(e.CliUDP)
			co.TsigSecret = cl.TsigSecret
			co.SetDeadline(deadline)
			if err = co.WriteMsg(m); err == nil {
				r, err = co.ReadMsg()
				if err == nil && r.Id != m.Id {
					err = dns.ErrId
				}
			}
		default:
			r, _, err = cl.ExchangeWithConn(m, co)
		}
		if err != nil && len(b) <= 65535 && strings.Contains(err.Error(), "too large") {
			k.Lock()
			x.res.Fail("F1", "valid-size-refused", "the client refused to send a %d-octet request as too large", len(b))
			k.Unlock()
		}
		if api != 2 {
			x.bump("oracle.X2_deadline_respected")
			if over := time.Since(deadline); over > time.Millisecond {
				k.Lock()
				x.res.Fail("X2", "deadline-overrun", "exchange %s over %s returned %v after its deadline (timeout %d ms, context %v): skipped replies must not extend the wait", ex.token, plan.Net, over, e.TimeoutMs, e.API == 1)
				k.Unlock()
			}
			if early := time.Until(deadline); err != nil && isTimeout(err) && early > time.Millisecond {
				k.Lock()
				x.res.Fail("X2", "timeout-before-deadline", "exchange %s over %s ended with %q %v before its deadline (timeout %d ms, context %v): something other than this exchange's own time limit cut it short", ex.token, plan.Net, err, early, e.TimeoutMs, e.API == 1)
				k.Unlock()
			}
		}
		out := x.judgeExchange(ex, plan.Net, sconn, dconn, rcvStart, &reads, r, err, deadline)
		k.Lock()
		ex.done, ex.outcome = true, out
		k.EffectLocked("cli " + ex.token + " " + out)
		k.Unlock()
		if ei == 0 && sconn != nil && !plan.Trickle && plan.IntrFrame == 0 {
			x.checkDropped(ex, sconn, err, out)
		}
		if sconn != nil && err != nil && out != "errid" {
			// After an I/O error the stream is in an unknown position - unless the error was the read deadline
			// and it struck between two messages: the query went out whole and nothing of a reply has been
			// consumed. Such a connection is as good as before (a caller that retries on it is entitled to the
			// ID rule: the late reply of the exchange that gave up is a foreign-ID reply for the next one).
			aligned := false
			if out == "timeout" {
				k.Lock()
				_, restOut := oracle.Frames(sconn.Sent())
				frames, _ := oracle.Frames(sconn.Peer.Sent())
				consumed := 0
				for i := 0; i < reads && i < len(frames); i++ {
					consumed += 2 + len(frames[i])
				}
				aligned = len(restOut) == 0 && reads <= len(frames) && sconn.ReadTotal == consumed
				k.Unlock()
			}
			if !aligned {
				break
			}
			x.bump("cover.stream_reused_after_timeout")
		}
	}
	co.Close()
}

// trickle sends the first query in three pieces that each arrive after the
// server's read deadline has passed, the other queries right behind it, and
// reads whatever comes back. The server may give up on the connection at any
// of these points; every request a handler sees and every reply that arrives
// must still be one of this client's, intact.
//
//go:norace
func (c *clientTask) trickle(co *dns.Conn, sconn *simnet.StreamConn) {
	x, k := c.x, c.x.k
	plan := x.sc.Clients[c.ci]
	sconn.SetDeadline(time.Now().Add(time.Minute))
	k.Lock()
	x.rawConn[sconn.ID] = true
	k.Unlock()
	for ei, e := range plan.Exch {
		ex := x.ex[tok(c.ci, ei)]
		m := new(dns.Msg)
		m.SetQuestion(ex.token+".test.", dns.TypeTXT)
		m.Id = ex.id
		m.Compress = e.Compress
		sized(m, e.Size)
		b, perr := m.Pack()
		if perr != nil {
			continue
		}
		k.Lock()
		ex.reqBytes = clone(b)
		k.Unlock()
		fr := oracle.Frame(b)
		if ei == 0 {
			n1, n2 := 2+len(b)/3, 2+2*len(b)/3
			sconn.Write(fr[:n1])
			k.Sleep("cli.trickle", trickleTimeout*3/2)
			sconn.Write(fr[n1:n2])
			k.Sleep("cli.trickle", trickleTimeout)
			fr = fr[n2:]
			k.Bump("fault.client_trickles_frame")
		}
		if _, err := sconn.Write(fr); err != nil {
			break
		}
	}
	for {
		r, err := co.ReadMsg()
		if err != nil {
			break
		}
		x.bump("oracle.X1_reply_after_trickle")
		ok := false
		k.Lock()
		for ei := range plan.Exch {
			for _, w := range x.ex[tok(c.ci, ei)].written {
				dm := new(dns.Msg)
				if dm.Unpack(clone(w)) == nil && reflect.DeepEqual(dm, r) {
					ok = true
				}
			}
		}
		if !ok {
			x.res.Fail("X1", "reply-unknown-after-slow-request", "client %d, whose first query trickled in past the server's read timeout, read a reply that no handler of its queries wrote: %s", c.ci, oneLine(r.String()))
		}
		k.Unlock()
		if !ok {
			break
		}
	}
	co.Close()
}

// stashConn hands out octets that were taken off the stream earlier, then the stream.
type stashConn struct {
	net.Conn
	buf []byte
}

//go:norace
func (s *stashConn) Read(p []byte) (int, error) {
	if len(s.buf) > 0 {
		n := copy(p, s.buf)
		s.buf = s.buf[n:]
		return n, nil
	}
	return s.Conn.Read(p)
}

const trickleTimeout = 2 * time.Second

// pipeline writes every query of the client, then reads the replies in
// whatever order the asynchronous handlers produce them.
//
//go:norace
func (c *clientTask) pipeline(co *dns.Conn, sconn *simnet.StreamConn) {
	x, k := c.x, c.x.k
	plan := x.sc.Clients[c.ci]
	sconn.SetDeadline(time.Now().Add(2 * time.Minute))
	sent, written := 0, 0
	for ei, e := range plan.Exch {
		ex := x.ex[tok(c.ci, ei)]
		m := new(dns.Msg)
		m.SetQuestion(ex.token+".test.", dns.TypeTXT)
		m.Id = ex.id
		m.Compress = e.Compress
		sized(m, min(e.Size, 4096))
		b, perr := m.Pack()
		if perr != nil {
			continue
		}
		k.Lock()
		ex.reqBytes = clone(b)
		if plan.IntrFrame == ei+1 && sconn.Peer != nil {
			sconn.Peer.TransientAt = written + plan.IntrOff
		}
		k.Unlock()
		if co.WriteMsg(m) != nil {
			break
		}
		written += 2 + len(b)
		sent++
	}
	expect := 0
	for ei, e := range plan.Exch {
		if ei < sent && e.H.Kind != "silent" {
			expect++
		}
	}
	if plan.SlowRead && expect > 0 {
		// a reader that stops in the middle of a reply: the server's write has to wait for it
		head := make([]byte, 10)
		if _, err := io.ReadFull(sconn, head); err == nil {
			k.Sleep("cli.slowread", 3*time.Second)
			co.Conn = &stashConn{Conn: sconn, buf: head}
			k.Bump("fault.reader_pauses_mid_reply")
		}
	}
	seen := map[string]bool{}
	for i := 0; i < expect; i++ {
		r, err := co.ReadMsg()
		if err != nil && plan.IntrFrame > 0 {
			// the server's read was interrupted: it may give the connection up there and then (what it answers
			// it must still answer rightly)
			x.bump("cover.pipelined_reply_missing_after_interrupted_read")
			break
		}
		if err != nil {
			k.Lock()
			x.res.Fail("X1", "pipelined-reply-missing", "client %d pipelined %d queries; reading reply %d of %d failed: %v", c.ci, sent, i+1, expect, err)
			k.Unlock()
			break
		}
		b, _ := r.Pack()
		x.bump("oracle.X1_pipelined_reply")
		ok := false
		k.Lock()
		for ei := range plan.Exch {
			ex := x.ex[tok(c.ci, ei)]
			for _, w := range ex.written {
				dm := new(dns.Msg)
				if dm.Unpack(clone(w)) == nil && reflect.DeepEqual(dm, r) && !seen[ex.token+string(w)] {
					ok = true
					seen[ex.token+string(w)] = true
					ex.done, ex.outcome = true, "reply"
					break
				}
			}
			if ok {
				break
			}
		}
		if !ok {
			x.res.Fail("X1", "pipelined-reply-unknown", "client %d read a pipelined reply that no handler of its queries wrote (or read one twice): %s (%d octets)", c.ci, oneLine(r.String()), len(b))
		}
		k.Unlock()
		if !ok {
			break
		}
	}
	co.Close()
}

//go:norace
func tok(ci, ei int) string { return "c" + strconv.Itoa(ci) + "e" + strconv.Itoa(ei) }

// judgeExchange applies X1 (client side) and X2 to one finished exchange. It
// runs on the client's goroutine, so the reply it inspects never crosses
// goroutines.
//
//go:norace
func (x *run) judgeExchange(ex *exState, net string, sconn *simnet.StreamConn, dconn *simnet.DgramConn, rcvStart int, reads *int, r *dns.Msg, err error, deadline time.Time) string {
	k, res := x.k, x.res
	fail := func(oracleID, sig, format string, a ...any) {
		k.Lock()
		res.Fail(oracleID, sig, format, a...)
		k.Unlock()
	}
	if net == "udp" {
		k.Lock()
		var got [][]byte
		tooLarge, cut := 0, 0
		for _, d := range dconn.Received[rcvStart:] {
			got = append(got, clone(d.Data))
			if len(d.Data) > ex.guar {
				tooLarge++
			} else if d.TruncRead {
				cut = len(d.Data)
			}
		}
		k.Unlock()
		x.bump("oracle.B1_client_receive_buffer")
		if cut > 0 {
			fail("B1", "reply-cut-by-client-buffer", "a %d-octet datagram was cut by the receive buffer the library offered for exchange %s, which is entitled to %d octets (advertised EDNS size / configured UDPSize, at least 512)", cut, ex.token, ex.guar)
			return "violation"
		}
		// X2: everything read before the last datagram has another ID and is skipped. Whose reply a datagram is
		// stands in its header: one that carries another ID is skipped whatever follows the header - too long for
		// the buffer, not decodable, signed for another request -, one with this exchange's ID ends the reading.
		// (A datagram shorter than a header has no ID: not judged either way.)
		x.bump("oracle.X2_udp_id_rule")
		for i, b := range got {
			last := i == len(got)-1
			if len(b) < 12 {
				if last {
					break
				}
				continue
			}
			hid := uint16(b[0])<<8 | uint16(b[1])
			if hid != ex.id {
				x.bump("oracle.X2_udp_foreign_id_skipped")
				if last && err != nil && !isTimeout(err) && !ex.manual {
					fail("X2", "udp-foreign-id-ends-exchange", "exchange %s (id %d) ended with %q on a datagram that carries another ID (%d; %d octets, %d of %d read): replies with other IDs are to be skipped until the matching one or the deadline arrives", ex.token, ex.id, err.Error(), hid, len(b), i+1, len(got))
					return "violation"
				}
				if last && err == nil {
					fail("X2", "udp-foreign-id-returned", "exchange %s (id %d) returned a reply with id %d", ex.token, ex.id, hid)
					return "violation"
				}
				continue
			}
			if !last {
				fail("X2", "udp-read-past-result", "client %s kept reading after a datagram that should have ended the exchange (%d of %d)", ex.token, i+1, len(got))
				return "violation"
			}
		}
		if tooLarge > 0 {
			// a datagram larger than what this exchange asked for: whatever the library makes of its head is not judged
			x.bump("cover.datagram_larger_than_client_buffer")
			return "excused"
		}
		for i, b := range got {
			last := i == len(got)-1
			dm := new(dns.Msg)
			derr := dm.Unpack(clone(b))
			if len(b) < 12 {
				derr = dns.ErrShortRead
			}
			switch {
			case last && derr == nil && dm.Id != ex.id:
				// the loop stopped on a foreign ID: only a deadline may do that
				if err == nil {
					fail("X2", "udp-foreign-id-returned", "exchange %s (id %d) returned a reply with id %d", ex.token, ex.id, dm.Id)
					return "violation"
				}
			case last && derr == nil && dm.Id == ex.id:
				if err != nil {
					fail("X2", "udp-matching-reply-lost", "exchange %s read the matching reply but returned error %v", ex.token, err)
					return "violation"
				}
				x.bump("oracle.X1_reply_intact")
				if !reflect.DeepEqual(r, dm) {
					fail("X1", "reply-differs", "client %s got a reply that differs from the datagram delivered to it:\ngot:       %s\ndelivered: %s", ex.token, oneLine(r.String()), oneLine(dm.String()))
					return "violation"
				}
				if !x.ownReply(ex, b) {
					fail("X1", "reply-of-another-request", "client %s got a reply with its ID that no handler invocation for its request wrote: %s", ex.token, oneLine(dm.String()))
					return "violation"
				}
				return "reply"
			}
		}
		if err == nil {
			fail("X2", "udp-reply-from-nowhere", "exchange %s returned a reply although no matching datagram was delivered", ex.token)
			return "violation"
		}
		if isTimeout(err) {
			x.checkDelivery(ex, deadline)
			return "timeout"
		}
		return "err"
	}
	// stream
	if err != nil && !isErrID(err) {
		if isTimeout(err) {
			x.checkDelivery(ex, deadline)
			return "timeout"
		}
		return "err"
	}
	k.Lock()
	frames, _ := oracle.Frames(sconn.Peer.Sent())
	var frame []byte
	if *reads < len(frames) {
		frame = clone(frames[*reads])
	}
	k.Unlock()
	*reads++
	if frame == nil {
		fail("F2", "stream-reply-from-nowhere", "client %s read message %d from a stream on which the server wrote only %d", ex.token, *reads, len(frames))
		return "violation"
	}
	dm := new(dns.Msg)
	if derr := dm.Unpack(clone(frame)); derr != nil {
		return "err"
	}
	x.bump("oracle.X2_tcp_id_rule")
	if (dm.Id != ex.id) != isErrID(err) {
		fail("X2", "tcp-id-rule", "exchange %s (id %d) read a reply with id %d and returned %v", ex.token, ex.id, dm.Id, err)
		return "violation"
	}
	x.bump("oracle.X1_reply_intact")
	if !reflect.DeepEqual(r, dm) {
		fail("X1", "reply-differs", "client %s got a message that differs from frame %d the server wrote on its connection:\ngot:   %s\nwrote: %s", ex.token, *reads, oneLine(r.String()), oneLine(dm.String()))
		return "violation"
	}
	if isErrID(err) {
		return "errid"
	}
	if !x.ownReply(ex, frame) {
		fail("X1", "reply-of-another-request", "client %s got a reply with its ID that no handler invocation for its request wrote: %s", ex.token, oneLine(dm.String()))
		return "violation"
	}
	return "reply"
}

// ownReply: the octets are one of the replies a handler invocation for this
// very request passed to WriteMsg.
//
//go:norace
func (x *run) ownReply(ex *exState, b []byte) bool {
	x.k.Lock()
	defer x.k.Unlock()
	for _, w := range ex.written {
		if string(w) == string(b) {
			return true
		}
	}
	return false
}

// checkDelivery: on a link that loses nothing, a reply written well before
// the client's deadline must not end in a timeout.
//
//go:norace
func (x *run) checkDelivery(ex *exState, deadline time.Time) {
	sc := x.sc
	if sc.Drop > 0 {
		return
	}
	x.k.Lock()
	defer x.k.Unlock()
	margin := time.Duration(3*(sc.DelayMs+sc.JitterMs)+5) * time.Millisecond
	for i, w := range ex.written {
		if !ex.writeOK[i] || len(w) < 12 {
			continue
		}
		id := uint16(w[0])<<8 | uint16(w[1])
		if id == ex.id && ex.writeT[i].Add(margin).Before(deadline) {
			if ex.net == "tcp" && (ex.plan.H.Kind == "twice" || ex.plan.H.Kind == "wrongthenright" || ex.plan.H.Kind == "wrongid") {
				continue
			}
			if ex.net == "udp" && len(w) > 65535 {
				continue
			}
			x.res.Stats["oracle.X1_delivery"]++
			x.res.Fail("X1", "reply-lost", "handler wrote the matching reply for %s %v before the client's deadline, on a link that drops nothing, yet the exchange timed out", ex.token, deadline.Sub(ex.writeT[i]))
		}
	}
}

//go:norace
func isTimeout(err error) bool {
	type to interface{ Timeout() bool }
	if t, ok := err.(to); ok && t.Timeout() {
		return true
	}
	return err != nil && strings.Contains(err.Error(), "deadline exceeded")
}

//go:norace
func isErrID(err error) bool { return err == dns.ErrId }

//go:norace
func (x *run) fin(b *bool) {
	x.k.Announce()
	x.k.Lock()
	*b = true
	x.k.Unlock()
}

// invalidCB is the application's MsgInvalidFunc: it takes its time over the octets it is given (a log line, a
// metric, a look at the source), and they have to stay what they were for as long as it runs - also while
// other datagrams arrive.
//
//go:norace
func (x *run) invalidCB(m []byte, err error) {
	k := x.k
	first := clone(m)
	k.Yield("invalid.cb", 0)
	if x.sc.RunSeed%3 == 0 {
		k.Sleep("invalid.cb.slow", 3*time.Millisecond)
	} else {
		k.WaitSteps("invalid.cb.steps", 4, time.Millisecond)
	}
	k.Yield("invalid.cb.read", 0)
	k.Lock()
	x.res.Stats["oracle.B1_invalid_callback_octets_stable"]++
	if !bytes.Equal(first, m) {
		x.res.Fail("B1", "invalid-callback-octets-changed", "the %d octets handed to MsgInvalidFunc (%v) changed while the callback was looking at them:\nfirst: %x\nlater: %x", len(first), err, first[:min(len(first), 40)], m[:min(len(m), 40)])
	}
	k.Unlock()
}

// junkTask is a stranger that sends the UDP server datagrams it must not hand
// to the handler: responses, unsupported opcodes, fragments shorter than a header.
type junkTask struct{ x *run }

//go:norace
func (j *junkTask) RunEvent(time.Time) {
	x, k := j.x, j.x.k
	for i := 0; i < x.sc.Junk; i++ {
		k.WaitSteps("junk.wait", 3+i*5, 2*time.Millisecond)
		m := new(dns.Msg)
		m.SetQuestion("junk.test.", dns.TypeA)
		m.Id = uint16(50000 + i)
		var b []byte
		switch (int(x.sc.RunSeed) + i) % 5 {
		case 4:
			// a query whose header passes every policy but whose question is cut short: answered with FORMERR
			b, _ = m.Pack()
			b = b[:len(b)-3]
		case 0:
			m.Response = true
			b, _ = m.Pack()
		case 1:
			m.Opcode = dns.OpcodeUpdate
			b, _ = m.Pack()
		case 2:
			b, _ = m.Pack()
			b = b[:12]
			b[2] |= 0x80 // a bare header with QR set
		default:
			b = []byte{0xc3, 0x50, 0x80, byte(i), 0xee, 0xee, 0xee, 0xee, 0xee, 0xee, 0xee}[:1+(int(x.sc.RunSeed/5)+3*i)%11]
		}
		k.Lock()
		x.n.InjectToServer(x.pc, simnet.Addr{N: "udp", S: "10.9.9.9:999"}, b, time.Millisecond)
		k.BumpLocked("fault.junk_datagram")
		k.Unlock()
	}
}

type serveTask struct {
	x *run
	s *dns.Server
}

//go:norace
func (s *serveTask) RunEvent(time.Time) {
	err := s.s.ActivateAndServe()
	s.x.k.Lock()
	s.x.serveRet++
	if err != nil {
		s.x.res.Fail("X0", "serve-error", "ActivateAndServe returned %v", err)
	}
	s.x.k.Unlock()
}

type allClients struct{ x *run }

//go:norace
func (a allClients) Holds() bool {
	for _, f := range a.x.cliFin {
		if !f {
			return false
		}
	}
	return true
}

type lifeTask struct{ x *run }

//go:norace
func (l *lifeTask) RunEvent(time.Time) {
	x := l.x
	defer x.fin(&x.lifeFin)
	if !x.k.Wait("life.wait", 0, allClients{x}, 0) {
		return
	}
	for _, s := range []*dns.Server{x.tcp, x.udp} {
		for i := 0; i < 100; i++ {
			if err := s.Shutdown(); err == nil || i == 99 {
				break
			}
			x.k.Sleep("life.retry", time.Millisecond) // not started yet
		}
	}
}

type doneCheck struct{ x *run }

//go:norace
func (d doneCheck) Check(time.Time) string {
	if d.x.lifeFin && d.x.serveRet == 2 {
		return "done"
	}
	return ""
}

func Run(t *testing.T, scAny any, verbose bool) *core.Result {
	sc := scAny.(*Scenario)
	res := &core.Result{Seed: sc.RunSeed, Verdict: core.OK, Stats: map[string]int{}}
	leak := common.Bubble(t, func() {
		if sc.Kind == "framing" {
			runFraming(sc, res, verbose)
		} else {
			runExchange(sc, res, verbose)
		}
	})
	if leak != "" && res.Verdict == core.OK {
		res.Verdict, res.Msg = core.Harness, leak
	}
	return res
}

//go:norace
func runExchange(sc *Scenario, res *core.Result, verbose bool) {
	k := kernel.New(kernel.Config{Seed: sc.RunSeed, Strategy: sc.Strategy, PCTDepth: sc.PCTDepth, PCTSpan: 200, Verbose: verbose, MaxSteps: 60000})
	kernel.SetCurrent(k)
	defer kernel.SetCurrent(nil)
	n := simnet.New(k)
	n.PostYield = sc.PostYield
	d, j := time.Duration(sc.DelayMs)*time.Millisecond, time.Duration(sc.JitterMs)*time.Millisecond
	n.Stream = simnet.StreamLink{MinDelay: d, Jitter: j, SegMode: sc.SegMode, ShortRead: sc.ShortRead, Window: sc.Window}
	if sc.RunSeed%5 == 0 {
		n.Stream.EOFWithData = 60 // the read that returns the last octets before a close returns io.EOF with them
	}
	n.Dgram = simnet.DgramLink{MinDelay: d, Jitter: j, Drop: sc.Drop, Dup: sc.Dup}
	x := &run{sc: sc, k: k, n: n, res: res, ex: map[string]*exState{}, cliFin: make([]bool, len(sc.Clients)), connReply: map[string][]*wrec{}, rawConn: map[int]bool{}, dialed: map[string]*dialRec{}}
	if common.DialSeam() {
		defer common.InstallSockets(&common.Sockets{Dial: x.dial})()
	}
	x.l = n.Listen()
	x.homes = 1
	if sc.UDPSock && common.UDPSeam && sc.Homes > 1 {
		x.homes = sc.Homes
	}
	x.uc = n.ListenUDP([]string{"10.0.0.1:53", "10.0.0.7:53", "[fd00::1]:53"}[:x.homes]...)
	x.pc = x.uc.PacketConn
	x.l.Transient, x.pc.Transient = sc.Transient, sc.Transient
	mk := func() *dns.Server {
		s := &dns.Server{Handler: x, UDPSize: sc.UDPSize, ReadTimeout: time.Hour, IdleTimeout: hourIdle, TsigSecret: map[string]string{tsigKey: tsigSecret}}
		if sc.ShortIdle {
			s.IdleTimeout = shortIdle
		}
		for _, c := range sc.Clients {
			if c.Trickle {
				s.ReadTimeout = trickleTimeout
			}
		}
		if sc.RunSeed%2 == 0 {
			// an application that looks at what it is told was invalid (the other half of the runs leaves the default)
			s.MsgInvalidFunc = x.invalidCB
		}
		if sc.Decorate {
			slow := []time.Duration{0, 0, 2 * time.Millisecond, 20 * time.Millisecond}[sc.RunSeed%4]
			s.DecorateReader = (&common.Decorator{K: k}).Decorate
			s.MsgAcceptFunc = (&common.YieldAccept{K: k, Slow: slow}).Accept
			if sc.RunSeed%3 == 0 {
				s.DecorateWriter = (&common.WDecorator{K: k}).Decorate
			}
		}
		return s
	}
	x.tcp, x.udp = mk(), mk()
	x.tcp.Listener = x.l
	x.udp.PacketConn = x.pc
	if sc.UDPSock && common.UDPSeam {
		x.udp.PacketConn = common.ServerSocket(x.uc)
		res.Bump("cover.server_on_udp_socket")
	}
	for ci, c := range sc.Clients {
		for ei, e := range c.Exch {
			x.ex[tok(ci, ei)] = &exState{ci: ci, ei: ei, token: tok(ci, ei), qtoken: tok(ci, ei), plan: e, id: uint16(1000 + ci*64 + ei), net: c.Net}
			if ci == 0 && ei == 0 && sc.RunSeed%5 == 0 {
				x.ex[tok(ci, ei)].id = 0 // a query whose ID is zero is a query like any other
			}
		}
	}
	for ci, c := range sc.Clients {
		if c.TwinOf > 0 && c.TwinOf-1 != ci && c.TwinOf <= len(sc.Clients) && sc.Clients[c.TwinOf-1].Net == c.Net && sc.Clients[c.TwinOf-1].TwinOf == 0 {
			if a, b := x.ex[tok(c.TwinOf-1, 0)], x.ex[tok(ci, 0)]; a != nil && b != nil && a.twin == nil {
				a.twin, b.qtoken = b, a.token
				res.Bump("cover.same_question_twice_at_once")
			}
		}
	}
	if sc.Shared {
		x.shared = map[string]*dns.Client{}
	}
	start0 := time.Now()
	k.Go("serve-tcp", &serveTask{x, x.tcp})
	k.Go("serve-udp", &serveTask{x, x.udp})
	k.Go("life", &lifeTask{x})
	for ci := range sc.Clients {
		k.Go("client"+strconv.Itoa(ci), &clientTask{x, ci})
	}
	if sc.Junk > 0 {
		k.Go("junk", &junkTask{x})
	}
	out := k.Run(doneCheck{x})
	res.Steps = k.Steps
	res.SimNS = int64(time.Since(start0))
	x.judgeRun(out)
	res.Digest = k.Digest()
	for name, v := range k.Stats {
		res.Stats[name] += v
	}
	if verbose {
		res.Log = k.Log
	}
	k.Abort()
}

//go:norace
func hourIdle() time.Duration { return time.Hour }

//go:norace
func shortIdle() time.Duration { return 300 * time.Millisecond }

//go:norace
func (x *run) judgeRun(outcome string) {
	res, sc := x.res, x.sc
	switch outcome {
	case kernel.StepCap:
		if res.Verdict == core.OK {
			res.Verdict, res.Msg = core.Harness, "step cap reached"
		}
		return
	case kernel.Quiescent:
		res.Fail("X0", "stuck", "the run cannot make progress: parked %v", x.k.Parked())
		return
	}
	// X3: a reply leaves from the address its request was sent to (a host with
	// several addresses; a connected client socket never sees anything else)
	if x.uc.BadSource > 0 {
		res.Fail("X3", "reply-source-not-local", "%d repl(ies) were sent with a source address the server host does not have", x.uc.BadSource)
		return
	}
	for _, d := range x.n.Dgrams {
		if !d.FromSrv || d.Injected || len(d.Orig) < 13 {
			continue
		}
		ex := x.exOfWire(d.Orig)
		if ex == nil || ex.net != "udp" {
			continue
		}
		res.Bump("oracle.X3_reply_source_address")
		want := x.uc.Locals[sc.Clients[ex.ci].Home%x.homes]
		if d.From != want {
			res.Fail("X3", "reply-source-address", "the reply to %s, which was sent to %s, left the server from %s: the client's connected socket never receives it", ex.token, want.S, d.From.S)
			return
		}
	}
	// B1: the server always offers a receive buffer of UDPSize octets, whatever
	// passed through the buffer pool before
	for _, d := range x.pc.Received {
		res.Bump("oracle.B1_receive_buffer_size")
		if d.TruncRead && len(d.Data) <= sc.UDPSize {
			res.Fail("B1", "datagram-truncated-by-recycled-buffer", "a %d-octet datagram was cut to %d octets by the server's read although UDPSize is %d: a recycled receive buffer was offered short", len(d.Data), len(d.Seen), sc.UDPSize)
			return
		}
	}
	// conservation: handler invocations per request = delivered copies
	delivered := map[string]int{}
	for _, d := range x.pc.Received {
		if len(d.Data) >= 13 && !d.TruncRead {
			if ex := x.exOfWire(d.Data); ex != nil {
				delivered[ex.token]++
			}
		}
	}
	classes := map[string]bool{}
	for _, tk := range core.SortedKeys(x.ex) {
		ex := x.ex[tk]
		if ex.net == "udp" {
			if ex.reqBytes != nil && len(ex.reqBytes) <= sc.UDPSize {
				res.Bump("oracle.X1_invocations_udp")
				if ex.handlerN != delivered[ex.token] {
					res.Fail("X1", "invocation-count", "request %s was delivered %d time(s) to the server but its handler ran %d time(s)", ex.token, delivered[ex.token], ex.handlerN)
				}
			}
		} else if ex.handlerN > 1 {
			res.Fail("X1", "invocation-count", "request %s was sent once on a stream but its handler ran %d times", ex.token, ex.handlerN)
		}
		if ex.done {
			classes[fmt.Sprintf("%s/%s/%s/req=%s/rep=%s", ex.net, ex.plan.H.Kind, ex.outcome, sizeClass(ex.plan.Size), sizeClass(ex.plan.H.ReplySize))] = true
		}
	}
	// F1: every octet the library wrote on a stream is a sequence of whole frames, each one message
	for _, c := range x.n.Conns {
		sent := c.Sent()
		frames, rest := oracle.Frames(sent)
		if x.rawConn[c.ID] {
			continue // written by the harness, octet by octet
		}
		res.Bump("oracle.F1_stream_framing")
		if len(rest) != 0 {
			res.Fail("F1", "partial-frame-written", "%s side of connection #%d wrote %d octets that do not end on a frame boundary (%d left over)", c.Role, c.ID, len(sent), len(rest))
			continue
		}
		if c.Role == "srv" {
			// every reply whose write came back without error is on the wire, nothing
			// is there that no handler handed over, and (unless the handlers can lose
			// the processor around their writes) in the order in which the writes came back
			var must, may [][]byte
			var back []*wrec
			for _, r := range x.connReply[c.RemoteAddr().String()] {
				switch r.state {
				case 1:
					back = append(back, r)
				case 0:
					may = append(may, r.b)
				}
			}
			sort.Slice(back, func(i, j int) bool { return back[i].done < back[j].done })
			for _, r := range back {
				must, may = append(must, r.b), append(may, r.b)
			}
			if len(frames) < len(must) || len(frames) > len(may) {
				res.Fail("F1", "frame-count", "server wrote %d frames on connection #%d, handlers wrote %d replies there (%d more were handed over without the call having returned)", len(frames), c.ID, len(must), len(may)-len(must))
				continue
			}
			if !sc.PostYield && len(may) == len(must) {
				for i := range frames {
					if string(frames[i]) != string(must[i]) {
						res.Fail("F1", "frame-content", "frame %d on connection #%d differs from reply %d written there by a handler", i, c.ID, i)
						break
					}
				}
				continue
			}
			left := map[string]int{}
			for _, b := range may {
				left[string(b)]++
			}
			for i, f := range frames {
				if left[string(f)] == 0 {
					res.Fail("F1", "frame-content", "frame %d on connection #%d is not a reply a handler wrote there", i, c.ID)
					break
				}
				left[string(f)]--
			}
			have := map[string]int{}
			for _, f := range frames {
				have[string(f)]++
			}
			for _, b := range must {
				if have[string(b)] == 0 {
					res.Fail("F1", "frame-content", "a reply a handler wrote on connection #%d is not among the frames sent there", c.ID)
					break
				}
				have[string(b)]--
			}
		}
	}
	for c := range classes {
		res.Classes = append(res.Classes, c)
	}
	res.Nontrivial = len(x.ex) > 0
	res.Class = fmt.Sprintf("exchange/%s/clients=%d/drop=%v/dup=%v/seg=%d", core.Mode, len(sc.Clients), sc.Drop > 0, sc.Dup > 0, sc.SegMode)
}

func sizeClass(s int) string {
	switch {
	case s == 0:
		return "min"
	case s <= 512:
		return "<=512"
	case s <= 4096:
		return "<=4096"
	case s < 65534:
		return "<64k"
	}
	return strconv.Itoa(s)
}

// ---------------------------------------------------------------- framing

type frWriter struct {
	x    *frRun
	conn *simnet.StreamConn
}

type frRun struct {
	sc      *Scenario
	k       *kernel.K
	res     *core.Result
	msgs    [][]byte // packed messages the writer handed to the library, in order (accepted ones)
	refused int
	wfin    bool
	rfin    bool
	got     int
	readErr string
	wconn   *simnet.StreamConn
	rconn   *simnet.StreamConn
}

//go:norace
func (w *frWriter) RunEvent(time.Time) {
	x := w.x
	co := &dns.Conn{Conn: w.conn}
	w.conn.SetDeadline(time.Now().Add(time.Hour))
	for i, size := range x.sc.Sizes {
		m := new(dns.Msg)
		m.SetQuestion("m"+strconv.Itoa(i)+".framing.test.", dns.TypeTXT)
		m.Id = uint16(100 + i)
		sized(m, size)
		b, err := m.Pack()
		if err != nil {
			continue
		}
		runt := size > 0 && size < 12
		if runt {
			b = b[:size]
			x.k.Bump("fault.runt_frame")
		}
		var werr error
		if x.sc.WriterAPI == 1 || runt {
			_, werr = co.Write(clone(b))
		} else {
			werr = co.WriteMsg(m)
		}
		x.k.Lock()
		switch {
		case len(b) > 65535:
			x.res.Stats["oracle.F1_oversize_refused"]++
			x.refused++
			if werr == nil {
				x.res.Fail("F1", "oversize-accepted", "a %d-octet message was accepted for a stream", len(b))
			}
		case werr == nil:
			x.msgs = append(x.msgs, clone(b))
		default:
			// the reader never closes and the link keeps accepting octets:
			// nothing but the library itself can refuse this write
			x.res.Fail("F1", "valid-size-refused", "writing a %d-octet message to a healthy stream failed: %v", len(b), werr)
		}
		x.k.EffectLocked("w " + strconv.Itoa(len(b)) + " " + common.ErrStr(werr))
		x.k.Unlock()
		if werr != nil && len(b) <= 65535 {
			break // peer gone
		}
	}
	w.conn.Close()
	x.k.Lock()
	x.wfin = true
	x.k.Unlock()
}

type frReader struct {
	x    *frRun
	conn *simnet.StreamConn
}

//go:norace
func (r *frReader) RunEvent(time.Time) {
	x := r.x
	co := &dns.Conn{Conn: r.conn}
	r.conn.SetDeadline(time.Now().Add(2 * time.Hour))
	buf := make([]byte, 65535)
	for {
		var b []byte
		var err error
		var m *dns.Msg
		switch x.sc.ReaderAPI {
		case 1:
			var h dns.Header
			b, err = co.ReadMsgHeader(&h)
		case 2:
			var n int
			n, err = co.Read(buf)
			b = buf[:n]
		default:
			m, err = co.ReadMsg()
			if err == nil {
				b, err = m.Pack()
			}
		}
		x.k.Lock()
		if err != nil && errors.Is(err, dns.ErrShortRead) && x.sc.ReaderAPI != 2 && x.got < len(x.msgs) && len(x.msgs[x.got]) < 12 {
			// the frame held fewer octets than a header: reported, and consumed - what follows is still framed
			x.got++
			x.res.Stats["oracle.F2_runt_frame_reported"]++
			x.k.EffectLocked("r runt")
			x.k.Unlock()
			continue
		}
		if err != nil {
			x.readErr = err.Error()
			x.rfin = true
			x.k.EffectLocked("r err " + classifyErr(err))
			x.k.Unlock()
			return
		}
		i := x.got
		x.got++
		x.res.Stats["oracle.F2_message_intact"]++
		if i >= len(x.msgs) {
			x.res.Fail("F2", "message-from-nowhere", "reader returned message %d, only %d were written", i+1, len(x.msgs))
		} else if x.sc.ReaderAPI != 0 && string(b) != string(x.msgs[i]) {
			x.res.Fail("F2", "message-differs", "message %d read from the stream (%d octets) differs from the %d octets written", i+1, len(b), len(x.msgs[i]))
		} else if x.sc.ReaderAPI == 0 {
			// ReadMsg: compare decoded forms (repacking may compress differently)
			exp := new(dns.Msg)
			if exp.Unpack(clone(x.msgs[i])) == nil && !reflect.DeepEqual(m, exp) {
				x.res.Fail("F2", "message-differs", "message %d decoded from the stream differs from the one written", i+1)
			}
		}
		x.k.EffectLocked("r msg " + strconv.Itoa(len(b)))
		x.k.Unlock()
	}
}

//go:norace
func classifyErr(err error) string {
	s := err.Error()
	switch {
	case strings.Contains(s, "EOF"):
		return "eof"
	case strings.Contains(s, "reset"):
		return "reset"
	case strings.Contains(s, "timeout"):
		return "timeout"
	}
	return "other"
}

type frDone struct{ x *frRun }

//go:norace
func (d frDone) Check(time.Time) string {
	if d.x.wfin && d.x.rfin {
		return "done"
	}
	return ""
}

//go:norace
func runFraming(sc *Scenario, res *core.Result, verbose bool) {
	k := kernel.New(kernel.Config{Seed: sc.RunSeed, Strategy: sc.Strategy, PCTDepth: sc.PCTDepth, PCTSpan: 100, Verbose: verbose, MaxSteps: 60000})
	kernel.SetCurrent(k)
	defer kernel.SetCurrent(nil)
	n := simnet.New(k)
	n.Stream = simnet.StreamLink{MinDelay: time.Duration(sc.DelayMs) * time.Millisecond, Jitter: time.Duration(sc.JitterMs) * time.Millisecond, SegMode: sc.SegMode, ShortRead: sc.ShortRead, Window: sc.Window, MaxSegs: 8}
	if sc.RunSeed%3 == 0 {
		n.Stream.EOFWithData = 60
	}
	x := &frRun{sc: sc, k: k, res: res}
	wc, rc := n.Pair(true)
	x.wconn, x.rconn = wc, rc
	if sc.CutAt > 0 {
		rc.CutAfter(sc.CutAt, sc.CutRST)
	}
	start0 := time.Now()
	k.Go("writer", &frWriter{x, wc})
	k.Go("reader", &frReader{x, rc})
	out := k.Run(frDone{x})
	res.Steps = k.Steps
	res.SimNS = int64(time.Since(start0))
	res.Digest = k.Digest()
	for name, v := range k.Stats {
		res.Stats[name] += v
	}
	if verbose {
		res.Log = k.Log
	}
	defer k.Abort()
	switch out {
	case kernel.StepCap:
		res.Verdict, res.Msg = core.Harness, "step cap reached"
		return
	case kernel.Quiescent:
		res.Fail("F2", "stuck", "framing run cannot make progress: parked %v", k.Parked())
		return
	}
	// F1: octets on the wire = concatenation of len16 || message for each accepted message
	res.Bump("oracle.F1_stream_framing")
	var want []byte
	for _, m := range x.msgs {
		want = append(want, oracle.Frame(m)...)
	}
	if string(wc.Sent()) != string(want) {
		res.Fail("F1", "wire-octets", "the writer put %d octets on the wire, the framing of the %d accepted messages is %d octets", len(wc.Sent()), len(x.msgs), len(want))
		return
	}
	// F2: how many messages must have been read
	limit := len(want)
	if sc.CutAt > 0 && sc.CutAt < limit {
		limit = sc.CutAt
	}
	whole, acc := 0, 0
	for _, m := range x.msgs {
		if acc+2+len(m) <= limit {
			whole++
			acc += 2 + len(m)
		} else {
			break
		}
	}
	res.Bump("oracle.F2_complete_messages_returned")
	if x.got != whole {
		res.Fail("F2", "message-count", "%d whole messages reached the reader's end of the stream (cut at %d of %d octets), the reader returned %d and then %q", whole, sc.CutAt, len(want), x.got, x.readErr)
		return
	}
	res.Nontrivial = true
	cut := "none"
	if sc.CutAt > 0 && sc.CutAt < len(want) {
		switch rel := sc.CutAt - acc; {
		case rel == 0:
			cut = "at-boundary"
		case rel < 2:
			cut = "in-length"
		default:
			cut = "in-body"
		}
	}
	res.Class = fmt.Sprintf("framing/r%d/w%d/cut=%s/rst=%v/msgs=%d/refused=%d/seg=%d/win=%d", sc.ReaderAPI, sc.WriterAPI, cut, sc.CutRST, len(x.msgs), x.refused, sc.SegMode, sc.Window)
}

func init() {
	core.Register(&core.Prop{ID: "C12", Gen: Gen, Decode: Decode, Run: Run, Shrink: Shrink, Modes: []string{"pristine", "instr"}, Race: true})
}
