//go:build !verifsim

package common

import (
	"context"
	"net"
)

// The unmodified tree has no socket seam: ListenAndServe and the dialling entry
// points would reach the operating system.

func ListenSeam() bool { return false }
func DialSeam() bool   { return false }

type Sockets struct {
	ListenTCP func(network, addr string, reuseport, reuseaddr bool) (net.Listener, error)
	ListenUDP func(network, addr string, reuseport, reuseaddr bool) (net.PacketConn, error)
	Dial      func(d *net.Dialer, ctx context.Context, network, addr string) (net.Conn, error)
}

func InstallSockets(*Sockets) func() { return func() {} }
