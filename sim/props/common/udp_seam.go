//go:build verifsimudp

package common

import (
	"net"
	"time"

	"github.com/miekg/dns"

	"verifsim/simnet"
)

const UDPSeam = true

//go:norace
func (r *YieldReader) ReadUDP(conn dns.VerifsimUDPConn, timeout time.Duration) ([]byte, *dns.SessionUDP, error) {
	r.K.Yield("reader.preUDP", 0)
	stall(r.K, r.Slow, "reader.stall")
	return r.Inner.ReadUDP(conn, timeout)
}

//go:norace
func ServerSocket(u *simnet.UDPConn) net.PacketConn { return u }

var _ dns.VerifsimUDPConn = (*simnet.UDPConn)(nil)
