package common

import (
	"crypto/ed25519"
	"crypto/tls"
	"crypto/x509"
	"crypto/x509/pkix"
	"math/big"
	"sync"
	"time"
)

var (
	tlsOnce sync.Once
	tlsSrv  *tls.Config
	tlsCli  *tls.Config
)

type zeroReader struct{}

func (zeroReader) Read(p []byte) (int, error) {
	for i := range p {
		p[i] = 0x42
	}
	return len(p), nil
}

// TLSConfigs returns a server and a client configuration with a fixed
// self-signed Ed25519 certificate valid from 1990 to 2200 (the bubble's clock
// starts in 2000). Ed25519 and X25519 keep every handshake message at a fixed
// length, so segmentation choices do not depend on signature encodings.
func TLSConfigs() (*tls.Config, *tls.Config) {
	tlsOnce.Do(func() {
		seed := make([]byte, ed25519.SeedSize)
		for i := range seed {
			seed[i] = byte(i + 1)
		}
		priv := ed25519.NewKeyFromSeed(seed)
		tmpl := &x509.Certificate{
			SerialNumber: big.NewInt(1), Subject: pkix.Name{CommonName: "sim.test"}, DNSNames: []string{"sim.test"},
			NotBefore: time.Date(1990, 1, 1, 0, 0, 0, 0, time.UTC), NotAfter: time.Date(2200, 1, 1, 0, 0, 0, 0, time.UTC),
			KeyUsage: x509.KeyUsageDigitalSignature, ExtKeyUsage: []x509.ExtKeyUsage{x509.ExtKeyUsageServerAuth}, BasicConstraintsValid: true, IsCA: true,
		}
		der, err := x509.CreateCertificate(zeroReader{}, tmpl, tmpl, priv.Public(), priv)
		if err != nil {
			panic(err)
		}
		cert := tls.Certificate{Certificate: [][]byte{der}, PrivateKey: priv}
		pool := x509.NewCertPool()
		c, _ := x509.ParseCertificate(der)
		pool.AddCert(c)
		tlsSrv = &tls.Config{Certificates: []tls.Certificate{cert}, MinVersion: tls.VersionTLS13, CurvePreferences: []tls.CurveID{tls.X25519}, SessionTicketsDisabled: true}
		tlsCli = &tls.Config{RootCAs: pool, ServerName: "sim.test", MinVersion: tls.VersionTLS13, CurvePreferences: []tls.CurveID{tls.X25519}}
	})
	return tlsSrv, tlsCli
}
