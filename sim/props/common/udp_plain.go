//go:build !verifsimudp

package common

import (
	"net"
	"time"

	"github.com/miekg/dns"

	"verifsim/simnet"
)

// UDPSeam says whether the library in this build takes the simulator's UDPConn
// for a UDP socket (instrumented copy with the interface substituted for
// *net.UDPConn). Without it datagram servers run the generic PacketConn branch.
const UDPSeam = false

//go:norace
func (r *YieldReader) ReadUDP(conn *net.UDPConn, timeout time.Duration) ([]byte, *dns.SessionUDP, error) {
	return r.Inner.ReadUDP(conn, timeout)
}

// ServerSocket returns what to hand to Server.PacketConn.
//
//go:norace
func ServerSocket(u *simnet.UDPConn) net.PacketConn { return u.PacketConn }
