package common

import (
	"encoding/binary"
	"strings"
	"time"

	"verifsim/kernel"
	"verifsim/oracle"
	"verifsim/simnet"
)

// FrameOp is one action of the on-path middlebox on one length-prefixed
// message of a stream.
type FrameOp struct {
	Dir    string `json:"dir,omitempty"` // s2c (default) | c2s
	Env    int    `json:"env"`           // index of the message in that direction
	Kind   string `json:"kind"`          // drop | dup | swap | flip | unsign | wrongkey | id | rcode | stall | trailing | delay | nonsoa
	Region string `json:"region,omitempty"`
	Frac   int    `json:"frac,omitempty"`
	Bit    int    `json:"bit,omitempty"`
	DelayS int    `json:"delay_s,omitempty"`
}

// Relay is a middlebox task pair between a client-side and a server-side
// stream. It reassembles frames with its own parser and applies FrameOps.
type Relay struct {
	K           *kernel.K
	ToClient    *simnet.StreamConn // relay's end of the connection to the client
	ToServer    *simnet.StreamConn // relay's end of the connection to the server
	Ops         []FrameOp
	WrongSecret string // base64, used by "wrongkey"
	RightSecret string // base64, used by "parentkey": the receiver's secret under a name that is not the key's
	HeldKey     string // "heldkey": the name of another key the receiver holds ...
	HeldSecret  string // ... and its secret (base64)
	KeyName     string
	Alg         string
	Rewrite     func(kind string, frame []byte) []byte // record-level edits done by the harness (nonsoa, trailing)
	FinAfter    int                                    // > 0: the connection towards the client is closed right behind the FinAfter-th message forwarded to it (the FIN travels with the last octets)

	// what came in and what went out, per direction ("c2s", "s2c")
	In        map[string][][]byte
	Out       map[string][][]byte
	Authentic map[string][]bool // Out[i] is In[i'] unmodified and in order so far
	Fired     map[string]int
	Done      map[string]bool
	lastMAC   map[string][]byte
	queryMAC  []byte

	LastForwardT time.Time              // when the last message was handed to the link towards the client
	OutT         map[string][]time.Time // when each forwarded message was handed to the link
	InT          map[string][]time.Time // when each message arrived at the middlebox
}

//go:norace
func (r *Relay) Start() {
	r.In, r.Out = map[string][][]byte{}, map[string][][]byte{}
	r.Authentic = map[string][]bool{}
	r.Fired, r.Done, r.lastMAC = map[string]int{}, map[string]bool{}, map[string][]byte{}
	r.K.Go("relay-c2s", &pump{r, "c2s", r.ToClient, r.ToServer})
	r.K.Go("relay-s2c", &pump{r, "s2c", r.ToServer, r.ToClient})
}

type pump struct {
	r   *Relay
	dir string
	src *simnet.StreamConn
	dst *simnet.StreamConn
}

//go:norace
func readFull(c *simnet.StreamConn, p []byte) bool {
	for n := 0; n < len(p); {
		k, err := c.Read(p[n:])
		n += k
		if err != nil {
			return n == len(p) // (the last octets may come together with the end of the stream)
		}
	}
	return true
}

//go:norace
func (p *pump) opFor(i int) *FrameOp {
	for j := range p.r.Ops {
		o := &p.r.Ops[j]
		d := o.Dir
		if d == "" {
			d = "s2c"
		}
		if d == p.dir && o.Env == i {
			return o
		}
	}
	return nil
}

//go:norace
func (p *pump) forward(b []byte, authentic bool) bool {
	r := p.r
	r.K.Lock()
	r.Out[p.dir] = append(r.Out[p.dir], append([]byte(nil), b...))
	r.Authentic[p.dir] = append(r.Authentic[p.dir], authentic)
	if r.OutT == nil {
		r.OutT = map[string][]time.Time{}
	}
	r.OutT[p.dir] = append(r.OutT[p.dir], time.Now())
	if p.dir == "s2c" {
		r.LastForwardT = time.Now()
	}
	r.K.Unlock()
	_, err := p.dst.Write(oracle.Frame(b))
	return err == nil
}

//go:norace
func (p *pump) RunEvent(time.Time) {
	r := p.r
	p.src.SetDeadline(time.Time{})
	var held []byte
	inOrder := true // nothing dropped, duplicated or reordered so far
	stop := func() {
		if held != nil {
			p.forward(held, false)
		}
		p.dst.Close()
		r.K.Lock()
		r.Done[p.dir] = true
		r.K.Unlock()
	}
	for i := 0; ; i++ {
		var hdr [2]byte
		if !readFull(p.src, hdr[:]) {
			stop()
			return
		}
		b := make([]byte, binary.BigEndian.Uint16(hdr[:]))
		if !readFull(p.src, b) {
			stop()
			return
		}
		r.K.Lock()
		r.In[p.dir] = append(r.In[p.dir], append([]byte(nil), b...))
		if r.InT == nil {
			r.InT = map[string][]time.Time{}
		}
		r.InT[p.dir] = append(r.InT[p.dir], time.Now())
		var prior []byte
		timers := false
		if p.dir == "s2c" {
			prior, timers = r.lastMAC["s2c"], i > 0
			if i == 0 {
				prior = r.queryMAC
			}
		}
		if t, _, ok := oracle.FindTSIG(b); ok {
			if p.dir == "c2s" {
				r.queryMAC = append([]byte(nil), t.MAC...)
			}
			r.lastMAC[p.dir] = append([]byte(nil), t.MAC...)
		}
		r.K.Unlock()
		if held != nil { // second half of a swap
			ok := p.forward(b, false) && p.forward(held, false)
			held = nil
			if !ok {
				stop()
				return
			}
			continue
		}
		op := p.opFor(i)
		if op == nil {
			if !p.forward(b, inOrder) {
				stop()
				return
			}
			if p.dir == "s2c" && r.FinAfter > 0 && i+1 == r.FinAfter {
				p.dst.Close()
				r.K.Bump("fault.fin_right_behind_last_envelope")
			}
			continue
		}
		r.K.Bump("fault.envelope_" + op.Kind)
		r.K.Lock()
		r.Fired[op.Kind]++
		r.K.Unlock()
		ok := true
		switch op.Kind {
		case "drop":
			inOrder = false
		case "dup":
			ok = p.forward(b, inOrder) && p.forward(b, false)
			inOrder = false
		case "swap":
			// exchange this message with the next one - if there is a next one
			// (wait a little for it; otherwise this is just a short delay)
			r.K.Sleep("relay.swapwait", 300*time.Millisecond)
			if p.src.Unread() > 0 {
				held = b
				inOrder = false
			} else {
				ok = p.forward(b, inOrder)
			}
		case "delay":
			r.K.Sleep("relay.delay", time.Duration(op.DelayS)*time.Second)
			ok = p.forward(b, inOrder)
		case "stall":
			// hold this and everything after it; never close
			r.K.Lock()
			r.Done[p.dir] = true
			r.K.Unlock()
			r.K.Sleep("relay.stall", 100*time.Hour)
			return
		case "flip":
			c := append([]byte(nil), b...)
			pos := flipPos(c, op.Region, op.Frac)
			c[pos] ^= 1 << uint(op.Bit&7)
			ok = p.forward(c, false)
		case "unsign":
			ok = p.forward(oracle.StripTSIG(b), false)
		case "shortmac":
			ok = p.forward(oracle.ShortenMAC(b, op.Frac), false)
		case "wrongkey":
			if t, _, has := oracle.FindTSIG(b); has {
				c := oracle.SignTSIG(oracle.StripTSIG(b), r.KeyName, r.Alg, r.WrongSecret, prior, timers, t.Time, t.Fudge)
				ok = p.forward(c, false)
			} else {
				ok = p.forward(b, inOrder)
			}
		case "heldkey":
			// signed, over the right running MAC, under ANOTHER key the receiver also holds (a peer that is
			// trusted for something else), or - odd Frac - under the right key with another HMAC algorithm:
			// not the key and algorithm the request was made under
			if t, _, has := oracle.FindTSIG(b); has && r.HeldKey != "" {
				name, alg, secret := r.HeldKey, r.Alg, r.HeldSecret
				if op.Frac%2 == 1 {
					name, secret = r.KeyName, r.RightSecret
					alg = "hmac-sha512."
					if strings.EqualFold(r.Alg, alg) {
						alg = "hmac-sha256."
					}
				}
				c := oracle.SignTSIG(oracle.StripTSIG(b), name, alg, secret, prior, timers, t.Time, t.Fudge)
				ok = p.forward(c, false)
			} else {
				ok = p.forward(b, inOrder)
			}
		case "otherform":
			// signed with the right key over the right prior MAC - but in the other of the two forms: the full TSIG
			// variables where the timers alone belong (a later envelope), the timers alone where the variables belong
			if t, _, has := oracle.FindTSIG(b); has && r.RightSecret != "" {
				c := oracle.SignTSIG(oracle.StripTSIG(b), r.KeyName, r.Alg, r.RightSecret, prior, !timers, t.Time, t.Fudge)
				ok = p.forward(c, false)
			} else {
				ok = p.forward(b, inOrder)
			}
		case "nokey":
			// signed under a key name the receiver holds no secret for, with the empty key
			if t, _, has := oracle.FindTSIG(b); has {
				c := oracle.SignTSIG(oracle.StripTSIG(b), "nobody-has-this-key.", r.Alg, "", prior, timers, t.Time, t.Fudge)
				ok = p.forward(c, false)
			} else {
				ok = p.forward(b, inOrder)
			}
		case "parentkey":
			// signed with the receiver's own secret, but under another key name: the parent
			// domain of the key's name, or the root (a peer that holds the secret under another
			// name; the receiver has no key of that name)
			if t, _, has := oracle.FindTSIG(b); has && r.RightSecret != "" {
				name := "."
				if i := strings.IndexByte(r.KeyName, '.'); op.Frac%2 == 0 && i >= 0 && i+1 < len(r.KeyName) {
					name = r.KeyName[i+1:]
				}
				c := oracle.SignTSIG(oracle.StripTSIG(b), name, r.Alg, r.RightSecret, prior, timers, t.Time, t.Fudge)
				ok = p.forward(c, false)
			} else {
				ok = p.forward(b, inOrder)
			}
		case "reflect":
			// the receiver gets its own last message back where the answer is expected (a peer, or anyone on
			// the path, who holds no key at all): correctly signed - as a request
			var q []byte
			other := map[string]string{"s2c": "c2s", "c2s": "s2c"}[p.dir]
			r.K.Lock()
			if n := len(r.In[other]); n > 0 {
				q = append([]byte(nil), r.In[other][n-1]...)
			}
			r.K.Unlock()
			if q != nil {
				ok = p.forward(q, false)
			} else {
				ok = p.forward(b, inOrder)
			}
		case "id":
			c := append([]byte(nil), b...)
			c[1] ^= 1
			ok = p.forward(c, false)
		case "rcode":
			c := append([]byte(nil), b...)
			c[3] = c[3]&0xf0 | 2 // SERVFAIL
			ok = p.forward(c, false)
		default:
			c := b
			if r.Rewrite != nil {
				c = r.Rewrite(op.Kind, b)
			}
			ok = p.forward(c, false)
			if op.Kind == "trailing" && ok {
				ok = p.forward(b, false)
			}
		}
		if !ok {
			stop()
			return
		}
	}
}

// flipPos picks an octet of a message by region name and per-mille position.
//
//go:norace
func flipPos(b []byte, region string, frac int) int {
	lo, hi := 0, len(b)
	if m, err := oracle.Parse(b); err == nil {
		body := 12
		if len(m.Questions) > 0 {
			body = m.Questions[len(m.Questions)-1].End
		}
		tsigStart := len(b)
		if t, _, ok := oracle.FindTSIG(b); ok {
			tsigStart = t.RRStart
		}
		switch region {
		case "header":
			lo, hi = 0, 12
		case "id":
			lo, hi = 0, 2
		case "flags":
			lo, hi = 2, 4
		case "counts":
			lo, hi = 4, 12
		case "question":
			lo, hi = 12, body
		case "records":
			lo, hi = body, tsigStart
		case "tsig":
			lo, hi = tsigStart, len(b)
		case "mac":
			if t, _, ok := oracle.FindTSIG(b); ok && len(t.MAC) > 0 {
				// the MAC sits 6 + len(other) + 6 octets before the end
				hi = len(b) - 6 - len(t.Other)
				lo = hi - len(t.MAC)
			}
		}
	}
	if hi <= lo {
		lo, hi = 0, len(b)
	}
	return lo + (hi-lo)*frac/1000%max(hi-lo, 1)
}
