// Package common has the pieces the server-side harnesses share.
package common

import (
	"context"
	"fmt"
	"io"
	"net"
	"runtime"
	"strings"
	"testing"
	"testing/synctest"
	"time"

	"github.com/miekg/dns"
	"verifsim/kernel"
)

// Bubble runs body as the root goroutine of a fresh synctest bubble inside a
// sub-test, so that a failing bubble cannot end the worker loop. It returns
// the leak report (goroutines still blocked inside the bubble after body
// returned), or "" when the bubble ended cleanly.
func Bubble(t *testing.T, body func()) (leak string) {
	t.Run("b", func(t *testing.T) {
		defer func() {
			if r := recover(); r != nil {
				s := fmt.Sprint(r)
				if strings.Contains(s, "blocked goroutines remain") {
					leak = "goroutines remain blocked after the run: " + BubbleStacks()
					return
				}
				panic(r)
			}
		}()
		synctest.Test(t, func(t *testing.T) { body() })
	})
	return
}

// BubbleStacks lists, compactly, the goroutines that are durably blocked in
// a synctest bubble right now (top library frames only).
func BubbleStacks() string {
	buf := make([]byte, 1<<20)
	buf = buf[:runtime.Stack(buf, true)]
	var out []string
	for _, g := range strings.Split(string(buf), "\n\n") {
		head, rest, _ := strings.Cut(g, "\n")
		if !strings.Contains(head, "synctest bubble") || !strings.Contains(head, "durable") {
			continue
		}
		var frames []string
		for _, ln := range strings.Split(rest, "\n") {
			if strings.HasPrefix(ln, "\t") || strings.HasPrefix(ln, "created by") {
				continue
			}
			if i := strings.LastIndex(ln, "("); i > 0 {
				ln = ln[:i]
			}
			if strings.HasPrefix(ln, "runtime.") || strings.HasPrefix(ln, "sync.") || strings.HasPrefix(ln, "internal/") {
				continue
			}
			frames = append(frames, ln)
			if len(frames) == 3 {
				break
			}
		}
		st := head
		if i := strings.Index(head, "["); i >= 0 {
			st = head[i:]
		}
		out = append(out, st+" "+strings.Join(frames, " < "))
	}
	if len(out) > 6 {
		out = append(out[:6], fmt.Sprintf("... %d more", len(out)-6))
	}
	return strings.Join(out, "; ")
}

// Ctx is a context whose expiry is an environment event of the kernel.
type Ctx struct {
	k    *kernel.K
	done chan struct{}
	err  error
	dl   time.Time
	Name string
}

//go:norace
func NewCtx(k *kernel.K, timeout time.Duration, name string) *Ctx {
	c := &Ctx{k: k, done: make(chan struct{}), Name: name}
	if timeout < 0 {
		// a context that is already spent when it is handed over
		c.dl = time.Now()
		c.err = context.DeadlineExceeded
		close(c.done)
		k.Bump("fault.ctx_spent_on_entry")
		return c
	}
	if timeout > 0 {
		c.dl = time.Now().Add(timeout)
		k.Lock()
		k.At(c.dl, "ctx.expire", 0, c)
		k.Unlock()
	}
	return c
}

//go:norace
func (c *Ctx) RunEvent(time.Time) {
	if c.err == nil {
		c.err = context.DeadlineExceeded
		c.k.BumpLocked("fault.ctx_expired")
		close(c.done)
	}
}

// Cancel ends the context the way a caller's deferred cancel function does.
//
//go:norace
func (c *Ctx) Cancel() {
	c.k.Lock()
	if c.err == nil {
		c.err = context.Canceled
		close(c.done)
	}
	c.k.Unlock()
}

//go:norace
func (c *Ctx) Expired() bool { return c.err != nil }

//go:norace
func (c *Ctx) Deadline() (time.Time, bool) { return c.dl, !c.dl.IsZero() }

//go:norace
func (c *Ctx) Done() <-chan struct{} { return c.done }

//go:norace
func (c *Ctx) Err() error { return c.err }

//go:norace
func (c *Ctx) Value(any) any { return nil }

// YieldReader is a DecorateReader product that adds a scheduling point between
// the server loop's started test and the locked deadline update of the read.
type YieldReader struct {
	K     *kernel.K
	Inner dns.Reader
	Slow  time.Duration // > 0: the point takes up to this much simulated time (a stalled node), so that traffic keeps arriving meanwhile
}

// stall sleeps a PRNG-chosen part of d in simulated time.
//
//go:norace
func stall(k *kernel.K, d time.Duration, site string) {
	if d <= 0 {
		return
	}
	k.Lock()
	x := time.Duration(k.Env.Int64N(int64(d) + 1))
	k.BumpLocked("fault.stalled_task")
	k.Unlock()
	k.Sleep(site, x)
}

//go:norace
func (r *YieldReader) ReadTCP(conn net.Conn, timeout time.Duration) ([]byte, error) {
	r.K.Yield("reader.preTCP", 0)
	stall(r.K, r.Slow, "reader.stall")
	return r.Inner.ReadTCP(conn, timeout)
}

//go:norace
func (r *YieldReader) ReadPacketConn(conn net.PacketConn, timeout time.Duration) ([]byte, net.Addr, error) {
	r.K.Yield("reader.prePC", 0)
	stall(r.K, r.Slow, "reader.stall")
	return r.Inner.(dns.PacketConnReader).ReadPacketConn(conn, timeout)
}

// OwnReader is a DecorateReader product that reads stream messages itself: the application has its own
// framing code (metrics, a size policy) and does not hand on to the reader it was given. It sets no
// deadlines - those are the server's business. Datagrams are left to the reader it wraps.
type OwnReader struct {
	K *kernel.K
	dns.Reader
}

//go:norace
func (o *OwnReader) ReadTCP(conn net.Conn, timeout time.Duration) ([]byte, error) {
	o.K.Yield("reader.own", 0)
	var pre [2]byte
	if _, err := io.ReadFull(conn, pre[:]); err != nil {
		return nil, err
	}
	m := make([]byte, int(pre[0])<<8|int(pre[1]))
	if _, err := io.ReadFull(conn, m); err != nil {
		return nil, err
	}
	return m, nil
}

//go:norace
func (o *OwnReader) ReadPacketConn(conn net.PacketConn, timeout time.Duration) ([]byte, net.Addr, error) {
	return o.Reader.(dns.PacketConnReader).ReadPacketConn(conn, timeout)
}

type Decorator struct {
	K    *kernel.K
	Slow time.Duration
}

//go:norace
func (d *Decorator) Decorate(inner dns.Reader) dns.Reader {
	return &YieldReader{K: d.K, Inner: inner, Slow: d.Slow}
}

// Flag is a kernel.Cond over a bool.
type Flag struct{ V *bool }

//go:norace
func (f Flag) Holds() bool { return *f.V }

// ErrStr renders an error for the history.
//
//go:norace
func ErrStr(err error) string {
	if err == nil {
		return ""
	}
	return err.Error()
}

// YieldAccept is the default accept policy preceded by a scheduling point: it
// sits between the server's header parse and its decode of the body.
type YieldAccept struct {
	K    *kernel.K
	Slow time.Duration
}

//go:norace
func (y *YieldAccept) Accept(dh dns.Header) dns.MsgAcceptAction {
	y.K.Yield("accept", 0)
	stall(y.K, y.Slow, "accept.stall")
	return dns.DefaultMsgAcceptFunc(dh)
}

// BubbleStacksAll lists the goroutines of synctest bubbles that are not
// durably blocked (for hang reports: typically blocked in sync.(*Mutex).Lock).
func BubbleStacksAll() string {
	buf := make([]byte, 1<<20)
	buf = buf[:runtime.Stack(buf, true)]
	var out []string
	for _, g := range strings.Split(string(buf), "\n\n") {
		head, rest, _ := strings.Cut(g, "\n")
		if !strings.Contains(head, "synctest bubble") || strings.Contains(head, "durable") {
			continue
		}
		var frames []string
		for _, ln := range strings.Split(rest, "\n") {
			if strings.HasPrefix(ln, "\t") || strings.HasPrefix(ln, "created by") {
				continue
			}
			if i := strings.LastIndex(ln, "("); i > 0 {
				ln = ln[:i]
			}
			if strings.HasPrefix(ln, "runtime.") || strings.HasPrefix(ln, "internal/") {
				continue
			}
			frames = append(frames, ln)
			if len(frames) == 4 {
				break
			}
		}
		st := head
		if i := strings.Index(head, "["); i >= 0 {
			st = head[i:]
		}
		out = append(out, st+" "+strings.Join(frames, " < "))
		if len(out) == 8 {
			break
		}
	}
	return strings.Join(out, "; ")
}

// WDecorator is a Server.DecorateWriter product: every write of a reply goes
// through a scheduling point first (an application that logs, compresses or
// rate-limits what it sends).
type WDecorator struct {
	K *kernel.K
}

//go:norace
func (d *WDecorator) Decorate(inner dns.Writer) dns.Writer {
	d.K.Bump("cover.decorated_writer")
	return &yieldWriter{k: d.K, inner: inner}
}

type yieldWriter struct {
	k     *kernel.K
	inner dns.Writer
}

//go:norace
func (w *yieldWriter) Write(p []byte) (int, error) {
	w.k.Yield("writer.pre", 0)
	return w.inner.Write(p)
}
