//go:build verifsim

package common

import (
	"context"
	"net"

	"github.com/miekg/dns"
)

// Socket seam of the instrumented copy (DESIGN 11.2): ListenAndServe's
// listenTCP / listenUDP and the client's dial calls ask these hooks instead of
// the operating system. ListenSeam / DialSeam report whether the rewriter found
// every such call in the tree under test; a harness uses the library's own
// listening and dialling entry points only then.

func ListenSeam() bool { return dns.VerifsimListenSeam }
func DialSeam() bool   { return dns.VerifsimDialSeam }

// Sockets is what one run answers with.
type Sockets struct {
	ListenTCP func(network, addr string, reuseport, reuseaddr bool) (net.Listener, error)
	ListenUDP func(network, addr string, reuseport, reuseaddr bool) (net.PacketConn, error)
	Dial      func(d *net.Dialer, ctx context.Context, network, addr string) (net.Conn, error)
}

// InstallSockets connects the hooks for the run in progress; the returned
// function disconnects them.
//
//go:norace
func InstallSockets(s *Sockets) func() {
	dns.VerifsimListenTCP, dns.VerifsimListenUDP, dns.VerifsimDial = s.ListenTCP, s.ListenUDP, s.Dial
	return uninstallSockets
}

//go:norace
func uninstallSockets() {
	dns.VerifsimListenTCP, dns.VerifsimListenUDP, dns.VerifsimDial = nil, nil, nil
}
