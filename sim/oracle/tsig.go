package oracle

import (
	"crypto/hmac"
	"crypto/sha1"
	"crypto/sha256"
	"crypto/sha512"
	"encoding/base64"
	"encoding/binary"
	"hash"
	"strings"
)

// TSIG is the TSIG record of a message as located and decoded by this
// package's own walker (RFC 8945 section 4.2).
type TSIG struct {
	RRStart   int    // offset of the TSIG record in the message
	KeyName   string // lower-cased presentation form
	KeyRaw    []byte // owner name, uncompressed, as on the wire (case preserved)
	Class     uint16
	TTL       uint32
	AlgName   string // lower-cased
	AlgRaw    []byte
	Time      uint64
	Fudge     uint16
	MAC       []byte
	OrigID    uint16
	Error     uint16
	Other     []byte
	LastInMsg bool // the TSIG is the last record and nothing follows it
	Odd       bool // RDATA does not have exactly the RFC 8945 layout (lengths disagree)
}

// FindTSIG locates the TSIG record of a message: RFC 8945 requires it to be
// the last record of the additional section.
func FindTSIG(b []byte) (*TSIG, *Msg, bool) {
	m, err := Parse(b)
	if err != nil || m.H.AR == 0 || len(m.RRs) == 0 {
		return nil, m, false
	}
	rr := m.RRs[len(m.RRs)-1]
	if rr.Type != 250 {
		return nil, m, false
	}
	t := &TSIG{RRStart: rr.Start, KeyName: rr.Owner, KeyRaw: rr.OwnerRaw, Class: rr.Class, TTL: rr.TTL, LastInMsg: m.End == len(b)}
	rd := b[rr.RdStart:rr.RdEnd]
	alg, raw, next, err := Name(b[:rr.RdEnd], rr.RdStart)
	if err != nil {
		t.Odd = true
		return t, m, true
	}
	t.AlgName, t.AlgRaw = alg, raw
	off := next - rr.RdStart
	if off+10 > len(rd) {
		t.Odd = true
		return t, m, true
	}
	t.Time = uint64(rd[off])<<40 | uint64(rd[off+1])<<32 | uint64(rd[off+2])<<24 | uint64(rd[off+3])<<16 | uint64(rd[off+4])<<8 | uint64(rd[off+5])
	t.Fudge = binary.BigEndian.Uint16(rd[off+6:])
	ms := int(binary.BigEndian.Uint16(rd[off+8:]))
	off += 10
	if off+ms+6 > len(rd) {
		// RDLENGTH and the inner lengths disagree: the layout is not the RFC's
		t.Odd = true
		if off+ms <= len(rd) {
			t.MAC = rd[off : off+ms]
		}
		return t, m, true
	}
	t.MAC = rd[off : off+ms]
	off += ms
	t.OrigID = binary.BigEndian.Uint16(rd[off:])
	t.Error = binary.BigEndian.Uint16(rd[off+2:])
	ol := int(binary.BigEndian.Uint16(rd[off+4:]))
	off += 6
	if off+ol != len(rd) {
		t.Odd = true
		if off+ol > len(rd) {
			ol = len(rd) - off
		}
	}
	t.Other = rd[off : off+ol]
	return t, m, true
}

func hmacFor(alg string) func() hash.Hash {
	switch alg {
	case "hmac-sha1.":
		return sha1.New
	case "hmac-sha224.":
		return sha256.New224
	case "hmac-sha256.":
		return sha256.New
	case "hmac-sha384.":
		return sha512.New384
	case "hmac-sha512.":
		return sha512.New
	}
	return nil
}

func lowerWire(raw []byte) []byte {
	out := append([]byte(nil), raw...)
	for i := 0; i < len(out); {
		l := int(out[i])
		if l == 0 || i+1+l > len(out) {
			break
		}
		for j := i + 1; j <= i+l; j++ {
			if out[j] >= 'A' && out[j] <= 'Z' {
				out[j] += 32
			}
		}
		i += 1 + l
	}
	return out
}

// Digest computes the RFC 8945 HMAC of a message: prior MAC (with its
// two-octet length) when there is one, the message with its original ID and
// without the TSIG record (ARCOUNT decremented), then the TSIG variables or,
// for timersOnly, the timers.
func Digest(b []byte, t *TSIG, secret []byte, prior []byte, timersOnly bool) []byte {
	hf := hmacFor(t.AlgName)
	if hf == nil {
		return nil
	}
	h := hmac.New(hf, secret)
	if len(prior) > 0 {
		var l [2]byte
		binary.BigEndian.PutUint16(l[:], uint16(len(prior)))
		h.Write(l[:])
		h.Write(prior)
	}
	msg := append([]byte(nil), b[:t.RRStart]...)
	binary.BigEndian.PutUint16(msg[0:], t.OrigID)
	binary.BigEndian.PutUint16(msg[10:], binary.BigEndian.Uint16(msg[10:])-1)
	h.Write(msg)
	var tm [8]byte
	tm[0], tm[1], tm[2], tm[3], tm[4], tm[5] = byte(t.Time>>40), byte(t.Time>>32), byte(t.Time>>24), byte(t.Time>>16), byte(t.Time>>8), byte(t.Time)
	binary.BigEndian.PutUint16(tm[6:], t.Fudge)
	if timersOnly {
		h.Write(tm[:])
		return h.Sum(nil)
	}
	h.Write(lowerWire(t.KeyRaw))
	h.Write([]byte{0, 255, 0, 0, 0, 0}) // CLASS ANY, TTL 0
	h.Write(lowerWire(t.AlgRaw))
	h.Write(tm[:])
	var eo [4]byte
	binary.BigEndian.PutUint16(eo[0:], t.Error)
	binary.BigEndian.PutUint16(eo[2:], uint16(len(t.Other)))
	h.Write(eo[:])
	h.Write(t.Other)
	return h.Sum(nil)
}

// Verdict of the reference verifier.
type TSIGVerdict struct {
	Valid    bool
	Reason   string
	MAC      []byte // MAC carried by the message (nil when there is no TSIG)
	Judgable bool   // false where the statement leaves the case open (see Reason)
}

// VerifyTSIG decides whether the delivered octets are RFC 8945-valid for the
// given secrets (key name in canonical form -> base64 secret), prior MAC,
// timers-only setting and current time.
func VerifyTSIG(b []byte, secrets map[string]string, prior []byte, timersOnly bool, now uint64) TSIGVerdict {
	return VerifyTSIGCase(b, secrets, prior, timersOnly, now, false)
}

// VerifyTSIGCase is VerifyTSIG; with anyCase it also judges messages whose
// key name is not spelled in lower case on the wire (the digest takes the
// name in canonical form whatever its spelling, RFC 8945 4.3.3) - for
// verifiers that are handed the secret itself and look nothing up by name.
func VerifyTSIGCase(b []byte, secrets map[string]string, prior []byte, timersOnly bool, now uint64, anyCase bool) TSIGVerdict {
	t, _, ok := FindTSIG(b)
	if !ok {
		return TSIGVerdict{Reason: "no TSIG as last additional record", Judgable: true}
	}
	v := TSIGVerdict{MAC: t.MAC, Judgable: true}
	h, _ := ParseHeader(b)
	if h.Rcode == 9 {
		// NOTAUTH: the library refuses such a message before looking at the MAC;
		// whether that is an "error" in the statement's sense is moot - not judged
		v.Judgable, v.Reason = false, "rcode NOTAUTH"
		return v
	}
	if t.Class != 255 {
		// the TSIG variables cover CLASS, which is ANY (RFC 8945 4.2, 4.3.3): whether a verifier
		// hashes the constant or the field, a record that says otherwise does not carry a MAC
		// over what it says
		v.Reason = "TSIG class is not ANY"
		return v
	}
	if t.TTL != 0 && !timersOnly {
		// likewise TTL, which is 0 - where the variables are part of the digest at all
		v.Reason = "TSIG TTL is not 0"
		return v
	}
	if t.TTL != 0 || t.Odd {
		// a timers-only digest covers none of TTL / error / other data, and the
		// record's inner lengths are not digested either: an alteration there is
		// not something the MAC can or must catch - not judged
		v.Judgable, v.Reason = false, "TSIG record header or layout not as RFC 8945 prescribes"
		return v
	}
	if timersOnly && (t.Error != 0 || len(t.Other) != 0) {
		v.Judgable, v.Reason = false, "error/other data in a timers-only envelope (not covered by the digest)"
		return v
	}
	if !anyCase && strings.ToLower(string(t.KeyRaw)) != string(t.KeyRaw) {
		// key-name case differs from the canonical form the secret maps require: not judged
		v.Judgable, v.Reason = false, "key name not in canonical case"
		return v
	}
	sec, ok := secrets[t.KeyName]
	if !ok {
		v.Reason = "unknown key"
		return v
	}
	raw, err := base64.StdEncoding.DecodeString(sec)
	if err != nil {
		v.Reason = "bad secret"
		return v
	}
	d := Digest(b, t, raw, prior, timersOnly)
	if d == nil {
		v.Reason = "unknown algorithm"
		return v
	}
	if len(t.MAC) != len(d) {
		if len(t.MAC) < len(d) && len(t.MAC) >= 10 && len(t.MAC) >= len(d)/2 && hmac.Equal(d[:len(t.MAC)], t.MAC) {
			v.Judgable, v.Reason = false, "truncated MAC" // permitted by the RFC, not claimed by the statement
			return v
		}
		v.Reason = "MAC length"
		return v
	}
	if !hmac.Equal(d, t.MAC) {
		v.Reason = "MAC mismatch"
		return v
	}
	diff := now - t.Time
	if t.Time > now {
		diff = t.Time - now
	}
	if diff > uint64(t.Fudge) {
		v.Reason = "outside fudge"
		return v
	}
	if !t.LastInMsg {
		v.Judgable, v.Reason = false, "octets after the TSIG record"
		return v
	}
	v.Valid = true
	return v
}

// MACMatches says whether the MAC a message carries is the RFC 8945 HMAC for
// the given secret, prior MAC and timers-only setting - nothing else (not the
// time, not the RCODE). judgable is false where the layout is not RFC 8945's.
func MACMatches(b []byte, secretB64 string, prior []byte, timersOnly bool) (ok, judgable bool) {
	t, _, has := FindTSIG(b)
	if !has || t.Odd || t.Class != 255 || t.TTL != 0 {
		return false, false
	}
	raw, err := base64.StdEncoding.DecodeString(secretB64)
	if err != nil {
		return false, false
	}
	d := Digest(b, t, raw, prior, timersOnly)
	if d == nil {
		return false, false
	}
	return hmac.Equal(d, t.MAC), true
}

// SignTSIG appends a TSIG record to an unsigned message (independent
// signer used by scripted senders and the middlebox).
func SignTSIG(msg []byte, keyName, alg string, secretB64 string, prior []byte, timersOnly bool, timeSigned uint64, fudge uint16) []byte {
	raw, _ := base64.StdEncoding.DecodeString(secretB64)
	wireName := func(s string) []byte {
		var out []byte
		for _, l := range strings.Split(strings.TrimSuffix(s, "."), ".") {
			if l == "" {
				continue
			}
			out = append(out, byte(len(l)))
			out = append(out, l...)
		}
		return append(out, 0)
	}
	t := &TSIG{RRStart: len(msg), KeyRaw: wireName(keyName), AlgName: strings.ToLower(alg), AlgRaw: wireName(alg), Time: timeSigned, Fudge: fudge, OrigID: binary.BigEndian.Uint16(msg)}
	tmp := append([]byte(nil), msg...)
	binary.BigEndian.PutUint16(tmp[10:], binary.BigEndian.Uint16(tmp[10:])+1) // Digest decrements it again
	mac := Digest(tmp, t, raw, prior, timersOnly)
	out := append([]byte(nil), msg...)
	binary.BigEndian.PutUint16(out[10:], binary.BigEndian.Uint16(out[10:])+1)
	out = append(out, t.KeyRaw...)
	out = append(out, 0, 250, 0, 255, 0, 0, 0, 0)
	var rd []byte
	rd = append(rd, t.AlgRaw...)
	rd = append(rd, byte(timeSigned>>40), byte(timeSigned>>32), byte(timeSigned>>24), byte(timeSigned>>16), byte(timeSigned>>8), byte(timeSigned))
	rd = append(rd, byte(fudge>>8), byte(fudge), byte(len(mac)>>8), byte(len(mac)))
	rd = append(rd, mac...)
	rd = append(rd, out[0], out[1], 0, 0, 0, 0)
	out = append(out, byte(len(rd)>>8), byte(len(rd)))
	return append(out, rd...)
}

// StripTSIG removes the TSIG record (if it is the last record).
func StripTSIG(b []byte) []byte {
	t, _, ok := FindTSIG(b)
	if !ok {
		return b
	}
	out := append([]byte(nil), b[:t.RRStart]...)
	binary.BigEndian.PutUint16(out[10:], binary.BigEndian.Uint16(out[10:])-1)
	return out
}

// HMAC computes the MAC of msg under the named algorithm (nil when the
// algorithm is not one of the five HMAC-SHA variants).
func HMAC(alg string, secret, msg []byte) []byte {
	hf := hmacFor(strings.ToLower(alg))
	if hf == nil {
		return nil
	}
	h := hmac.New(hf, secret)
	h.Write(msg)
	return h.Sum(nil)
}

// ShortenMAC rewrites the TSIG record of a message so that it carries only
// the first keep octets of its MAC (lengths adjusted, everything else as it
// was): a forger's attempt at a truncated MAC.
// CutBehindMACSize returns the message cut right behind the MAC size field of its TSIG record (half: in
// the middle of the MAC), RDLENGTH adjusted to what is left, the size field untouched; nil when b has no
// well-formed TSIG.
func CutBehindMACSize(b []byte, half bool) []byte {
	t, m, ok := FindTSIG(b)
	if !ok || t.Odd || len(t.MAC) < 2 || len(m.RRs) == 0 {
		return nil
	}
	rr := m.RRs[len(m.RRs)-1]
	end := rr.RdStart + len(t.AlgRaw) + 10
	if half {
		end += len(t.MAC) / 2
	}
	out := append([]byte(nil), b[:end]...)
	binary.BigEndian.PutUint16(out[rr.RdStart-2:], uint16(end-rr.RdStart))
	return out
}

func ShortenMAC(b []byte, keep int) []byte {
	t, m, ok := FindTSIG(b)
	if !ok || t.Odd || keep >= len(t.MAC) || len(m.RRs) == 0 {
		return b
	}
	rr := m.RRs[len(m.RRs)-1]
	macStart := rr.RdStart + len(t.AlgRaw) + 10
	cut := len(t.MAC) - keep
	out := append([]byte(nil), b[:macStart+keep]...)
	out = append(out, b[macStart+len(t.MAC):]...)
	rdlen := rr.RdEnd - rr.RdStart - cut
	binary.BigEndian.PutUint16(out[rr.RdStart-2:], uint16(rdlen))
	binary.BigEndian.PutUint16(out[macStart-2:], uint16(keep))
	return out
}
