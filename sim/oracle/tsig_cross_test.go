package oracle

import (
	"encoding/hex"
	"testing"
	"time"

	"github.com/miekg/dns"
)

// Cross-validation of the independent TSIG code against the library on the
// happy path (development sanity check; the checks themselves never use the
// library as the reference).
func TestTSIGCross(t *testing.T) {
	secret := "c2VjcmV0LXNlY3JldC1zZWNyZXQtc2VjcmV0"
	for _, alg := range []string{dns.HmacSHA1, dns.HmacSHA224, dns.HmacSHA256, dns.HmacSHA384, dns.HmacSHA512} {
		now := uint64(time.Now().Unix())
		m := new(dns.Msg)
		m.SetQuestion("example.org.", dns.TypeSOA)
		m.SetTsig("key.example.", alg, 300, int64(now))
		out, mac, err := dns.TsigGenerate(m, secret, "", false)
		if err != nil {
			t.Fatal(err)
		}
		v := VerifyTSIG(out, map[string]string{"key.example.": secret}, nil, false, now)
		if !v.Valid || hex.EncodeToString(v.MAC) != mac {
			t.Fatalf("%s: oracle rejects library signature: %+v", alg, v)
		}
		// second message of a chain, timers only
		m2 := new(dns.Msg)
		m2.SetQuestion("example.org.", dns.TypeA)
		m2.Response = true
		m2.SetTsig("key.example.", alg, 300, int64(now))
		out2, _, err := dns.TsigGenerate(m2, secret, mac, true)
		if err != nil {
			t.Fatal(err)
		}
		prior, _ := hex.DecodeString(mac)
		if v := VerifyTSIG(out2, map[string]string{"key.example.": secret}, prior, true, now); !v.Valid {
			t.Fatalf("%s: oracle rejects chained library signature: %+v", alg, v)
		}
		// oracle signs, library verifies
		um := new(dns.Msg)
		um.SetQuestion("www.example.org.", dns.TypeMX)
		ub, _ := um.Pack()
		sb := SignTSIG(ub, "key.example.", alg, secret, prior, false, now, 300)
		if string(StripTSIG(sb)) != string(ub) {
			t.Fatalf("strip")
		}
		if err := dns.TsigVerify(sb, secret, mac, false); err != nil {
			t.Fatalf("%s: library rejects oracle signature: %v", alg, err)
		}
		sb2 := SignTSIG(ub, "key.example.", alg, secret, prior, true, now, 300)
		if err := dns.TsigVerify(sb2, secret, mac, true); err != nil {
			t.Fatalf("%s: library rejects oracle timers-only signature: %v", alg, err)
		}
	}
}
