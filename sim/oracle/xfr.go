package oracle

// Reference model of incoming zone-transfer termination (RFC 5936 section
// 2.2, RFC 1995 section 4) over a delivered sequence of envelopes.

type XRR struct {
	SOA    bool
	Serial uint32
}

type XEnv struct {
	DecodeErr bool
	ID        uint16
	Rcode     int
	RRs       []XRR
}

type XResult struct {
	Good       int    // envelopes delivered without error before the end
	Err        string // "" = complete and error-free; decode | id | rcode | soa | incomplete
	WellFormed bool   // false: the sequence is outside what the RFCs define (closing SOA inside an envelope, SOA SOA with equal serials ...): termination is not judged
}

// XfrModel walks the envelopes the receiver was given.
func XfrModel(ixfr bool, qid uint16, clientSerial uint32, envs []XEnv) XResult {
	res := XResult{WellFormed: true}
	soaCount := 0
	var serial uint32
	nSerial, rrIndex := 0, 0
	incremental, secondSeen := false, false
	for i, e := range envs {
		switch {
		case e.DecodeErr:
			res.Err = "decode"
		case e.ID != qid:
			res.Err = "id"
		case e.Rcode != 0:
			res.Err = "rcode"
		case i == 0 && (len(e.RRs) == 0 || !e.RRs[0].SOA):
			res.Err = "soa"
		}
		if res.Err != "" {
			res.Good = i
			return res
		}
		if i == 0 {
			serial = e.RRs[0].Serial
			if ixfr && clientSerial >= serial {
				res.Good = 1
				return res
			}
		}
		complete := false
		for j, rr := range e.RRs {
			last := j == len(e.RRs)-1
			if rrIndex == 1 {
				secondSeen = true
				incremental = rr.SOA
				if ixfr && rr.SOA && rr.Serial == serial {
					res.WellFormed = false
				}
			}
			rrIndex++
			if !rr.SOA {
				continue
			}
			soaCount++
			if !ixfr {
				if soaCount >= 2 && !complete {
					complete = true
					if !last {
						res.WellFormed = false
					}
				}
				continue
			}
			if rr.Serial != serial && secondSeen && !incremental {
				// an SOA of another serial inside what began as an AXFR-style
				// answer: neither RFC says what that means
				res.WellFormed = false
			}
			if rr.Serial == serial {
				nSerial++
				if !complete && ((!incremental && nSerial == 2) || nSerial == 3) {
					complete = true
				}
			}
		}
		if complete {
			res.Good = i + 1
			return res
		}
	}
	res.Good = len(envs)
	res.Err = "incomplete"
	return res
}
