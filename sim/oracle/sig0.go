package oracle

// An independent reading of SIG(0) (RFC 2931 with the SIG RDATA of RFC 2535):
// what is signed, how a third party would sign it, and whether a signature is
// one. Nothing here calls the library; the cryptography is the standard
// library's.

import (
	"crypto"
	"crypto/ecdsa"
	"crypto/ed25519"
	"crypto/rand"
	"crypto/rsa"
	"crypto/sha1"
	"crypto/sha256"
	"crypto/sha512"
	"encoding/binary"
	"errors"
	"math/big"
)

// SIG0Parts locates, in a signed message, the data the signature covers (SIG
// RDATA without the signature, then the message as it was before the SIG was
// appended: ARCOUNT one less) and the signature itself.
func SIG0Parts(signed []byte) (data, sig []byte, alg uint8, err error) {
	lay, perr := Parse(signed)
	if perr != nil || len(lay.RRs) == 0 {
		return nil, nil, 0, ErrWire
	}
	rr := lay.RRs[len(lay.RRs)-1]
	if rr.Type != 24 || rr.RdEnd-rr.RdStart < 19 {
		return nil, nil, 0, ErrWire
	}
	_, _, signerEnd, nerr := Name(signed, rr.RdStart+18)
	if nerr != nil || signerEnd > rr.RdEnd {
		return nil, nil, 0, ErrWire
	}
	alg = signed[rr.RdStart+2]
	data = append(data, signed[rr.RdStart:signerEnd]...)
	hdr := append([]byte(nil), signed[:12]...)
	binary.BigEndian.PutUint16(hdr[10:], uint16(lay.H.AR-1))
	data = append(data, hdr...)
	data = append(data, signed[12:rr.Start]...)
	return data, signed[signerEnd:rr.RdEnd], alg, nil
}

func sig0Hash(alg uint8, data []byte) (crypto.Hash, []byte, bool) {
	switch alg {
	case 5, 7:
		h := sha1.Sum(data)
		return crypto.SHA1, h[:], true
	case 8, 13:
		h := sha256.Sum256(data)
		return crypto.SHA256, h[:], true
	case 14:
		h := sha512.Sum384(data)
		return crypto.SHA384, h[:], true
	case 10:
		h := sha512.Sum512(data)
		return crypto.SHA512, h[:], true
	case 15:
		return 0, data, true
	}
	return 0, nil, false
}

// VerifySIG0 reports whether the last record of signed is a SIG(0) whose
// signature is valid under pub. judgable is false when the octets cannot be
// walked or the algorithm is not one of 5, 7, 8, 10, 13, 14, 15.
func VerifySIG0(signed []byte, pub crypto.PublicKey) (ok, judgable bool) {
	data, sig, alg, err := SIG0Parts(signed)
	if err != nil {
		return false, false
	}
	ch, digest, known := sig0Hash(alg, data)
	if !known {
		return false, false
	}
	switch k := pub.(type) {
	case *rsa.PublicKey:
		return rsa.VerifyPKCS1v15(k, ch, digest, sig) == nil, true
	case *ecdsa.PublicKey:
		if len(sig)%2 != 0 || len(sig) == 0 {
			return false, true
		}
		r, s := new(big.Int).SetBytes(sig[:len(sig)/2]), new(big.Int).SetBytes(sig[len(sig)/2:])
		return ecdsa.Verify(k, digest, r, s), true
	case ed25519.PublicKey:
		return ed25519.Verify(k, digest, sig), true
	}
	return false, false
}

// SignSIG0 appends to msg (a packed message) a SIG record with owner root,
// class ANY, TTL 0, made the way another implementation would make it. For
// ECDSA, s chooses which of the two equally valid signatures (r, s) and
// (r, n-s) is emitted: 1 the one with the smaller s, 2 the one with the larger.
func SignSIG0(msg []byte, alg uint8, keyTag uint16, signerWire []byte, incept, expire uint32, priv crypto.Signer, s int) ([]byte, error) {
	rdata := make([]byte, 18, 18+len(signerWire))
	// type covered 0, algorithm, labels 0, original TTL 0
	rdata[2] = alg
	binary.BigEndian.PutUint32(rdata[8:], expire)
	binary.BigEndian.PutUint32(rdata[12:], incept)
	binary.BigEndian.PutUint16(rdata[16:], keyTag)
	rdata = append(rdata, signerWire...)
	data := append(append([]byte(nil), rdata...), msg...)
	ch, digest, known := sig0Hash(alg, data)
	if !known {
		return nil, errors.New("oracle: algorithm not supported")
	}
	var sig []byte
	switch k := priv.(type) {
	case *rsa.PrivateKey:
		b, err := rsa.SignPKCS1v15(nil, k, ch, digest)
		if err != nil {
			return nil, err
		}
		sig = b
	case *ecdsa.PrivateKey:
		r, sv, err := ecdsa.Sign(rand.Reader, k, digest)
		if err != nil {
			return nil, err
		}
		n := k.Curve.Params().N
		other := new(big.Int).Sub(n, sv)
		if (s == 1 && other.Cmp(sv) < 0) || (s == 2 && other.Cmp(sv) > 0) {
			sv = other
		}
		size := (k.Curve.Params().BitSize + 7) / 8
		sig = make([]byte, 2*size)
		r.FillBytes(sig[:size])
		sv.FillBytes(sig[size:])
	case ed25519.PrivateKey:
		sig = ed25519.Sign(k, digest)
	default:
		return nil, errors.New("oracle: key type not supported")
	}
	out := append([]byte(nil), msg...)
	binary.BigEndian.PutUint16(out[10:], binary.BigEndian.Uint16(msg[10:])+1)
	out = append(out, 0)             // owner: root
	out = append(out, 0, 24, 0, 255) // SIG, ANY
	out = append(out, 0, 0, 0, 0)    // TTL
	rdlen := len(rdata) + len(sig)
	out = append(out, byte(rdlen>>8), byte(rdlen))
	out = append(out, rdata...)
	return append(out, sig...), nil
}
