package oracle

import (
	"sort"
	"strings"
)

// Accept actions, numbered as in the statement, not as in the library.
const (
	ActAccept = "accept"
	ActReject = "formerr"
	ActIgnore = "ignore"
	ActNotImp = "notimp"
	ActEither = "accept-or-formerr" // documentation and RFC reading disagree: not asserted
)

// DefaultAccept is the documented default admission policy as a function of
// the header: QR set is never answered; opcodes other than QUERY and NOTIFY
// get NOTIMP; anything but exactly one question, more than one answer, more
// than one authority record or more than two additional records is FORMERR.
// One authority record (IXFR) is accepted by the code and rejected by the doc
// comment: left open.
func DefaultAccept(h Header) string {
	switch {
	case h.QR:
		return ActIgnore
	case h.Opcode != 0 && h.Opcode != 4:
		return ActNotImp
	case h.QD != 1, h.AN > 1, h.NS > 1, h.AR > 2:
		return ActReject
	case h.NS == 1:
		return ActEither
	}
	return ActAccept
}

// suffixes lists the name and its ancestors (root excluded), splitting at
// label boundaries only: a dot that is escaped (\. or \046) is part of a label.
func suffixes(q string) []string {
	// "a.b.c." -> ["a.b.c.", "b.c.", "c."]
	var out []string
	start := 0
	for start < len(q) && q[start:] != "." {
		out = append(out, q[start:])
		i := start
		for i < len(q) {
			if q[i] == '\\' {
				if i+3 < len(q) && q[i+1] >= '0' && q[i+1] <= '9' {
					i += 4
				} else {
					i += 2
				}
				continue
			}
			if q[i] == '.' {
				break
			}
			i++
		}
		start = i + 1
	}
	return out
}

func Canon(s string) string {
	s = strings.ToLower(s)
	if !strings.HasSuffix(s, ".") {
		s += "."
	}
	return s
}

const Refused = -1

// Route returns the set of handler ids a multiplexer holding patterns may
// pass the question to (Refused = the REFUSED reply). Longest suffix on label
// boundaries ignoring case; root last; DS goes to a registered proper
// ancestor when there is one (which one is left open when there are several).
func Route(patterns map[string]int, qname string, qtype uint16) []int {
	q := Canon(qname)
	sfx := suffixes(q)
	root, hasRoot := patterns["."]
	if qtype != 43 {
		for _, s := range sfx {
			if h, ok := patterns[s]; ok {
				return []int{h}
			}
		}
		if hasRoot {
			return []int{root}
		}
		return []int{Refused}
	}
	var anc []int
	for i, s := range sfx {
		if i == 0 {
			continue // the name itself
		}
		if h, ok := patterns[s]; ok {
			anc = append(anc, h)
		}
	}
	if hasRoot && q != "." {
		anc = append(anc, root)
	}
	if len(anc) > 0 {
		sort.Ints(anc)
		return anc
	}
	if len(sfx) > 0 {
		if h, ok := patterns[sfx[0]]; ok {
			return []int{h}
		}
	}
	if hasRoot {
		return []int{root}
	}
	return []int{Refused}
}
