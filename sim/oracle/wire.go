// Package oracle holds the small, independent reference code the checks trust:
// a DNS wire walker, stream framing, the RFC 8945 TSIG digest, the zone
// transfer termination model, the server admission and routing models. None of
// it shares code with the library under test.
package oracle

import (
	"encoding/binary"
	"errors"
	"strings"
)

var ErrWire = errors.New("oracle: malformed message")

type Header struct {
	ID                 uint16
	Flags              uint16
	QD, AN, NS, AR     int
	QR                 bool
	Opcode             int
	AA, TC, RD, RA, CD bool
	AD, Z              bool
	Rcode              int
}

func ParseHeader(b []byte) (h Header, ok bool) {
	if len(b) < 12 {
		return h, false
	}
	h.ID = binary.BigEndian.Uint16(b)
	f := binary.BigEndian.Uint16(b[2:])
	h.Flags = f
	h.QR = f&0x8000 != 0
	h.Opcode = int(f>>11) & 0xf
	h.AA = f&0x0400 != 0
	h.TC = f&0x0200 != 0
	h.RD = f&0x0100 != 0
	h.RA = f&0x0080 != 0
	h.Z = f&0x0040 != 0
	h.AD = f&0x0020 != 0
	h.CD = f&0x0010 != 0
	h.Rcode = int(f & 0xf)
	h.QD = int(binary.BigEndian.Uint16(b[4:]))
	h.AN = int(binary.BigEndian.Uint16(b[6:]))
	h.NS = int(binary.BigEndian.Uint16(b[8:]))
	h.AR = int(binary.BigEndian.Uint16(b[10:]))
	return h, true
}

// Name reads a possibly compressed domain name at off and returns its
// lower-cased presentation form (labels joined by '.', octets outside
// [a-z0-9-_] as \DDD), its uncompressed wire form, and the offset just after
// the name in the message.
func Name(b []byte, off int) (text string, wire []byte, next int, err error) {
	var sb strings.Builder
	ptrs := 0
	next = -1
	for {
		if off >= len(b) {
			return "", nil, 0, ErrWire
		}
		c := int(b[off])
		switch c & 0xc0 {
		case 0x00:
			if c == 0 {
				wire = append(wire, 0)
				if next < 0 {
					next = off + 1
				}
				if sb.Len() == 0 {
					return ".", wire, next, nil
				}
				return sb.String(), wire, next, nil
			}
			if off+1+c > len(b) {
				return "", nil, 0, ErrWire
			}
			wire = append(wire, b[off:off+1+c]...)
			for _, ch := range b[off+1 : off+1+c] {
				switch {
				case ch >= 'A' && ch <= 'Z':
					sb.WriteByte(ch + 32)
				case ch >= 'a' && ch <= 'z', ch >= '0' && ch <= '9', ch == '-', ch == '_':
					sb.WriteByte(ch)
				default:
					sb.WriteByte('\\')
					sb.WriteByte('0' + ch/100)
					sb.WriteByte('0' + ch/10%10)
					sb.WriteByte('0' + ch%10)
				}
			}
			sb.WriteByte('.')
			off += 1 + c
			if len(wire) > 255 {
				return "", nil, 0, ErrWire
			}
		case 0xc0:
			if off+2 > len(b) {
				return "", nil, 0, ErrWire
			}
			if next < 0 {
				next = off + 2
			}
			off = (c&0x3f)<<8 | int(b[off+1])
			ptrs++
			if ptrs > 128 {
				return "", nil, 0, ErrWire
			}
		default:
			return "", nil, 0, ErrWire
		}
	}
}

// RR is one resource record located in a message.
type RR struct {
	Start    int // offset of the owner name
	NameEnd  int // offset of TYPE
	Type     uint16
	Class    uint16
	TTL      uint32
	RdStart  int
	RdEnd    int
	Owner    string
	OwnerRaw []byte
}

// Msg is the layout of a message: where every question and record sits.
type Msg struct {
	H         Header
	Questions []Question
	RRs       []RR // answer, authority, additional in order
	End       int  // offset after the last record
}

type Question struct {
	Start, End int
	Name       string
	Type       uint16
	Class      uint16
}

// Parse walks a whole message. It fails when counts and contents disagree.
func Parse(b []byte) (*Msg, error) {
	h, ok := ParseHeader(b)
	if !ok {
		return nil, ErrWire
	}
	m := &Msg{H: h}
	off := 12
	for i := 0; i < h.QD; i++ {
		name, _, next, err := Name(b, off)
		if err != nil || next+4 > len(b) {
			return nil, ErrWire
		}
		m.Questions = append(m.Questions, Question{Start: off, End: next + 4, Name: name,
			Type: binary.BigEndian.Uint16(b[next:]), Class: binary.BigEndian.Uint16(b[next+2:])})
		off = next + 4
	}
	for i := 0; i < h.AN+h.NS+h.AR; i++ {
		name, raw, next, err := Name(b, off)
		if err != nil || next+10 > len(b) {
			return nil, ErrWire
		}
		rdlen := int(binary.BigEndian.Uint16(b[next+8:]))
		if next+10+rdlen > len(b) {
			return nil, ErrWire
		}
		m.RRs = append(m.RRs, RR{Start: off, NameEnd: next, Owner: name, OwnerRaw: raw,
			Type: binary.BigEndian.Uint16(b[next:]), Class: binary.BigEndian.Uint16(b[next+2:]),
			TTL: binary.BigEndian.Uint32(b[next+4:]), RdStart: next + 10, RdEnd: next + 10 + rdlen})
		off = next + 10 + rdlen
	}
	m.End = off
	return m, nil
}

// Frames splits a byte stream into 2-octet-length-prefixed frames. rest is
// what follows the last complete frame.
func Frames(b []byte) (frames [][]byte, rest []byte) {
	for len(b) >= 2 {
		n := int(binary.BigEndian.Uint16(b))
		if len(b) < 2+n {
			break
		}
		frames = append(frames, b[2:2+n])
		b = b[2+n:]
	}
	return frames, b
}

func Frame(m []byte) []byte {
	out := make([]byte, 2+len(m))
	binary.BigEndian.PutUint16(out, uint16(len(m)))
	copy(out[2:], m)
	return out
}
